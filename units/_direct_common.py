"""Shared fragments for the C16 units (amgcl/reorder/cuthill_mckee.hpp, amgcl/solver/skyline_lu.hpp):
C view of std::vector locals, of backend::row_begin/row_iterator, permutation spec functions."""
from cxc.extract import Rule, IdxRule

CM_SRC = 'amgcl/reorder/cuthill_mckee.hpp'
SKY_SRC = 'amgcl/solver/skyline_lu.hpp'

# -- R-iter: `for(auto a = backend::row_begin(A, i); a; ++a ...)` with a.col()/a.value()
#    -> index loop over A.ptr[i] .. A.ptr[i+1]; this is the definition of crs::row_begin /
#    crs::row_iterator (builtin.hpp:283-320: col+ptr[row] .. col+ptr[row+1], *m_col, *m_val).


def row_iter_rules(n_loops, n_col, n_val):
    return [
        Rule(r'for\(auto a = row_begin\(A, (\w+)\); a; \+\+a', r'for(ptrdiff_t a = A.ptr[\1]; a < A.ptr[\1 + 1]; ++a',
             n_loops, why='R-iter'),
        Rule(r'\ba\.col\(\)', 'A.col[a]', n_col, why='R-iter'),
        Rule(r'\ba\.value\(\)', 'A.val[a]', n_val, why='R-iter'),
    ]


# -- std::vector<T> v(n) / v(n, init) locals (after the generic std:: -> std_ rule)
def vector_rules(n_plain, n_init):
    return [
        Rule(r'std_vector<(\w+)> (\w+)\(([^,;()]+)\);', r'STD_VECTOR(\1, \2, \3, 0);', n_plain, why='R-vector (value-initialised)'),
        Rule(r'std_vector<(\w+)> (\w+)\(([^,;()]+), ([^,;()]+)\);', r'STD_VECTOR(\1, \2, \3, \4);', n_init, why='R-vector'),
    ]


DIRECT_PRELUDE = r'''
/* ---------------------------------------------------------------- C16 helpers */
#define CAP_N (NMAX + 1)
/* logical-bounds obligation that also stops the path: assert, then continue only in bounds.
 * Sound: an execution with an out-of-range subscript is reported at its FIRST such subscript;
 * without the stop CBMC lets the stray write corrupt every other object and each later
 * obligation fails spuriously (one mutant = ~100 violation lines).                         */
static inline ptrdiff_t cxc_idx_stop(ptrdiff_t e, size_t len)
{
#if defined(CXC_CBMC) && !defined(CXC_CANARY)
  __CPROVER_assert(e >= 0 && (size_t)e < len, "safety.idx. subscript within the logical length of the array");
  __CPROVER_assume(e >= 0 && (size_t)e < len);
#endif
  return e;
}
/* opt-in per unit (-DCXC_IDX_STOP / #define before this prelude): measured on cuthill_mckee the extra
 * assumptions make the SAT instance 6x slower (322 s vs 50 s), so those units keep the plain IDX     */
#ifdef CXC_IDX_STOP
#undef IDX
#define IDX(e, len, what) cxc_idx_stop((ptrdiff_t)(e), (size_t)(len))
#endif
/* std::vector<T> name(n, init): constant-capacity storage (a local array: content beyond the
 * logical length name_n is nondeterministic), the first name_n elements initialised as
 * std::vector does (value-initialisation = 0)                                           */
/* the capacity of vector `name` is the constant CAP_OF_<name> (defined by the unit template; a
 * vector the template does not know is a compile error = extraction break)               */
#define STD_VECTOR(T, name, n, init) \
  size_t name##_n = (size_t)(n); \
  T name[CAP_OF_##name]; \
  if (name##_n > CAP_OF_##name) g_cap_exceeded = 1; \
  for (size_t i_ = 0; i_ < CAP_OF_##name; ++i_) if (i_ < name##_n) name[i_] = (init)
/* std::fill(v.begin(), v.end(), x) */
#define STD_FILL_ALL(name, x) for (size_t i_ = 0; i_ < CAP_OF_##name; ++i_) if (i_ < name##_n) name[i_] = (x)

#ifndef PERM_T
#define PERM_T ptrdiff_t
#endif
typedef PERM_T perm_t;
/* spec: p[0..n) is a permutation of 0..n-1  <=>  every value in range and no value twice */
static _Bool perm_in_range(const perm_t *p, size_t n)
{
  for (size_t i = 0; i < CAP_N; ++i) if (i < n) { if (!(p[i] >= 0 && (size_t)p[i] < n)) return 0; }
  return 1;
}
static _Bool perm_injective(const perm_t *p, size_t n)
{
  for (size_t i = 0; i < CAP_N; ++i) for (size_t j = 0; j < i; ++j) if (i < n) { if (p[i] == p[j]) return 0; }
  return 1;
}
'''

# ------------------------------------------------------------------ solver::skyline_lu
SKY_FIELDS = ['n', 'perm', 'ptr', 'L', 'U', 'D', 'y']

# `a -= e;` -> `a = a - (e);` (same meaning for an lvalue without side effects); applied
# before the subscripts are wrapped so that the lvalue is still plain text
SUB_ASSIGN = Rule(r'^(\s*)([\w>\-]+(?:\[[^\]]*\])?) -= ([^;]+);', r'\1\2 = \2 - (\3);', '+', why='R-subassign')

SKYLINE_PRELUDE = r'''
/* ------------------------------------------------ solver::skyline_lu<V, ordering> (C view)
 * data members in declaration order (skyline_lu.hpp:211-218); std::vector members are
 * constant-capacity arrays with a logical length <name>_n                                  */
#define CAP_P ((NMAX * (NMAX - 1)) / 2 + 1)      /* profile: row/column i holds at most i cells */
typedef V rhs_type;
typedef struct skyline {
  int n;
  int perm[CAP_N]; size_t perm_n;
  int ptr[CAP_N + 1]; size_t ptr_n;
  V L[CAP_P]; size_t L_n;
  V U[CAP_P]; size_t U_n;
  V D[CAP_N]; size_t D_n;
  V y[CAP_N]; size_t y_n;          /* mutable workspace */
} skyline;
/* std::vector<V>::resize(n, v) : cells from the old size up to n := v */
#define SKY_RESIZE(self, M, n, v) do { size_t n_ = (size_t)(n); if (n_ > CAP_P) g_cap_exceeded = 1; \
  for (size_t k_ = 0; k_ < CAP_P; ++k_) if (k_ >= (self)->M##_n && k_ < n_) (self)->M[k_] = (v); \
  (self)->M##_n = n_; } while (0)

/* representation invariant = what factorize() and operator() rely on:
 *   1 <= n; vector lengths n / n+1 / ptr[n]; perm a permutation of 0..n-1; ptr[0] == 0,
 *   row/column i of the profile has between 0 and i cells                                  */
static _Bool sky_wf(const skyline *s)
{
  if (!(s->n >= 1 && s->n <= NMAX)) return 0;
  size_t n = (size_t)s->n;
  if (!(s->perm_n == n && s->ptr_n == n + 1 && s->D_n == n && s->y_n == n)) return 0;
  if (!(perm_in_range(s->perm, n) && perm_injective(s->perm, n))) return 0;
  if (s->ptr[0] != 0) return 0;
  for (size_t i = 0; i < NMAX; ++i) if (i < n) {
    if (!(s->ptr[i] <= s->ptr[i + 1] && s->ptr[i + 1] - s->ptr[i] <= (int)i)) return 0;
  }
  if (!(s->ptr[n] >= 0 && s->L_n == (size_t)s->ptr[n] && s->U_n == (size_t)s->ptr[n])) return 0;
  return 1;
}
/* structure (n, perm, ptr, vector lengths) of two objects identical */
static _Bool sky_same_structure(const skyline *a, const skyline *b)
{
  if (!(a->n == b->n && a->perm_n == b->perm_n && a->ptr_n == b->ptr_n && a->L_n == b->L_n && a->U_n == b->U_n && a->D_n == b->D_n && a->y_n == b->y_n)) return 0;
  for (size_t i = 0; i < CAP_N; ++i) if (i < a->perm_n) { if (a->perm[i] != b->perm[i]) return 0; }
  for (size_t i = 0; i < CAP_N + 1; ++i) if (i < a->ptr_n) { if (a->ptr[i] != b->ptr[i]) return 0; }
  return 1;
}
static _Bool sky_same_factors(const skyline *a, const skyline *b)
{
  for (size_t k = 0; k < CAP_P; ++k) if (k < a->L_n) { if (a->L[k] != b->L[k] || a->U[k] != b->U[k]) return 0; }
  for (size_t i = 0; i < CAP_N; ++i) if (i < a->D_n) { if (a->D[i] != b->D[i]) return 0; }
  return 1;
}
size_t w_n; int w_perm[CAP_N]; int w_ptr[CAP_N + 1];
#define MIRROR_SKY(s) do { w_n = (size_t)(s)->n; for (size_t i_ = 0; i_ < CAP_N; ++i_) w_perm[i_] = (s)->perm[i_]; \
  for (size_t i_ = 0; i_ < CAP_N + 1; ++i_) w_ptr[i_] = (s)->ptr[i_]; } while (0)
'''
