"""builtin backend vector primitives (amgcl/backend/builtin.hpp):
axpby, axpbypcz, vmul (same-type overload), copy, clear.

Value model UF: V is an opaque token, + and * are uninterpreted, so the proof
holds for every value type (float/double/long double/complex/blocks).
Universal quantification over the index is by a ghost index g_k (nondet global)."""
from cxc.extract import Cut, Rule, UF, Loop
from cxc.unit import Unit

SRC = 'amgcl/backend/builtin.hpp'
FOR = 'for(ptrdiff_t i = 0; i < static_cast<ptrdiff_t>(n); ++i)'

HDR = r'''
#define MODEL_UF 1
#include "amgcl_c.h"
int g_thrown;
/* ghost index and the values the inputs have at it */
size_t g_k; V g_xk, g_yk, g_zk;
#define NMAX 0x00ffffffffffffffUL
'''

A_ASSUME = ['A-uf: value operations are functions of their operands (uninterpreted); proof holds for every interpretation',
            'A-omp: "#pragma omp parallel for" dropped: iterations are verified sequentially; each iteration writes only its own index (visible in the loop invariant), the OpenMP runtime is trusted to run every iteration exactly once',
            'A-inst: Vec1/Vec2/Vec3 = contiguous vectors with operator[] and size() (numa_vector / std::vector / iterator_range), coefficient types are value tokens',
            'A-alias: the output vector does not overlap the inputs (is_fresh); x==y aliasing calls such as axpby(a,x,b,x) are not covered by this contract']


def loop_inv(out, new_expr, old_expr):
    return '''
__CPROVER_assigns(i, __CPROVER_object_whole(%(o)s))
__CPROVER_loop_invariant(0 <= i && i <= (ptrdiff_t)n)
__CPROVER_loop_invariant(g_k < (size_t)i ? %(o)s[g_k] == %(new)s : %(old)s)
__CPROVER_decreases((ptrdiff_t)n - i)
''' % {'o': out, 'new': new_expr, 'old': old_expr}


# ---------------------------------------------------------------- axpby
axpby = Unit(
    name='builtin_axpby', props=['C07', 'C15', 'C10'],
    functions=['backend::axpby_impl<A,Vec1,B,Vec2>::apply (builtin vectors)'],
    desc='y = a*x + b*y; b==0 overwrites (old y, even NaN, cannot influence the result)',
    cuts={'body': Cut(SRC, r'static void apply\(A a, const Vec1 &x, B b, Vec2 &y\)\s*(?=\{)',
                      rules=[Rule(r'\bx\.size\(\)', 'x_n', 1)],
                      uf=[UF(r'y\[i\] = (?P<e>[^;]+);', 2)],
                      loops=[Loop(FOR, loop_inv('y', 'e_nz', 'y[g_k] == g_yk'), nth=0),
                             Loop(FOR, loop_inv('y', 'e_z', '1'), nth=1)])},
    template=HDR + r'''
void f_axpby(V a, const V *x, size_t x_n, V b, V *y)
__CPROVER_requires(x_n <= NMAX)
__CPROVER_requires(__CPROVER_is_fresh(x, x_n * sizeof(V)))
__CPROVER_requires(__CPROVER_is_fresh(y, x_n * sizeof(V)))
__CPROVER_requires(g_k < x_n && x[g_k] == g_xk && y[g_k] == g_yk)
__CPROVER_assigns(__CPROVER_object_whole(y))
/* C07: the defining formula; with b == 0 the result term does not mention old y */
__CPROVER_ensures(math_is_zero(b) ? y[g_k] == UF_MUL(a, g_xk)
                                  : y[g_k] == UF_ADD(UF_MUL(a, g_xk), UF_MUL(b, g_yk)))
{
  const V e_z = UF_MUL(a, g_xk);
  const V e_nz = UF_ADD(UF_MUL(a, g_xk), UF_MUL(b, g_yk));
/*@CUT:body@*/
}
void h_f_axpby(void) { V a, b; const V *x; V *y; size_t n; f_axpby(a, x, n, b, y); }
''',
    enforce='f_axpby', mode='inductive', assumptions=A_ASSUME, replay='vectors',
)

# ---------------------------------------------------------------- axpbypcz
axpbypcz = Unit(
    name='builtin_axpbypcz', props=['C07', 'C15', 'C10'],
    functions=['backend::axpbypcz_impl<...>::apply (builtin vectors)'],
    desc='z = a*x + b*y + c*z; c==0 overwrites',
    cuts={'body': Cut(SRC, r'static void apply\(A a, const Vec1 &x, B b, const Vec2 &y, C c, Vec3 &z\)\s*(?=\{)',
                      rules=[Rule(r'\bx\.size\(\)', 'x_n', 1)],
                      uf=[UF(r'z\[i\] = (?P<e>[^;]+);', 2)],
                      loops=[Loop(FOR, loop_inv('z', 'e_nz', 'z[g_k] == g_zk'), nth=0),
                             Loop(FOR, loop_inv('z', 'e_z', '1'), nth=1)])},
    template=HDR + r'''
void f_axpbypcz(V a, const V *x, size_t x_n, V b, const V *y, V c, V *z)
__CPROVER_requires(x_n <= NMAX)
__CPROVER_requires(__CPROVER_is_fresh(x, x_n * sizeof(V)))
__CPROVER_requires(__CPROVER_is_fresh(y, x_n * sizeof(V)))
__CPROVER_requires(__CPROVER_is_fresh(z, x_n * sizeof(V)))
__CPROVER_requires(g_k < x_n && x[g_k] == g_xk && y[g_k] == g_yk && z[g_k] == g_zk)
__CPROVER_assigns(__CPROVER_object_whole(z))
__CPROVER_ensures(math_is_zero(c)
    ? z[g_k] == UF_ADD(UF_MUL(a, g_xk), UF_MUL(b, g_yk))
    : z[g_k] == UF_ADD(UF_ADD(UF_MUL(a, g_xk), UF_MUL(b, g_yk)), UF_MUL(c, g_zk)))
{
  const V e_z = UF_ADD(UF_MUL(a, g_xk), UF_MUL(b, g_yk));
  const V e_nz = UF_ADD(UF_ADD(UF_MUL(a, g_xk), UF_MUL(b, g_yk)), UF_MUL(c, g_zk));
/*@CUT:body@*/
}
void h_f_axpbypcz(void) { V a, b, c; const V *x, *y; V *z; size_t n; f_axpbypcz(a, x, n, b, y, c, z); }
''',
    enforce='f_axpbypcz', mode='inductive', assumptions=A_ASSUME, replay='vectors',
)

# ---------------------------------------------------------------- vmul (same static_rows)
vmul = Unit(
    name='builtin_vmul', props=['C07', 'C15', 'C10'],
    functions=['backend::vmul_impl<...>::apply (builtin vectors, same block size)'],
    desc='z = a*x*y + b*z (elementwise); b==0 overwrites',
    cuts={'body': Cut(SRC, r'static void apply\(Alpha a, const Vec1 &x, const Vec2 &y, Beta b, Vec3 &z\)\s*(?=\{)',
                      nth=0,
                      rules=[Rule(r'\bx\.size\(\)', 'x_n', 1)],
                      uf=[UF(r'z\[i\] = (?P<e>[^;]+);', 2)],
                      loops=[Loop(FOR, loop_inv('z', 'e_nz', 'z[g_k] == g_zk'), nth=0),
                             Loop(FOR, loop_inv('z', 'e_z', '1'), nth=1)])},
    template=HDR + r'''
void f_vmul(V a, const V *x, size_t x_n, const V *y, V b, V *z)
__CPROVER_requires(x_n <= NMAX)
__CPROVER_requires(__CPROVER_is_fresh(x, x_n * sizeof(V)))
__CPROVER_requires(__CPROVER_is_fresh(y, x_n * sizeof(V)))
__CPROVER_requires(__CPROVER_is_fresh(z, x_n * sizeof(V)))
__CPROVER_requires(g_k < x_n && x[g_k] == g_xk && y[g_k] == g_yk && z[g_k] == g_zk)
__CPROVER_assigns(__CPROVER_object_whole(z))
__CPROVER_ensures(math_is_zero(b)
    ? z[g_k] == UF_MUL(UF_MUL(a, g_xk), g_yk)
    : z[g_k] == UF_ADD(UF_MUL(UF_MUL(a, g_xk), g_yk), UF_MUL(b, g_zk)))
{
  const V e_z = UF_MUL(UF_MUL(a, g_xk), g_yk);
  const V e_nz = UF_ADD(UF_MUL(UF_MUL(a, g_xk), g_yk), UF_MUL(b, g_zk));
/*@CUT:body@*/
}
void h_f_vmul(void) { V a, b; const V *x, *y; V *z; size_t n; f_vmul(a, x, n, y, b, z); }
''',
    enforce='f_vmul', mode='inductive', assumptions=A_ASSUME, replay='vectors',
)

# ---------------------------------------------------------------- copy
copy = Unit(
    name='builtin_copy', props=['C07', 'C15', 'C10'],
    functions=['backend::copy_impl<Vec1,Vec2>::apply (builtin vectors)'],
    desc='y = x',
    cuts={'body': Cut(SRC, r'static void apply\(const Vec1 &x, Vec2 &y\)\s*(?=\{)',
                      rules=[Rule(r'\bx\.size\(\)', 'x_n', 1)],
                      loops=[Loop(FOR, loop_inv('y', 'g_xk', '1'))])},
    template=HDR + r'''
void f_copy(const V *x, size_t x_n, V *y)
__CPROVER_requires(x_n <= NMAX)
__CPROVER_requires(__CPROVER_is_fresh(x, x_n * sizeof(V)))
__CPROVER_requires(__CPROVER_is_fresh(y, x_n * sizeof(V)))
__CPROVER_requires(g_k < x_n && x[g_k] == g_xk)
__CPROVER_assigns(__CPROVER_object_whole(y))
__CPROVER_ensures(y[g_k] == g_xk)
{
/*@CUT:body@*/
}
void h_f_copy(void) { const V *x; V *y; size_t n; f_copy(x, n, y); }
''',
    enforce='f_copy', mode='inductive', assumptions=A_ASSUME, replay='vectors',
)

# ---------------------------------------------------------------- clear
clear = Unit(
    name='builtin_clear', props=['C07', 'C15', 'C10'],
    functions=['backend::clear_impl<Vec>::apply (builtin vectors)'],
    desc='x = 0',
    cuts={'body': Cut(SRC, r'static void apply\(Vec &x\)\s*(?=\{)',
                      rules=[Rule(r'\bx\.size\(\)', 'x_n', 1),
                             Rule(r'^\s*typedef typename backend::value_type<Vec>::type V;\n', '', 1,
                                  why='V is bound by the value model', early=True)],
                      loops=[Loop(FOR, loop_inv('x', 'e_z', '1'))])},
    template=HDR + r'''
void f_clear(V *x, size_t x_n)
__CPROVER_requires(x_n <= NMAX)
__CPROVER_requires(__CPROVER_is_fresh(x, x_n * sizeof(V)))
__CPROVER_requires(g_k < x_n)
__CPROVER_assigns(__CPROVER_object_whole(x))
__CPROVER_ensures(x[g_k] == MATH_zero(V))
{
  const V e_z = MATH_zero(V);
/*@CUT:body@*/
}
void h_f_clear(void) { V *x; size_t n; f_clear(x, n); }
''',
    enforce='f_clear', mode='inductive', assumptions=A_ASSUME, replay='vectors',
)

UNITS = [axpby, axpbypcz, vmul, copy, clear]

# ============================================================================================
# spmv / residual for matrices with a row iterator (amgcl/backend/detail/matrix_ops.hpp), crs<V>
# ============================================================================================
MOPS = 'amgcl/backend/detail/matrix_ops.hpp'
# rule R-iter: the row_iterator loop is the index loop over ptr[i]..ptr[i+1] (that this is what crs::row_iterator
# does is the loop-free unit crs_row_iterator below)
R_ITER = [
    Rule(r'for\(typename row_iterator<Matrix>::type a = row_begin\(A, ([^;)]+)\); a; \+\+a\)',
         r'for(ptrdiff_t a = A_ptr[\1]; a < A_ptr[(\1) + 1]; ++a)', '+', why='R-iter row_iterator -> index loop', early=True),
    Rule(r'\ba\.value\(\)', 'A_val[a]', '+', why='R-iter'),
    Rule(r'\ba\.col\(\)', 'A_col[a]', '+', why='R-iter'),
    # the accumulator type V: its VALUES are bound by the value model; WHICH type it is (the precision of the row sum in a
    # mixed-precision instantiation) is recorded as a precision rank in the ghost g_acc_tt and judged by the contract
    Rule(r'^(\s*)typedef typename value_type<(\w+)>::type V;\n', r'\1g_acc_tt = TT_\2;\n', None, why='V = value type of <arg>: values by the value model, precision rank recorded', early=True),
    Rule(r'^(\s*)typedef typename math::rhs_of<\s*typename value_type<(\w+)>::type\s*>::type V;\n', r'\1g_acc_tt = TT_\2;\n', None,
         why='V = rhs_of<value type of <arg>>: same scalar precision as <arg>', early=True),
    Rule(r'rows\(A\)', 'A_nrows', 1, why='rows_impl<crs>::get = A.nrows'),
    Rule(r'sum \+= (?P<e>[^;]+);', r'sum = UFE(sum + \g<e>);', '+', why='compound assignment spelled out'),
]
MO_HDR = HDR + r'''
/* ghost: the watched row g_k and the FOLD of that row, defined by recurrence:
 *   g_fold[p] = zero for p = ptr[g_k],  g_fold[j+1] = g_fold[j] + val[j] * x[col[j]]
 * g_fold is a ghost input (never assigned); the recurrence is a universally quantified precondition over
 * read-only arrays and is instantiated at the one place it is used (FOLD_STEP in the inner loop body).  It is
 * a definition (exists for every val, col, x), hence cannot make the precondition unsatisfiable.           */
const V *g_fold;
#define UFE(e) (e)
/* precision ranks of the template arguments of a (possibly mixed-precision) instantiation: arbitrary, fixed (ghost inputs,
 * never assigned); g_acc_tt is the rank of the type the row sum is accumulated in */
int TT_Matrix, TT_Vector1, TT_Vector2, TT_Vector3, TT_Alpha, TT_Beta;
int g_acc_tt;
#define ZMAX 0x000fffffffffffffL
#define FOLD_STEP(j) __CPROVER_assume(g_fold[(j) + 1] == UF_ADD(g_fold[j], UF_MUL(A_val[j], x[A_col[j]])))
#define COL_OK(j) __CPROVER_assume(A_col[j] >= 0 && A_col[j] < (ptrdiff_t)x_n)
#define ROW_OK(i) __CPROVER_assume(0 <= A_ptr[i] && A_ptr[i] <= A_ptr[(i) + 1] && A_ptr[(i) + 1] <= nnz)
'''
A_MOPS = A_ASSUME + [
    'A-wf: crs well-formedness (ptr monotone within [0,nnz], columns in range) and the recurrence defining the ghost row fold are universally quantified preconditions over read-only arrays; they are instantiated pointwise where the arrays are read (ROW_OK, COL_OK, FOLD_STEP) -- sound because the arrays are not in the assigns clause',
    'A-iter: the row_iterator loop is rewritten to the index loop over ptr[i]..ptr[i+1] (rule R-iter); that crs::row_iterator is exactly that is the loop-free unit crs_row_iterator',
]


def mo_outer(out, e_new, e_old):
    return '''
__CPROVER_assigns(i, __CPROVER_object_whole(%(o)s))
__CPROVER_loop_invariant(0 <= i && i <= n)
__CPROVER_loop_invariant(g_k < (size_t)i ? %(o)s[g_k] == %(new)s : %(old)s)
__CPROVER_decreases(n - i)
''' % {'o': out, 'new': e_new, 'old': e_old}


MO_INNER = '''
__CPROVER_assigns(a, sum)
__CPROVER_loop_invariant(A_ptr[i] <= a && a <= A_ptr[(i) + 1] && A_ptr[(i) + 1] <= nnz && 0 <= A_ptr[i])
__CPROVER_loop_invariant((size_t)i == g_k ==> sum == g_fold[a])
__CPROVER_decreases(A_ptr[i + 1] - a)
'''
# instantiate the preconditions where the arrays are read
R_INST = [
    Rule(r'(V sum = MATH_zero\(V\);)', r'\1 ROW_OK(i);', '+', why='pointwise instantiation of crs_wf at the row read'),
    Rule(r'(for\(ptrdiff_t a = A_ptr\[[^;]+; a < A_ptr\[[^;]+; \+\+a\)\s*(?:/\*@LOOP\d+@\*/)?\s*)(sum = [^;]+;)', r'\1{ COL_OK(a); FOLD_STEP(a); \2 }', '+',
         why='pointwise instantiation of crs_wf (column range) and of the fold recurrence at the entry read'),
]

spmv = Unit(
    name='builtin_spmv', props=['C07', 'C15', 'C10', 'C13'],
    functions=['backend::spmv_impl<Alpha, crs, Vec1, Beta, Vec2>::apply (matrix_ops.hpp, same block size)'],
    desc='y = alpha A x + beta y, row by row: y[k] == alpha * fold_k + beta * y0[k] (beta == 0: old y not read), fold_k = sum of a_kj * x_j in row order; the row sum is accumulated in a type of at least the precision of y (mixed precision)',
    cuts={'body': Cut(MOPS, r'static void apply\(\s*Alpha alpha, const Matrix &A, const Vector1 &x, Beta beta, Vector2 &y\s*\)\s*(?=\{)', nth=0,
                      rules=R_ITER + R_INST,
                      uf=[UF(r'y\[i\] = (?P<e>[^;]+);', '+'), UF(r'UFE\((?P<e>[^()]*(?:\([^()]*\)[^()]*)*)\)', '+')],
                      loops=[Loop(r'for\(ptrdiff_t i = 0;', mo_outer('y', 'e_nz', 'y[g_k] == g_yk'), nth=0, prefix=True),
                             Loop(r'for\(typename row_iterator', MO_INNER, nth=0, prefix=True),
                             Loop(r'for\(ptrdiff_t i = 0;', mo_outer('y', 'e_z', '1'), nth=1, prefix=True, optional=True),
                             Loop(r'for\(typename row_iterator', MO_INNER, nth=1, prefix=True, optional=True)])},
    template=MO_HDR + r'''
void f_spmv(V alpha, size_t A_nrows, ptrdiff_t nnz, const ptrdiff_t *A_ptr, const ptrdiff_t *A_col, const V *A_val,
            const V *x, size_t x_n, V beta, V *y)
__CPROVER_requires(A_nrows <= NMAX && x_n <= NMAX && 0 <= nnz && nnz <= ZMAX)
__CPROVER_requires(__CPROVER_is_fresh(A_ptr, (A_nrows + 1) * sizeof(ptrdiff_t)) && __CPROVER_is_fresh(A_col, nnz * sizeof(ptrdiff_t)) && __CPROVER_is_fresh(A_val, nnz * sizeof(V)))
__CPROVER_requires(__CPROVER_is_fresh(x, x_n * sizeof(V)) && __CPROVER_is_fresh(y, A_nrows * sizeof(V)) && __CPROVER_is_fresh(g_fold, (nnz + 1) * sizeof(V)))
__CPROVER_requires(g_k < A_nrows && y[g_k] == g_yk)
/* watched row: well-formed, and the fold starts from zero at the row start */
__CPROVER_requires(0 <= A_ptr[g_k] && A_ptr[g_k] <= A_ptr[g_k + 1] && A_ptr[g_k + 1] <= nnz && g_fold[A_ptr[g_k]] == MATH_zero(V))
__CPROVER_assigns(__CPROVER_object_whole(y), g_acc_tt)
/* the defining formula is evaluated in the value type of the vectors: with a lower-precision matrix (single-precision
 * preconditioner under a double-precision solver) the row sum must not be rounded to the matrix's precision */
__CPROVER_ensures(g_acc_tt >= TT_Vector2)
__CPROVER_ensures(math_is_zero(beta) ? y[g_k] == UF_MUL(alpha, g_fold[A_ptr[g_k + 1]])
                                     : y[g_k] == UF_ADD(UF_MUL(alpha, g_fold[A_ptr[g_k + 1]]), UF_MUL(beta, g_yk)))
{
  const V e_z = UF_MUL(alpha, g_fold[A_ptr[g_k + 1]]);
  const V e_nz = UF_ADD(UF_MUL(alpha, g_fold[A_ptr[g_k + 1]]), UF_MUL(beta, g_yk));
/*@CUT:body@*/
}
void h_f_spmv(void) { V al, be; size_t n, xn; ptrdiff_t nnz; const ptrdiff_t *p, *c; const V *v, *x; V *y; f_spmv(al, n, nnz, p, c, v, x, xn, be, y); }
''',
    enforce='f_spmv', mode='inductive', assumptions=A_MOPS, timeout=300, replay='vectors',
)

residual = Unit(
    name='builtin_residual', props=['C07', 'C15', 'C10', 'C13'],
    functions=['backend::residual_impl<crs, Vec1, Vec2, Vec3>::apply (matrix_ops.hpp, same block size)'],
    desc='res = rhs - A x, row by row: res[k] == rhs[k] - fold_k; the row sum is accumulated in a type of at least the precision of the result vector (mixed precision)',
    cuts={'body': Cut(MOPS, r'static void apply\(\s*Vector1 const &rhs,\s*Matrix  const &A,\s*Vector2 const &x,\s*Vector3       &res\s*\)\s*(?=\{)',
                      rules=R_ITER + R_INST,
                      uf=[UF(r'res\[i\] = (?P<e>[^;]+);', 1), UF(r'UFE\((?P<e>[^()]*(?:\([^()]*\)[^()]*)*)\)', 1)],
                      loops=[Loop(r'for\(ptrdiff_t i = 0;', mo_outer('res', 'e_r', '1'), prefix=True),
                             Loop(r'for\(typename row_iterator', MO_INNER, prefix=True)])},
    template=MO_HDR + r'''
V g_fk;
void f_residual(const V *rhs, size_t A_nrows, ptrdiff_t nnz, const ptrdiff_t *A_ptr, const ptrdiff_t *A_col, const V *A_val,
                const V *x, size_t x_n, V *res)
__CPROVER_requires(A_nrows <= NMAX && x_n <= NMAX && 0 <= nnz && nnz <= ZMAX)
__CPROVER_requires(__CPROVER_is_fresh(A_ptr, (A_nrows + 1) * sizeof(ptrdiff_t)) && __CPROVER_is_fresh(A_col, nnz * sizeof(ptrdiff_t)) && __CPROVER_is_fresh(A_val, nnz * sizeof(V)))
__CPROVER_requires(__CPROVER_is_fresh(x, x_n * sizeof(V)) && __CPROVER_is_fresh(rhs, A_nrows * sizeof(V)) && __CPROVER_is_fresh(res, A_nrows * sizeof(V)) && __CPROVER_is_fresh(g_fold, (nnz + 1) * sizeof(V)))
__CPROVER_requires(g_k < A_nrows && rhs[g_k] == g_fk)
__CPROVER_requires(0 <= A_ptr[g_k] && A_ptr[g_k] <= A_ptr[g_k + 1] && A_ptr[g_k + 1] <= nnz && g_fold[A_ptr[g_k]] == MATH_zero(V))
__CPROVER_assigns(__CPROVER_object_whole(res), g_acc_tt)
__CPROVER_ensures(g_acc_tt >= TT_Vector3)   /* row sum accumulated at (at least) the precision of the result vector */
__CPROVER_ensures(res[g_k] == UF_SUB(g_fk, g_fold[A_ptr[g_k + 1]]))
{
  const V e_r = UF_SUB(g_fk, g_fold[A_ptr[g_k + 1]]);
/*@CUT:body@*/
}
void h_f_residual(void) { size_t n, xn; ptrdiff_t nnz; const ptrdiff_t *p, *c; const V *v, *x, *f; V *r; f_residual(f, n, nnz, p, c, v, x, xn, r); }
''',
    enforce='f_residual', mode='inductive', assumptions=A_MOPS, timeout=300, replay='vectors',
)

UNITS += [spmv, residual]

# ---------------------------------------------------------------- inner_product (serial, Kahan compensated)
IP_LOOP = '''
__CPROVER_assigns(i, s, c)
__CPROVER_loop_invariant(0 <= i && i <= (ptrdiff_t)n && s == g_s[i] && c == g_c[i])
__CPROVER_decreases((ptrdiff_t)n - i)
'''
inner_product = Unit(
    name='builtin_inner_product_serial', props=['C07', 'C15', 'C10'],
    functions=['backend::inner_product_impl<Vec1,Vec2>::serial (builtin vectors)'],
    desc='serial inner product: the Kahan-compensated recurrence over math::inner_product(x[i], y[i]) with x as FIRST and y as SECOND operand (the order carries conjugate-linearity in the second argument); empty frame; zero for n == 0',
    cuts={'body': Cut(SRC, r'static return_type serial\(const Vec1 &x, const Vec2 &y\)\s*(?=\{)',
                      rules=[Rule(r'\bx\.size\(\)', 'x_n', 1),
                             Rule(r'\breturn_type\b', 'V', '+', why='return_type is a value token'),
                             Rule(r'(V d = )', r'KAHAN_STEP(i); \1', 1,
                                  why='pointwise instantiation of the recurrence that defines the ghost sequences')],
                      uf=[UF(r'V [dt] = (?P<e>[^;]+);', 2), UF(r'\bc = (?P<e>[^;]+);', 2)],
                      loops=[Loop(r'for\(ptrdiff_t i = 0;', IP_LOOP, prefix=True)])},
    template=HDR + r'''
/* ghost inputs: the Kahan sequences, defined by recurrence (a definition: exists for all x, y)
 *   s_0 = c_0 = zero;  d_i = <x_i, y_i> - c_i;  s_{i+1} = s_i + d_i;  c_{i+1} = (s_{i+1} - s_i) - d_i     */
const V *g_s, *g_c;
#define KAHAN_D(i) UF_SUB(math_inner_product(x[i], y[i]), g_c[i])
#define KAHAN_STEP(i) __CPROVER_assume(g_s[(i) + 1] == UF_ADD(g_s[i], KAHAN_D(i)) && g_c[(i) + 1] == UF_SUB(UF_SUB(g_s[(i) + 1], g_s[i]), KAHAN_D(i)))
V f_inner_serial(const V *x, size_t x_n, const V *y)
__CPROVER_requires(x_n <= NMAX / 16)
__CPROVER_requires(__CPROVER_is_fresh(x, x_n * sizeof(V)) && __CPROVER_is_fresh(y, x_n * sizeof(V)))
__CPROVER_requires(__CPROVER_is_fresh(g_s, (x_n + 1) * sizeof(V)) && __CPROVER_is_fresh(g_c, (x_n + 1) * sizeof(V)))
__CPROVER_requires(g_s[0] == MATH_zero(V) && g_c[0] == MATH_zero(V))
__CPROVER_assigns()
__CPROVER_ensures(__CPROVER_return_value == g_s[x_n])
{
/*@CUT:body@*/
}
void h_f_inner_serial(void) { const V *x, *y; size_t n; f_inner_serial(x, n, y); }
''',
    enforce='f_inner_serial', mode='inductive', timeout=300, replay='vectors',
    assumptions=A_ASSUME + ['A-def: the ghost Kahan sequences are defined by recurrence and the recurrence is instantiated at the iteration that uses it (KAHAN_STEP)'],
    not_decided=['the parallel (per-thread) variant and std::accumulate of the partial sums', 'that the compensated sum is close to the exact sum (floating point)'],
)
UNITS += [inner_product]

# ---------------------------------------------------------------- inner_product, parallel: the body each thread executes
IPP_LOOP = '''
__CPROVER_assigns(i, s, c)
__CPROVER_loop_invariant(lo <= i && i <= hi && s == g_s[i] && c == g_c[i])
__CPROVER_decreases(hi - i)
'''
inner_product_par = Unit(
    name='builtin_inner_product_parallel_region', props=['C07', 'C09', 'C15', 'C10'],
    functions=['backend::inner_product_impl<Vec1,Vec2>::parallel -- the omp parallel region (per-thread body)'],
    desc='per-thread body of the parallel inner product: for an arbitrary thread id and an arbitrary chunk [lo,hi) of the iteration space, sum[tid] is the Kahan recurrence over math::inner_product(x[i], y[i]) (x first, y second) on that chunk; only sum[tid] is written',
    cuts={'body': Cut(SRC, r'const int tid = omp_get_thread_num\(\);', kind='region', end=r'sum\[tid\] = s;', end_inclusive=True,
                      rules=[Rule(r'omp_get_thread_num\(\)', 'tid_in', 1, why='R-omp thread id is a parameter'),
                             Rule(r'\breturn_type\b', 'V', '+', why='return_type is a value token'),
                             Rule(r'for\(ptrdiff_t i = 0; i < \(\(ptrdiff_t\)\(n\)\); \+\+i\)', 'for(ptrdiff_t i = lo; i < hi; ++i)', 1,
                                  why='R-omp-for: "#pragma omp for" gives the thread a chunk [lo,hi) of [0,n)'),
                             Rule(r'(V d = )', r'KAHAN_STEP(i); \1', 1, why='pointwise instantiation of the recurrence that defines the ghost sequences')],
                      uf=[UF(r'V [dt] = (?P<e>[^;]+);', 2), UF(r'\bc = (?P<e>[^;]+);', 2)],
                      loops=[Loop(r'for\(ptrdiff_t i = 0;', IPP_LOOP, prefix=True)])},
    template=HDR + r'''
const V *g_s, *g_c;
#define KAHAN_D(i) UF_SUB(math_inner_product(x[i], y[i]), g_c[i])
#define KAHAN_STEP(i) __CPROVER_assume(g_s[(i) + 1] == UF_ADD(g_s[i], KAHAN_D(i)) && g_c[(i) + 1] == UF_SUB(UF_SUB(g_s[(i) + 1], g_s[i]), KAHAN_D(i)))
int g_other; V g_other_val;   /* ghost: some other thread's slot and its content */
void f_inner_region(const V *x, size_t n, const V *y, V *sum, int nt, int tid_in, ptrdiff_t lo, ptrdiff_t hi)
__CPROVER_requires(n <= NMAX / 16 && 0 <= lo && lo <= hi && hi <= (ptrdiff_t)n && 0 <= tid_in && tid_in < nt && nt <= 1024)
__CPROVER_requires(__CPROVER_is_fresh(x, n * sizeof(V)) && __CPROVER_is_fresh(y, n * sizeof(V)) && __CPROVER_is_fresh(sum, nt * sizeof(V)))
__CPROVER_requires(__CPROVER_is_fresh(g_s, (n + 1) * sizeof(V)) && __CPROVER_is_fresh(g_c, (n + 1) * sizeof(V)))
__CPROVER_requires(g_s[lo] == MATH_zero(V) && g_c[lo] == MATH_zero(V))
__CPROVER_requires(0 <= g_other && g_other < nt && g_other != tid_in && sum[g_other] == g_other_val)
__CPROVER_assigns(__CPROVER_object_whole(sum))
__CPROVER_ensures(sum[tid_in] == g_s[hi])
/* C09: a thread touches no other thread's partial sum */
__CPROVER_ensures(sum[g_other] == g_other_val)
{
/*@CUT:body@*/
}
void h_f_inner_region(void) { const V *x, *y; V *sum; size_t n; int nt, tid; ptrdiff_t lo, hi; f_inner_region(x, n, y, sum, nt, tid, lo, hi); }
''',
    enforce='f_inner_region', mode='inductive', timeout=300, replay='vectors',
    assumptions=A_ASSUME + ['A-omp-for: the OpenMP runtime gives each thread id in [0,nt) a chunk of the iteration space, the chunks partition [0,n), and the region runs once per thread id',
                            'A-def: the ghost Kahan sequences are defined by recurrence, instantiated at the iteration that uses them'],
    not_decided=['initialisation of the partial sums and std::accumulate over them (serial prologue / epilogue of parallel())'],
)
UNITS += [inner_product_par]

# ---------------------------------------------------------------- crs::row_iterator (justifies rule R-iter)
ROWIT_T = HDR + r'''
typedef struct row_it { const ptrdiff_t *m_col; const ptrdiff_t *m_end; const V *m_val; } row_it;
/* crs<V>::row_begin(row): (col + ptr[row], col + ptr[row+1], val + ptr[row]) */
row_it f_row_begin(const ptrdiff_t *ptr, const ptrdiff_t *col, const V *val, size_t nrows, ptrdiff_t nnz, size_t row)
__CPROVER_requires(nrows <= NMAX && 0 <= nnz && nnz <= (ptrdiff_t)(NMAX / 16) && row < nrows)
__CPROVER_requires(__CPROVER_is_fresh(ptr, (nrows + 1) * sizeof(ptrdiff_t)) && __CPROVER_is_fresh(col, nnz * sizeof(ptrdiff_t)) && __CPROVER_is_fresh(val, nnz * sizeof(V)))
__CPROVER_requires(0 <= ptr[row] && ptr[row] <= ptr[row + 1] && ptr[row + 1] <= nnz)
__CPROVER_assigns()
__CPROVER_ensures(__CPROVER_return_value.m_col == col + ptr[row] && __CPROVER_return_value.m_end == col + ptr[row + 1] && __CPROVER_return_value.m_val == val + ptr[row])
{
#define row_iterator(a, b, c) ((row_it){a, b, c})
/*@CUT:row_begin@*/
}
/* operator bool: m_col < m_end */
_Bool f_it_valid(const row_it *self, const ptrdiff_t *base, size_t n, size_t a, size_t b)
__CPROVER_requires(__CPROVER_is_fresh(self, sizeof(*self)) && n <= NMAX / 16 && __CPROVER_is_fresh(base, n * sizeof(ptrdiff_t)))
/* both cursors point into (or one past) the column array of the matrix */
__CPROVER_requires(a <= n && b <= n && self->m_col == base + a && self->m_end == base + b)
__CPROVER_assigns()
__CPROVER_ensures(__CPROVER_return_value == (self->m_col < self->m_end))
{
/*@CUT:valid@*/
}
/* operator++: both cursors advance by one */
void f_it_next(row_it *self)
__CPROVER_requires(__CPROVER_is_fresh(self, sizeof(*self)))
__CPROVER_assigns(self->m_col, self->m_val)
__CPROVER_ensures(self->m_col == __CPROVER_old(self->m_col) + 1 && self->m_val == __CPROVER_old(self->m_val) + 1 && self->m_end == __CPROVER_old(self->m_end))
{
/*@CUT:next@*/
}
void h_f_row_begin(void) { const ptrdiff_t *p, *c; const V *v; size_t n, r; ptrdiff_t z; f_row_begin(p, c, v, n, z, r); }
void h_f_it_valid(void) { row_it *it; const ptrdiff_t *base; size_t n, a, b; f_it_valid(it, base, n, a, b); }
void h_f_it_next(void) { row_it *it; f_it_next(it); }
'''
MEMBER = [Rule(r'(?<![\w.>])(m_col|m_end|m_val)\b', r'self->\1', None, why='R-member')]


def _rowit(name, enforce, what):
    return Unit(
        name=name, props=['C07', 'C08', 'C17', 'C10'],
        functions=['backend::crs<V,C,P>::' + what],
        desc='crs::row_iterator is the index walk over ptr[row]..ptr[row+1] (justifies rule R-iter used by the mat-vec / diagonal / scaling units)',
        cuts={'row_begin': Cut(SRC, r'row_iterator row_begin\(size_t row\) const\s*(?=\{)',
                               rules=[Rule(r'\bptr_type\b', 'ptrdiff_t', None, why='instantiation')]),
              'valid': Cut(SRC, r'operator bool\(\) const\s*(?=\{)', nth=0, rules=MEMBER),
              'next': Cut(SRC, r'row_iterator& operator\+\+\(\)\s*(?=\{)', nth=0,
                          rules=MEMBER + [Rule(r'return \*this;', 'return;', 1, why='reference return dropped')])},
        template=ROWIT_T, enforce=enforce, mode='loopfree', timeout=120, cover=False,
        assumptions=['A-inst: index types ptrdiff_t'],
    )


UNITS += [_rowit('crs_row_begin', 'f_row_begin', 'row_begin(row)'),
          _rowit('crs_row_iterator_valid', 'f_it_valid', 'row_iterator::operator bool'),
          _rowit('crs_row_iterator_next', 'f_it_next', 'row_iterator::operator++')]
