"""builtin backend vector primitives (amgcl/backend/builtin.hpp):
axpby, axpbypcz, vmul (same-type overload), copy, clear.

Value model UF: V is an opaque token, + and * are uninterpreted, so the proof
holds for every value type (float/double/long double/complex/blocks).
Universal quantification over the index is by a ghost index g_k (nondet global)."""
from cxc.extract import Cut, Rule, UF, Loop
from cxc.unit import Unit

SRC = 'amgcl/backend/builtin.hpp'
FOR = 'for(ptrdiff_t i = 0; i < static_cast<ptrdiff_t>(n); ++i)'

HDR = r'''
#define MODEL_UF 1
#include "amgcl_c.h"
int g_thrown;
/* ghost index and the values the inputs have at it */
size_t g_k; V g_xk, g_yk, g_zk;
#define NMAX 0x00ffffffffffffffUL
'''

A_ASSUME = ['A-uf: value operations are functions of their operands (uninterpreted); proof holds for every interpretation',
            'A-omp: "#pragma omp parallel for" dropped: iterations are verified sequentially; each iteration writes only its own index (visible in the loop invariant), the OpenMP runtime is trusted to run every iteration exactly once',
            'A-inst: Vec1/Vec2/Vec3 = contiguous vectors with operator[] and size() (numa_vector / std::vector / iterator_range), coefficient types are value tokens',
            'A-alias: the output vector does not overlap the inputs (is_fresh); x==y aliasing calls such as axpby(a,x,b,x) are not covered by this contract']


def loop_inv(out, new_expr, old_expr):
    return '''
__CPROVER_assigns(i, __CPROVER_object_whole(%(o)s))
__CPROVER_loop_invariant(0 <= i && i <= (ptrdiff_t)n)
__CPROVER_loop_invariant(g_k < (size_t)i ? %(o)s[g_k] == %(new)s : %(old)s)
__CPROVER_decreases((ptrdiff_t)n - i)
''' % {'o': out, 'new': new_expr, 'old': old_expr}


# ---------------------------------------------------------------- axpby
axpby = Unit(
    name='builtin_axpby', props=['C07', 'C10'],
    functions=['backend::axpby_impl<A,Vec1,B,Vec2>::apply (builtin vectors)'],
    desc='y = a*x + b*y; b==0 overwrites (old y, even NaN, cannot influence the result)',
    cuts={'body': Cut(SRC, r'static void apply\(A a, const Vec1 &x, B b, Vec2 &y\)\s*(?=\{)',
                      rules=[Rule(r'\bx\.size\(\)', 'x_n', 1)],
                      uf=[UF(r'y\[i\] = (?P<e>[^;]+);', 2)],
                      loops=[Loop(FOR, loop_inv('y', 'e_nz', 'y[g_k] == g_yk'), nth=0),
                             Loop(FOR, loop_inv('y', 'e_z', '1'), nth=1)])},
    template=HDR + r'''
void f_axpby(V a, const V *x, size_t x_n, V b, V *y)
__CPROVER_requires(x_n <= NMAX)
__CPROVER_requires(__CPROVER_is_fresh(x, x_n * sizeof(V)))
__CPROVER_requires(__CPROVER_is_fresh(y, x_n * sizeof(V)))
__CPROVER_requires(g_k < x_n && x[g_k] == g_xk && y[g_k] == g_yk)
__CPROVER_assigns(__CPROVER_object_whole(y))
/* C07: the defining formula; with b == 0 the result term does not mention old y */
__CPROVER_ensures(math_is_zero(b) ? y[g_k] == UF_MUL(a, g_xk)
                                  : y[g_k] == UF_ADD(UF_MUL(a, g_xk), UF_MUL(b, g_yk)))
{
  const V e_z = UF_MUL(a, g_xk);
  const V e_nz = UF_ADD(UF_MUL(a, g_xk), UF_MUL(b, g_yk));
/*@CUT:body@*/
}
void h_f_axpby(void) { V a, b; const V *x; V *y; size_t n; f_axpby(a, x, n, b, y); }
''',
    enforce='f_axpby', mode='inductive', assumptions=A_ASSUME, replay='vectors',
)

# ---------------------------------------------------------------- axpbypcz
axpbypcz = Unit(
    name='builtin_axpbypcz', props=['C07', 'C10'],
    functions=['backend::axpbypcz_impl<...>::apply (builtin vectors)'],
    desc='z = a*x + b*y + c*z; c==0 overwrites',
    cuts={'body': Cut(SRC, r'static void apply\(A a, const Vec1 &x, B b, const Vec2 &y, C c, Vec3 &z\)\s*(?=\{)',
                      rules=[Rule(r'\bx\.size\(\)', 'x_n', 1)],
                      uf=[UF(r'z\[i\] = (?P<e>[^;]+);', 2)],
                      loops=[Loop(FOR, loop_inv('z', 'e_nz', 'z[g_k] == g_zk'), nth=0),
                             Loop(FOR, loop_inv('z', 'e_z', '1'), nth=1)])},
    template=HDR + r'''
void f_axpbypcz(V a, const V *x, size_t x_n, V b, const V *y, V c, V *z)
__CPROVER_requires(x_n <= NMAX)
__CPROVER_requires(__CPROVER_is_fresh(x, x_n * sizeof(V)))
__CPROVER_requires(__CPROVER_is_fresh(y, x_n * sizeof(V)))
__CPROVER_requires(__CPROVER_is_fresh(z, x_n * sizeof(V)))
__CPROVER_requires(g_k < x_n && x[g_k] == g_xk && y[g_k] == g_yk && z[g_k] == g_zk)
__CPROVER_assigns(__CPROVER_object_whole(z))
__CPROVER_ensures(math_is_zero(c)
    ? z[g_k] == UF_ADD(UF_MUL(a, g_xk), UF_MUL(b, g_yk))
    : z[g_k] == UF_ADD(UF_ADD(UF_MUL(a, g_xk), UF_MUL(b, g_yk)), UF_MUL(c, g_zk)))
{
  const V e_z = UF_ADD(UF_MUL(a, g_xk), UF_MUL(b, g_yk));
  const V e_nz = UF_ADD(UF_ADD(UF_MUL(a, g_xk), UF_MUL(b, g_yk)), UF_MUL(c, g_zk));
/*@CUT:body@*/
}
void h_f_axpbypcz(void) { V a, b, c; const V *x, *y; V *z; size_t n; f_axpbypcz(a, x, n, b, y, c, z); }
''',
    enforce='f_axpbypcz', mode='inductive', assumptions=A_ASSUME, replay='vectors',
)

# ---------------------------------------------------------------- vmul (same static_rows)
vmul = Unit(
    name='builtin_vmul', props=['C07', 'C10'],
    functions=['backend::vmul_impl<...>::apply (builtin vectors, same block size)'],
    desc='z = a*x*y + b*z (elementwise); b==0 overwrites',
    cuts={'body': Cut(SRC, r'static void apply\(Alpha a, const Vec1 &x, const Vec2 &y, Beta b, Vec3 &z\)\s*(?=\{)',
                      nth=0,
                      rules=[Rule(r'\bx\.size\(\)', 'x_n', 1)],
                      uf=[UF(r'z\[i\] = (?P<e>[^;]+);', 2)],
                      loops=[Loop(FOR, loop_inv('z', 'e_nz', 'z[g_k] == g_zk'), nth=0),
                             Loop(FOR, loop_inv('z', 'e_z', '1'), nth=1)])},
    template=HDR + r'''
void f_vmul(V a, const V *x, size_t x_n, const V *y, V b, V *z)
__CPROVER_requires(x_n <= NMAX)
__CPROVER_requires(__CPROVER_is_fresh(x, x_n * sizeof(V)))
__CPROVER_requires(__CPROVER_is_fresh(y, x_n * sizeof(V)))
__CPROVER_requires(__CPROVER_is_fresh(z, x_n * sizeof(V)))
__CPROVER_requires(g_k < x_n && x[g_k] == g_xk && y[g_k] == g_yk && z[g_k] == g_zk)
__CPROVER_assigns(__CPROVER_object_whole(z))
__CPROVER_ensures(math_is_zero(b)
    ? z[g_k] == UF_MUL(UF_MUL(a, g_xk), g_yk)
    : z[g_k] == UF_ADD(UF_MUL(UF_MUL(a, g_xk), g_yk), UF_MUL(b, g_zk)))
{
  const V e_z = UF_MUL(UF_MUL(a, g_xk), g_yk);
  const V e_nz = UF_ADD(UF_MUL(UF_MUL(a, g_xk), g_yk), UF_MUL(b, g_zk));
/*@CUT:body@*/
}
void h_f_vmul(void) { V a, b; const V *x, *y; V *z; size_t n; f_vmul(a, x, n, y, b, z); }
''',
    enforce='f_vmul', mode='inductive', assumptions=A_ASSUME, replay='vectors',
)

# ---------------------------------------------------------------- copy
copy = Unit(
    name='builtin_copy', props=['C07', 'C10'],
    functions=['backend::copy_impl<Vec1,Vec2>::apply (builtin vectors)'],
    desc='y = x',
    cuts={'body': Cut(SRC, r'static void apply\(const Vec1 &x, Vec2 &y\)\s*(?=\{)',
                      rules=[Rule(r'\bx\.size\(\)', 'x_n', 1)],
                      loops=[Loop(FOR, loop_inv('y', 'g_xk', '1'))])},
    template=HDR + r'''
void f_copy(const V *x, size_t x_n, V *y)
__CPROVER_requires(x_n <= NMAX)
__CPROVER_requires(__CPROVER_is_fresh(x, x_n * sizeof(V)))
__CPROVER_requires(__CPROVER_is_fresh(y, x_n * sizeof(V)))
__CPROVER_requires(g_k < x_n && x[g_k] == g_xk)
__CPROVER_assigns(__CPROVER_object_whole(y))
__CPROVER_ensures(y[g_k] == g_xk)
{
/*@CUT:body@*/
}
void h_f_copy(void) { const V *x; V *y; size_t n; f_copy(x, n, y); }
''',
    enforce='f_copy', mode='inductive', assumptions=A_ASSUME, replay='vectors',
)

# ---------------------------------------------------------------- clear
clear = Unit(
    name='builtin_clear', props=['C07', 'C10'],
    functions=['backend::clear_impl<Vec>::apply (builtin vectors)'],
    desc='x = 0',
    cuts={'body': Cut(SRC, r'static void apply\(Vec &x\)\s*(?=\{)',
                      rules=[Rule(r'\bx\.size\(\)', 'x_n', 1),
                             Rule(r'^\s*typedef typename backend::value_type<Vec>::type V;\n', '', 1,
                                  why='V is bound by the value model', early=True)],
                      loops=[Loop(FOR, loop_inv('x', 'e_z', '1'))])},
    template=HDR + r'''
void f_clear(V *x, size_t x_n)
__CPROVER_requires(x_n <= NMAX)
__CPROVER_requires(__CPROVER_is_fresh(x, x_n * sizeof(V)))
__CPROVER_requires(g_k < x_n)
__CPROVER_assigns(__CPROVER_object_whole(x))
__CPROVER_ensures(x[g_k] == MATH_zero(V))
{
  const V e_z = MATH_zero(V);
/*@CUT:body@*/
}
void h_f_clear(void) { V *x; size_t n; f_clear(x, n); }
''',
    enforce='f_clear', mode='inductive', assumptions=A_ASSUME, replay='vectors',
)

UNITS = [axpby, axpbypcz, vmul, copy, clear]
