"""Sparse kernels of amgcl/backend/builtin.hpp and amgcl/detail/*.hpp -- bounded units
(unwound): the function contract is enforced for ALL inputs up to the stated size
(sparsity pattern and values fully symbolic).  Labelled bounded, never counted as proved."""
from cxc.extract import Cut, Rule, UF, Loop, IdxRule
from cxc.unit import Unit
from _common import (BUILTIN, BOUNDED_PRELUDE, CRS_MEMBERS_C, CALL_RULES, crs_member_cuts,
                     member_rules)

A_BOUNDED = [
    'A-bound: nothing is claimed beyond the stated size bound',
    'A-std: std::partial_sum / std::rotate / std::min / std::max are prelude stubs (3-line loops)',
    'A-new: operator new[] never returns null; fresh arrays have nondeterministic content (every prior heap content)',
    'A-own: shared_ptr lifetimes are not modelled (make_shared -> plain allocation)',
    'A-omp: OpenMP pragmas dropped; loops verified sequentially',
    'A-ring: values instantiated at a commutative ring (int32, |v|<=7): exact and summation-order independent; callee bodies crs::set_size/scan_row_sizes/set_nonzeros are inlined from /repo (not replaced by contracts) in bounded units',
]

def wit(*names):
    out = []
    for n in names:
        out += ['w_%s_nrows' % n, 'w_%s_ncols' % n, 'w_%s_ptr' % n, 'w_%s_col' % n, 'w_%s_val' % n]
    return out


SPEC_TRANSPOSE = r'''
static _Bool post_transpose_dense(const crs *A, const crs *T)
{
  for (size_t i = 0; i < NMAX; ++i) for (size_t j = 0; j < NMAX; ++j)
    if (i < T->nrows && j < T->ncols) {
      if (dense_get(T, i, j) != dense_get(A, j, i)) return 0;     /* values: T = A^T (adjoint = identity on the ring) */
      if (count_in_row(T, i, j) != count_in_row(A, j, i)) return 0; /* structure: same stored entries */
    }
  return 1;
}
'''

transpose = Unit(
    name='builtin_transpose', props=['C08', 'C10'],
    functions=['backend::transpose(const crs<V,C,P>&)', 'crs::set_size', 'crs::scan_row_sizes', 'crs::set_nonzeros'],
    desc='T = A^T (adjoint of values), well-formed CRS, rows ascending; any pattern (unsorted, duplicates, empty rows/cols)',
    cuts=dict(crs_member_cuts(), body=Cut(
        BUILTIN, r'std::shared_ptr< crs<V,C,P> > transpose\(const crs<V, C, P> &A\)\s*(?=\{)',
        rules=CALL_RULES + [
            Rule(r'auto T = std_make_shared< crs<V,C,P> >\(\);', 'crs *T = crs_new();', 1),
            IdxRule(r'T->col|T->val', 'T->nnz', 2),
            IdxRule(r'T->ptr', 'T->nrows + 1', 3),
        ])),
    template='#define MODEL_INT32 1\n' + BOUNDED_PRELUDE + CRS_MEMBERS_C + SPEC_TRANSPOSE + r'''
WITNESS_CRS(A)
/* contract (enforced by the harness below):
 *   requires crs_wf(A) && |values| <= 7
 *   assigns  nothing visible to the caller
 *   ensures  result is well-formed, dims swapped, dense(result) == dense(A)^T entry by entry,
 *            same stored entries, rows ascending                                            */
crs *f_transpose(const crs *A_p)
{
#define A (*A_p)
/*@CUT:body@*/
#undef A
}
void h_transpose(void)
{
  crs *A = crs_input();
  REQUIRES(crs_wf(A, NMAX, NMAX, ZMAX) && crs_vals_small(A, 7));
  MIRROR_CRS(A, A);
  crs_snap s; crs_snapshot(A, &s);
  crs *T = f_transpose(A);
  ENSURES(!g_cap_exceeded, "bound artefact: allocation within verification capacity");
  ENSURES(T->nrows == A->ncols && T->ncols == A->nrows, "transpose: dimensions swapped");
  ENSURES(crs_wf(T, NMAX, NMAX, ZMAX) && T->nnz == (size_t)T->ptr[T->nrows] && T->ptr[T->nrows] == A->ptr[A->nrows],
          "transpose: result is well-formed CRS (monotone ptr from 0, columns in range) with nnz(A) entries");
  ENSURES(post_transpose_dense(A, T), "transpose: dense(T) == dense(A)^T and same stored entries");
  ENSURES(crs_rows_sorted(T, 0), "transpose: rows of the result are in ascending column order");
  ENSURES(crs_unchanged(A, &s), "frame: the input matrix is not modified");
  CANARY("harness.end");
}
''',
    entry='h_transpose', mode='unwound', unwind='max(ZMAX,NMAX)+3', model='int32',
    variants=[{'NMAX': 3, 'ZMAX': 3}],
    thorough_variants=[{'NMAX': 3, 'ZMAX': 4}, {'NMAX': 4, 'ZMAX': 4}],
    bound_text='all matrices with rows,cols <= 3 and nnz <= 3 (thorough: <=3/4 and <= 4), pattern and values symbolic',
    assumptions=A_BOUNDED, replay='kernels', timeout=1500,
    witness=wit('A'),
)

UNITS = [transpose]
