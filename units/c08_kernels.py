"""Sparse kernels of amgcl/backend/builtin.hpp and amgcl/detail/*.hpp -- bounded units
(unwound): the function contract is enforced for ALL inputs up to the stated size
(sparsity pattern and values fully symbolic).  Labelled bounded, never counted as proved."""
from cxc.extract import Cut, Rule, UF, Loop, IdxRule
from cxc.unit import Unit
from _common import (BUILTIN, BOUNDED_PRELUDE, CRS_MEMBERS_C, CALL_RULES, crs_member_cuts,
                     member_rules)

A_BOUNDED = [
    'A-bound: nothing is claimed beyond the stated size bound',
    'A-std: std::partial_sum / std::rotate / std::min / std::max are prelude stubs (3-line loops)',
    'A-new: operator new[] never returns null; fresh arrays have nondeterministic content (every prior heap content)',
    'A-own: shared_ptr lifetimes are not modelled (make_shared -> plain allocation)',
    'A-omp: OpenMP pragmas dropped; loops verified sequentially',
    'A-ring: values instantiated at a commutative ring (int32, |v|<=7): exact and summation-order independent; callee bodies crs::set_size/scan_row_sizes/set_nonzeros are inlined from /repo (not replaced by contracts) in bounded units',
]

def wit(*names):
    out = []
    for n in names:
        out += ['w_%s_nrows' % n, 'w_%s_ncols' % n, 'w_%s_ptr' % n, 'w_%s_col' % n, 'w_%s_val' % n]
    return out


SPEC_TRANSPOSE = r'''
static _Bool post_transpose_dense(const crs *A, const crs *T)
{
  for (size_t i = 0; i < NMAX; ++i) for (size_t j = 0; j < NMAX; ++j)
    if (i < T->nrows && j < T->ncols) {
      if (dense_get(T, i, j) != dense_get(A, j, i)) return 0;     /* values: T = A^T (adjoint = identity on the ring) */
      if (count_in_row(T, i, j) != count_in_row(A, j, i)) return 0; /* structure: same stored entries */
    }
  return 1;
}
'''

transpose = Unit(
    name='builtin_transpose', props=['C08', 'C03', 'C10'],
    functions=['backend::transpose(const crs<V,C,P>&)', 'crs::set_size', 'crs::scan_row_sizes', 'crs::set_nonzeros'],
    desc='T = A^T (adjoint of values), well-formed CRS, rows ascending; any pattern (unsorted, duplicates, empty rows/cols)',
    cuts=dict(crs_member_cuts(), body=Cut(
        BUILTIN, r'std::shared_ptr< crs<V,C,P> > transpose\(const crs<V, C, P> &A\)\s*(?=\{)',
        rules=CALL_RULES + [
            Rule(r'auto T = std_make_shared< crs<V,C,P> >\(\);', 'crs *T = crs_new();', 1),
            IdxRule(r'T->col|T->val', 'T->nnz', 2),
            IdxRule(r'T->ptr', 'T->nrows + 1', 3),
        ])),
    template='#define MODEL_INT32 1\n' + BOUNDED_PRELUDE + CRS_MEMBERS_C + SPEC_TRANSPOSE + r'''
WITNESS_CRS(A)
/* contract (enforced by the harness below):
 *   requires crs_wf(A) && |values| <= 7
 *   assigns  nothing visible to the caller
 *   ensures  result is well-formed, dims swapped, dense(result) == dense(A)^T entry by entry,
 *            same stored entries, rows ascending                                            */
crs *f_transpose(const crs *A_p)
{
#define A (*A_p)
/*@CUT:body@*/
#undef A
}
void h_transpose(void)
{
  crs *A = crs_input();
  REQUIRES(crs_wf(A, NMAX, NMAX, ZMAX) && crs_vals_small(A, 7));
  MIRROR_CRS(A, A);
  crs_snap s; crs_snapshot(A, &s);
  crs *T = f_transpose(A);
  ENSURES(!g_cap_exceeded, "bound artefact: allocation within verification capacity");
  ENSURES(T->nrows == A->ncols && T->ncols == A->nrows, "transpose: dimensions swapped");
  ENSURES(crs_wf(T, NMAX, NMAX, ZMAX) && T->nnz == (size_t)T->ptr[T->nrows] && T->ptr[T->nrows] == A->ptr[A->nrows],
          "transpose: result is well-formed CRS (monotone ptr from 0, columns in range) with nnz(A) entries");
  ENSURES(post_transpose_dense(A, T), "transpose: dense(T) == dense(A)^T and same stored entries");
  ENSURES(crs_rows_sorted(T, 0), "transpose: rows of the result are in ascending column order");
  ENSURES(crs_unchanged(A, &s), "frame: the input matrix is not modified");
  CANARY("harness.end");
}
''',
    entry='h_transpose', mode='unwound', unwind='max(ZMAX,NMAX)+3', model='int32',
    variants=[{'NMAX': 3, 'ZMAX': 3}],
    thorough_variants=[{'NMAX': 3, 'ZMAX': 4}, {'NMAX': 4, 'ZMAX': 4}],
    bound_text='all matrices with rows,cols <= 3 and nnz <= 3 (thorough: <=3/4 and <= 4), pattern and values symbolic',
    assumptions=A_BOUNDED, replay='kernels', timeout=1500,
    witness=wit('A'),
)

# ======================================================================== sort_row
SORT_ROW_SRC = 'amgcl/detail/sort_row.hpp'
SORT_ROW_ANCHOR = r'void sort_row\(Col \*col, Val \*val, int n\)\s*(?=\{)'

SPEC_SORT_ROW = r"""
/* number of positions k < n holding the pair (c, v) */
static int pair_count(const col_type *col, const val_type *val, int n, col_type c, val_type v)
{
  int s = 0;
  for (int k = 0; k < CAP_NNZ; ++k) if (k < n && col[k] == c && val[k] == v) s++;
  return s;
}
static _Bool post_sorted(const col_type *col, int n)
{
  for (int k = 0; k + 1 < CAP_NNZ; ++k) if (k + 1 < n && !(col[k] <= col[k + 1])) return 0;
  return 1;
}
/* every input pair occurs in the output exactly as often as in the input; together with
 * equal length n this is multiset equality (no pair can be left over on either side)   */
static _Bool post_same_pairs(const col_type *c0, const val_type *v0, const col_type *c1, const val_type *v1, int n)
{
  for (int k = 0; k < CAP_NNZ; ++k) if (k < n) {
    if (pair_count(c1, v1, n, c0[k], v0[k]) != pair_count(c0, v0, n, c0[k], v0[k])) return 0;
  }
  return 1;
}
"""

sort_row = Unit(
    name='sort_row', props=['C08', 'C03', 'C17', 'C10'],
    functions=['detail::sort_row(Col*, Val*, int)'],
    desc='after the call col[0..n) is ascending and the multiset of (col,val) pairs is unchanged; cells >= n untouched',
    cuts=dict(body=Cut(SORT_ROW_SRC, SORT_ROW_ANCHOR,
                       rules=[IdxRule(r'col|val', 'n', '+')])),
    template='#define MODEL_INT32 1\n' + BOUNDED_PRELUDE + SPEC_SORT_ROW + r"""
int w_n; col_type w_col[CAP_NNZ]; val_type w_val[CAP_NNZ];
/* contract (enforced by the harness below):
 *   requires n <= NMAX, col and val have n cells (n <= 0: nothing is touched)
 *   assigns  col[0..n), val[0..n)
 *   ensures  col ascending; multiset of (col[k],val[k]) pairs unchanged             */
void f_sort_row(Col *col, Val *val, int n)
{
/*@CUT:body@*/
}
void h_sort_row(void)
{
  int n;
  REQUIRES(n <= NMAX);
  col_type *col = (col_type *)malloc(sizeof(col_type) * CAP_NNZ);
  val_type *val = (val_type *)malloc(sizeof(val_type) * CAP_NNZ);
  col_type c0[CAP_NNZ]; val_type v0[CAP_NNZ];
  for (int k = 0; k < CAP_NNZ; ++k) { c0[k] = col[k]; v0[k] = val[k]; w_col[k] = col[k]; w_val[k] = val[k]; }
  w_n = n;
  f_sort_row(col, val, n);
  ENSURES(post_sorted(col, n), "sort_row: columns ascending after the call");
  ENSURES(post_same_pairs(c0, v0, col, val, n), "sort_row: multiset of (col,val) pairs unchanged");
  ENSURES(n >= CAP_NNZ || (col[n < 0 ? 0 : n] == c0[n < 0 ? 0 : n] && val[n < 0 ? 0 : n] == v0[n < 0 ? 0 : n]),
          "frame: the cell after the row is not modified");
  CANARY("harness.end");
}
""",
    entry='h_sort_row', mode='unwound', unwind='NMAX+2', model='int32',
    # measured: n<=5 with 64-bit columns takes 118 s, with Col=int 30 s; n<=4 with ptrdiff_t 9 s
    variants=[{'NMAX': 5, 'ZMAX': 5, 'CXC_COL_T': 'int'}, {'NMAX': 4, 'ZMAX': 4}],
    thorough_variants=[{'NMAX': 5, 'ZMAX': 5}, {'NMAX': 6, 'ZMAX': 6, 'CXC_COL_T': 'int'}],
    bound_text='all rows of length n <= 5 with Col=int and n <= 4 with Col=ptrdiff_t (thorough: 6 / 5); columns arbitrary (duplicates, negatives), values any 32-bit pattern',
    assumptions=['A-bound: nothing is claimed beyond the stated size bound',
                 'A-inst: Col = ptrdiff_t, Val = 32-bit token (values are only moved, never computed with)'],
    replay='kernels', timeout=600,
    witness=['w_n', 'w_col', 'w_val'],
)

# index safety + frame of sort_row for EVERY n (inductive: the invariants are scalar)
sort_row_safety = Unit(
    name='sort_row_safety', props=['C08', 'C17', 'C10'],
    functions=['detail::sort_row(Col*, Val*, int)'],
    desc='memory safety and frame of sort_row for every n: only col[0..n) and val[0..n) are accessed; terminates',
    cuts=dict(body=Cut(SORT_ROW_SRC, SORT_ROW_ANCHOR,
                       loops=[Loop(r'for\s*\(\s*int j\b', """
__CPROVER_assigns(j, __CPROVER_object_whole(col), __CPROVER_object_whole(val))
__CPROVER_loop_invariant(1 <= j && (j <= n || n < 1))
__CPROVER_decreases(n - j)
""", prefix=True),
                              Loop(r'while\s*\(', """
__CPROVER_assigns(i, __CPROVER_object_whole(col), __CPROVER_object_whole(val))
__CPROVER_loop_invariant(-1 <= i && i <= j - 1)
__CPROVER_decreases(i + 1)
""", prefix=True)])),
    template=r"""
#define MODEL_UF 1
#include "amgcl_c.h"
int g_thrown;
void f_sort_row(Col *col, Val *val, int n)
__CPROVER_requires(0 <= n)
__CPROVER_requires(__CPROVER_is_fresh(col, (size_t)n * sizeof(Col)))
__CPROVER_requires(__CPROVER_is_fresh(val, (size_t)n * sizeof(Val)))
__CPROVER_assigns(__CPROVER_object_whole(col), __CPROVER_object_whole(val))
{
/*@CUT:body@*/
}
void h_f_sort_row(void) { Col *col; Val *val; int n; f_sort_row(col, val, n); }
""",
    enforce='f_sort_row', mode='inductive', model='uf',
    assumptions=['A-inst: Col = ptrdiff_t, Val = opaque 64-bit token',
                 'A-alias: col and val are distinct arrays of n cells each (is_fresh)'],
    replay='kernels', timeout=300,
    not_decided=['sortedness / permutation (decided by the bounded unit sort_row)'],
)

# ================================================================ pointwise_matrix
SPEC_POINTWISE = r"""
#ifndef BSMAX
#define BSMAX 2
#endif
/* std::vector<ptr_type> v(n): n value-initialised (zero) cells (A-std) */
static ptr_type *vec_ptr_new(size_t n)
{
  if (n > BSMAX) g_cap_exceeded = 1;
  ptr_type *p = (ptr_type *)malloc(sizeof(ptr_type) * BSMAX);
  for (size_t i = 0; i < BSMAX; ++i) p[i] = 0;
  return p;
}
/* number of stored entries of A inside block (ip,jp) and the largest norm among them */
static int block_count(const crs *A, size_t bs, size_t ip, size_t jp)
{
  int s = 0;
  for (size_t i = 0; i < NMAX; ++i) if (i < A->nrows && i / bs == ip)
    for (size_t k = 0; k < CAP_NNZ; ++k)
      if ((ptrdiff_t)k >= A->ptr[i] && (ptrdiff_t)k < A->ptr[i + 1] && (size_t)A->col[k] / bs == jp) s++;
  return s;
}
static V block_max_norm(const crs *A, size_t bs, size_t ip, size_t jp)
{
  V mx = 0;     /* norms are >= 0 */
  for (size_t i = 0; i < NMAX; ++i) if (i < A->nrows && i / bs == ip)
    for (size_t k = 0; k < CAP_NNZ; ++k)
      if ((ptrdiff_t)k >= A->ptr[i] && (ptrdiff_t)k < A->ptr[i + 1] && (size_t)A->col[k] / bs == jp) {
        V nv = A->val[k] < 0 ? -A->val[k] : A->val[k];
        if (nv > mx) mx = nv;
      }
  return mx;
}
static _Bool post_pointwise_structure(const crs *A, size_t bs, const crs *P)
{
  for (size_t ip = 0; ip < NMAX; ++ip) for (size_t jp = 0; jp < NMAX; ++jp)
    if (ip < P->nrows && jp < P->ncols) {
      if ((block_count(A, bs, ip, jp) > 0) != (count_in_row(P, ip, jp) > 0)) return 0;
    }
  return 1;
}
static _Bool post_pointwise_values(const crs *A, size_t bs, const crs *P)
{
  for (size_t ip = 0; ip < NMAX; ++ip) if (ip < P->nrows)
    for (size_t k = 0; k < CAP_NNZ; ++k)
      if ((ptrdiff_t)k >= P->ptr[ip] && (ptrdiff_t)k < P->ptr[ip + 1]) {
        if (P->val[k] != block_max_norm(A, bs, ip, (size_t)P->col[k])) return 0;
      }
  return 1;
}
"""

pointwise = Unit(
    name='builtin_pointwise_matrix', props=['C08', 'C04', 'C10'],
    functions=['backend::pointwise_matrix(const crs<V,C,P>&, unsigned)', 'crs::set_size', 'crs::scan_row_sizes', 'crs::set_nonzeros'],
    desc='block-to-pointwise reduction: result is (n/bs)x(m/bs), well formed, rows strictly ascending, block (ip,jp) stored iff A has an entry in it, value = largest norm in the block',
    cuts=dict(crs_member_cuts(), body=Cut(
        BUILTIN, r'pointwise_matrix\(const crs<value_type, col_type, ptr_type> &A, unsigned block_size\)\s*(?=\{)',
        rules=CALL_RULES + [
            Rule(r'^\s*typedef value_type V;\n', '', 1, why='V is bound by the value model'),
            Rule(r'typedef math::scalar_of<V>::type S;', 'typedef V S;', 1, why='scalar_of<V> = V for scalar value types'),
            Rule(r'auto ap = std_make_shared<[^;]*>\(\);', 'crs *ap = crs_new();', 1),
            Rule(r'^\s*auto &Ap = \*ap;\n', '', 1, why='reference alias: #define Ap (*ap) in the template'),
            Rule(r'std_vector<ptr_type> (\w+)\((\w+)\);', r'ptr_type *\1 = vec_ptr_new(\2);', 4),
            IdxRule(r'Ap\.col|Ap\.val', 'Ap.nnz', '+'),
            IdxRule(r'Ap\.ptr', 'Ap.nrows + 1', '+'),
            IdxRule(r'A\.col|A\.val', 'A.ptr[A.nrows]', '+'),
            IdxRule(r'A\.ptr', 'A.nrows + 1', '+'),
            IdxRule(r'j|e', 'block_size', '+'),
        ])),
    template='#define MODEL_INT32 1\n' + BOUNDED_PRELUDE + CRS_MEMBERS_C + SPEC_POINTWISE + r"""
WITNESS_CRS(A)
unsigned w_bs;
#undef CXC_THROW_RET
#define CXC_THROW_RET 0
/* contract (enforced by the harness below):
 *   requires crs_wf(A), rows of A ascending, 1 <= block_size, block_size divides nrows and ncols, |values| <= 7
 *   assigns  nothing visible to the caller
 *   ensures  does not throw; result is (nrows/bs) x (ncols/bs), well-formed, rows strictly ascending;
 *            block (ip,jp) is stored iff some entry of A lies in it; its value is the largest norm in the block */
crs *f_pointwise_matrix(const crs *A_p, unsigned block_size)
{
#define A (*A_p)
#define Ap (*ap)
/*@CUT:body@*/
#undef Ap
#undef A
}
void h_pointwise_matrix(void)
{
  crs *A = crs_input();
  unsigned bs = BSMAX;   /* concrete per variant: symbolic 64-bit division by block_size is what CBMC cannot afford */
  REQUIRES(crs_wf(A, NMAX, NMAX, ZMAX) && crs_vals_small(A, 7) && crs_rows_sorted(A, 0));
  REQUIRES(A->nrows % bs == 0 && A->ncols % bs == 0);
  MIRROR_CRS(A, A); w_bs = bs;
  crs_snap s; crs_snapshot(A, &s);
  crs *P = f_pointwise_matrix(A, bs);
  ENSURES(!g_cap_exceeded, "bound artefact: allocation within verification capacity");
  ENSURES(!g_thrown && P != 0, "pointwise_matrix: no exception on valid input");
  if (P != 0) {
  ENSURES(P->nrows == A->nrows / bs && P->ncols == A->ncols / bs, "pointwise_matrix: result is (n/bs) x (m/bs)");
  ENSURES(crs_wf(P, NMAX, NMAX, ZMAX) && P->nnz == (size_t)P->ptr[P->nrows],
          "pointwise_matrix: result is well-formed CRS (monotone ptr from 0, columns in range, nnz == ptr[n])");
  ENSURES(crs_rows_sorted(P, 1), "pointwise_matrix: rows of the result strictly ascending (no duplicate block)");
  ENSURES(post_pointwise_structure(A, bs, P), "pointwise_matrix: block (ip,jp) is stored iff A has an entry inside it");
  ENSURES(post_pointwise_values(A, bs, P), "pointwise_matrix: stored value == largest norm over the entries of the block");
  }
  ENSURES(crs_unchanged(A, &s), "frame: the input matrix is not modified");
  CANARY("harness.end");
}
""",
    entry='h_pointwise_matrix', mode='unwound', unwind='max(ZMAX,NMAX)+3', model='int32',
    variants=[{'NMAX': 4, 'ZMAX': 3, 'BSMAX': 2}],
    thorough_variants=[{'NMAX': 4, 'ZMAX': 4, 'BSMAX': 2}, {'NMAX': 4, 'ZMAX': 5, 'BSMAX': 2}, {'NMAX': 6, 'ZMAX': 4, 'BSMAX': 2}, {'NMAX': 3, 'ZMAX': 4, 'BSMAX': 1}, {'NMAX': 6, 'ZMAX': 4, 'BSMAX': 3}],
    bound_text='block_size = 2, A up to 4x4 (blocks 2x2) with nnz <= 3 (thorough: nnz <= 4, 5; 6x6; block_size 1 up to 3x3; block_size 3 up to 6x6), sorted rows, pattern and values symbolic',
    assumptions=A_BOUNDED + ['A-inst: value_type = scalar (math::scalar_of<V> = V), math::norm = abs'],
    replay='kernels', timeout=900,
    witness=wit('A') + ['w_bs'],
    not_decided=['ncols not divisible by block_size (columns beyond mp*block_size): outside the stated precondition',
                 'block value types (norm of a static_matrix)'],
)
# per-loop unwinding limits (keyed on the loop keyword + first token only; unmatched loops keep --unwind)
pointwise.unwindset = [(r'for\s*\(\s*ptrdiff_t ip\b', 'NMAX//BSMAX+1'), (r'for\s*\(\s*unsigned k\b', 'BSMAX+1'),
                       (r'while\s*\(\s*!\s*done', 'NMAX//BSMAX+2'), (r'while\s*\(\s*beg\b', 'ZMAX+1')]

# ============================================================================= sum
# shared by sum / spgemm units: marker vectors, sort_row as an inlined callee, result capacity
SPEC_RING_COMMON = r"""
/* std::vector<ptrdiff_t> v(n, init) (A-std) */
static ptrdiff_t *vec_idx_new(size_t n, ptrdiff_t init)
{
  if (n > CAP_PTR) g_cap_exceeded = 1;
  ptrdiff_t *p = (ptrdiff_t *)malloc(sizeof(ptrdiff_t) * CAP_PTR);
  for (size_t i = 0; i < CAP_PTR; ++i) p[i] = init;
  return p;
}
static void sort_row(Col *col, Val *val, int n)
{
/*@CUT:sort_row@*/
}
/* symbolic input matrix whose cells are built from narrow nondeterministic values: the same input space as
 * crs_input() + crs_wf + value range (every well-formed matrix within the bound is still generated), but the
 * high bits of sizes/pointers/columns/values are structurally zero, which is what keeps SAT tractable
 * (measured on sum, 2x2, nnz<=2: 11 s instead of > 300 s).
 * values: (nondet & VMASK) - VOFF, i.e. the range [-VOFF, VMASK-VOFF]                                  */
#ifndef VMASK
#define VMASK 1
#endif
#ifndef VOFF
#define VOFF 0
#endif
#define IMASK 7   /* sizes, row pointers, columns: 0..7 (>= NMAX, ZMAX of every variant; checked below) */
unsigned char nondet_uchar(void);
static Val val_input(void) { return (Val)(nondet_uchar() & VMASK) - VOFF; }
static crs *crs_input_narrow(void)
{
  crs *a = crs_input();
  __CPROVER_assert(NMAX <= IMASK && ZMAX <= IMASK, "bound artefact: narrow input generator covers the variant bound");
  a->nrows = nondet_uchar() & IMASK; a->ncols = nondet_uchar() & IMASK; a->nnz = nondet_uchar() & IMASK;
  for (size_t i = 0; i < CAP_PTR; ++i) a->ptr[i] = nondet_uchar() & IMASK;
  for (size_t j = 0; j < CAP_NNZ; ++j) { a->col[j] = nondet_uchar() & IMASK; a->val[j] = val_input(); }
  return a;
}
static _Bool crs_vals_in_range(const crs *A)
{
  for (size_t j = 0; j < CAP_NNZ; ++j) if (!(A->val[j] >= -VOFF && A->val[j] <= VMASK - VOFF)) return 0;
  return 1;
}
static _Bool crs_nodup(const crs *A)
{
  for (size_t i = 0; i < NMAX; ++i) for (size_t j = 0; j < NMAX; ++j)
    if (i < A->nrows && j < A->ncols && count_in_row(A, i, j) > 1) return 0;
  return 1;
}
"""
SORT_ROW_CALLEE = Cut(SORT_ROW_SRC, SORT_ROW_ANCHOR)
DEFAULT_CLEAN_PTR = Rule(r'(crs_set_size\([^,;()]+,[^,;()]+,[^,;()]+)\);', r'\1, 0 /* default argument clean_ptr = false */);', 1)
MARKER_RULE = Rule(r'std_vector<ptrdiff_t> marker\(([^,;]+), ([^,;)]+)\);', r'ptrdiff_t *marker = vec_idx_new(\1, \2);', 2)

SPEC_SUM = r"""
/* entry (i,j) of s*A in the ring: sum over the stored entries (i,j) of s*a  (= s*dense(A)(i,j), exact: no
 * overflow for the small values used; written entry-wise so that SAT need not prove distributivity) */
static long dense_get_scaled(const crs *A, size_t i, size_t j, Val s)
{
  long r = 0;
  for (size_t k = 0; k < CAP_NNZ; ++k)
    if ((ptrdiff_t)k >= A->ptr[i] && (ptrdiff_t)k < A->ptr[i + 1] && (size_t)A->col[k] == j) r += s * A->val[k];
  return r;
}
static _Bool post_sum_dense(Val alpha, const crs *A, Val beta, const crs *B, const crs *C)
{
  for (size_t i = 0; i < NMAX; ++i) for (size_t j = 0; j < NMAX; ++j)
    if (i < C->nrows && j < C->ncols) {
      if (dense_get(C, i, j) != dense_get_scaled(A, i, j, alpha) + dense_get_scaled(B, i, j, beta)) return 0;
    }
  return 1;
}
static _Bool post_sum_pattern(const crs *A, const crs *B, const crs *C)
{
  for (size_t i = 0; i < NMAX; ++i) for (size_t j = 0; j < NMAX; ++j)
    if (i < C->nrows && j < C->ncols) {
      if ((count_in_row(C, i, j) > 0) != (count_in_row(A, i, j) > 0 || count_in_row(B, i, j) > 0)) return 0;
    }
  return 1;
}
"""

sum_u = Unit(
    name='builtin_sum', props=['C08', 'C10'],
    functions=['backend::sum(Val, const crs&, Val, const crs&, bool)', 'detail::sort_row', 'crs::set_size', 'crs::scan_row_sizes', 'crs::set_nonzeros'],
    desc='C = alpha*A + beta*B: dense(C) == alpha*dense(A) + beta*dense(B), pattern = union, well formed, no duplicate column per row, rows ascending when sort=true; any input pattern',
    cuts=dict(crs_member_cuts(), sort_row=SORT_ROW_CALLEE, body=Cut(
        BUILTIN, r'sum\(Val alpha, const crs<Val,Col,Ptr> &A, Val beta, const crs<Val,Col,Ptr> &B, bool sort = false\)\s*(?=\{)',
        rules=CALL_RULES + [
            Rule(r'auto C = std_make_shared<[^;]*>\(\);', 'crs *C = crs_new();', 1),
            DEFAULT_CLEAN_PTR, MARKER_RULE,
            IdxRule(r'C->col|C->val', 'C->nnz', '+'),
            IdxRule(r'C->ptr', 'C->nrows + 1', '+'),
            IdxRule(r'marker', 'C->ncols', '+'),
            IdxRule(r'A\.col|A\.val', 'A.ptr[A.nrows]', '+'),
            IdxRule(r'B\.col|B\.val', 'B.ptr[B.nrows]', '+'),
            IdxRule(r'A\.ptr', 'A.nrows + 1', '+'),
            IdxRule(r'B\.ptr', 'B.nrows + 1', '+'),
        ])),
    template='#define MODEL_INT32 1\n#define CAP_NNZ (2 * ZMAX + 1)\n' + BOUNDED_PRELUDE + CRS_MEMBERS_C + SPEC_RING_COMMON + SPEC_SUM + r"""
WITNESS_CRS(A)
WITNESS_CRS(B)
int w_alpha, w_beta, w_sort;
#ifndef CMASK
#define CMASK 3
#endif
#ifndef COFF
#define COFF 0
#endif
#undef CXC_THROW_RET
#define CXC_THROW_RET 0
/* contract (enforced by the harness below):
 *   requires crs_wf(A), crs_wf(B), same shape, values in [-VOFF, VMASK-VOFF], alpha,beta in [-COFF, CMASK-COFF]
 *   assigns  nothing visible to the caller
 *   ensures  no throw; C has the shape of A; C well-formed; dense(C) == alpha*dense(A) + beta*dense(B);
 *            (i,j) stored in C iff stored in A or B; no duplicate column in a row of C when the inputs
 *            have none or are row-sorted; rows ascending when sort                                   */
crs *f_sum(Val alpha, const crs *A_p, Val beta, const crs *B_p, _Bool sort)
{
#define A (*A_p)
#define B (*B_p)
/*@CUT:body@*/
#undef B
#undef A
}
void h_sum(void)
{
  crs *A = crs_input_narrow(), *B = crs_input_narrow();
  Val alpha = (Val)(nondet_uchar() & CMASK) - COFF, beta = (Val)(nondet_uchar() & CMASK) - COFF; _Bool sort;
#ifdef SORT
  sort = SORT;   /* variant fixes the flag (measured: symbolic sort > 300 s; sort=0: 67 s; sort=1: 235 s at nnz <= 3) */
#endif
  REQUIRES(crs_wf(A, NMAX, NMAX, ZMAX) && crs_wf(B, NMAX, NMAX, ZMAX));
  REQUIRES(A->nrows == B->nrows && A->ncols == B->ncols);
  MIRROR_CRS(A, A); MIRROR_CRS(B, B); w_alpha = alpha; w_beta = beta; w_sort = sort;
  crs_snap sa, sb; crs_snapshot(A, &sa); crs_snapshot(B, &sb);
  crs *R = f_sum(alpha, A, beta, B, sort);
  ENSURES(!g_cap_exceeded, "bound artefact: allocation within verification capacity");
  ENSURES(!g_thrown && R != 0, "sum: no exception on matrices of equal shape");
  if (R != 0) {
  ENSURES(R->nrows == A->nrows && R->ncols == A->ncols, "sum: result has the shape of the operands");
  ENSURES(crs_wf(R, NMAX, NMAX, 2 * ZMAX) && R->nnz == (size_t)R->ptr[R->nrows],
          "sum: result is well-formed CRS (monotone ptr from 0, columns in range, nnz == ptr[n])");
  ENSURES(post_sum_dense(alpha, A, beta, B, R), "sum: dense(C) == alpha*dense(A) + beta*dense(B)");
  ENSURES(post_sum_pattern(A, B, R), "sum: (i,j) is stored in C iff it is stored in A or in B");
  ENSURES(!((crs_nodup(A) && crs_nodup(B)) || (crs_rows_sorted(A, 0) && crs_rows_sorted(B, 0))) || crs_nodup(R),
          "sum: no duplicate column in a row of C (inputs duplicate-free or row-sorted)");
  ENSURES(!sort || crs_rows_sorted(R, 0), "sum: rows of C ascending when sort=true");
  }
  ENSURES(crs_unchanged(A, &sa) && crs_unchanged(B, &sb), "frame: the operands are not modified");
  CANARY("harness.end");
}
""",
    entry='h_sum', mode='unwound', unwind='2*ZMAX+2', model='int32',
    # value ranges: measured -- the dense equality with values in [-3,3] does not finish in 300 s even for nnz <= 2
    # (sign extension feeds every partial product of the 32-bit multipliers).  The entries of C are multilinear
    # polynomials in (alpha, beta, a_k, b_k) for each fixed pattern (no branch of sum() reads a value), and a
    # multilinear polynomial is determined by its values on {0,1}^n, so values in {0,1} with alpha,beta in 0..3
    # lose nothing for the unchanged code; wider/signed ranges are thorough variants.
    # CXC_NOCOVER on the sort=0 variants: the inlined sort_row body is unreachable there by construction;
    # its reachability is established by the sort=1 sibling
    variants=[{'NMAX': 2, 'ZMAX': 3, 'VMASK': 1, 'VOFF': 0, 'CMASK': 3, 'COFF': 0, 'SORT': 0, 'CXC_NOCOVER': 1},
              {'NMAX': 2, 'ZMAX': 2, 'VMASK': 1, 'VOFF': 0, 'CMASK': 3, 'COFF': 0, 'SORT': 1}],
    thorough_variants=[{'NMAX': 2, 'ZMAX': 3, 'VMASK': 1, 'VOFF': 0, 'CMASK': 3, 'COFF': 0, 'SORT': 1},
                       {'NMAX': 2, 'ZMAX': 3, 'VMASK': 3, 'VOFF': 0, 'CMASK': 3, 'COFF': 0, 'SORT': 0, 'CXC_NOCOVER': 1},
                       {'NMAX': 2, 'ZMAX': 2, 'VMASK': 7, 'VOFF': 3, 'CMASK': 7, 'COFF': 3, 'SORT': 1},
                       {'NMAX': 3, 'ZMAX': 3, 'VMASK': 1, 'VOFF': 0, 'CMASK': 3, 'COFF': 0, 'SORT': 0, 'CXC_NOCOVER': 1}],
    bound_text='all pairs of matrices up to 2x2, any pattern (unsorted, duplicates, empty rows), values in {0,1}, alpha,beta in 0..3; nnz <= 3 each with sort=false, nnz <= 2 each with sort=true (thorough: nnz <= 3 sorted; values 0..3; values and coefficients in [-3,4] with nnz <= 2; 3x3)',
    assumptions=A_BOUNDED + ['A-vals: quick variant restricts stored values to {0,1} (multilinearity argument in the unit source); ring = int32'],
    replay='kernels', timeout=600,
    witness=wit('A', 'B') + ['w_alpha', 'w_beta', 'w_sort'],
)
RING_UNWINDSET = [(r'for\s*\(\s*Idx (i|ia)\b', 'NMAX+1'), (r'for\s*\(\s*Idx (j|ja|jb)\b', 'ZMAX+1'),
                  (r'for\s*\(\s*ptrdiff_t i\b', 'NMAX+2'), (r'for\s*\(\s*ptrdiff_t j\b', '2*ZMAX+2')]
sum_u.unwindset = RING_UNWINDSET
# sum() calls set_size(n, m) with the default clean_ptr=false: the clean_ptr block of the inlined callee is not reached
sum_u.cover_exempt = r'set_size\.1$'

# ===================================================================== spgemm_saad
SPGEMM = 'amgcl/detail/spgemm.hpp'
SPEC_SPGEMM = r"""
/* entry (i,j) of A*B in the ring, as the sum over all pairs of stored entries a_(i,l), b_(l,j) of a*b
 * (= sum_l dense(A)(i,l)*dense(B)(l,j) by distributivity; written pair-wise so SAT need not prove it);
 * *cnt = number of such pairs (structural product)                                                   */
static long prod_entry(const crs *A, const crs *B, size_t i, size_t j, int *cnt)
{
  long r = 0; int c = 0;
  for (size_t ka = 0; ka < CAP_NNZ; ++ka)
    if ((ptrdiff_t)ka >= A->ptr[i] && (ptrdiff_t)ka < A->ptr[i + 1]) {
      size_t l = (size_t)A->col[ka];
      for (size_t kb = 0; kb < CAP_NNZ; ++kb)
        if ((ptrdiff_t)kb >= B->ptr[l] && (ptrdiff_t)kb < B->ptr[l + 1] && (size_t)B->col[kb] == j) { r += A->val[ka] * B->val[kb]; c++; }
    }
  *cnt = c;
  return r;
}
static _Bool post_product(const crs *A, const crs *B, const crs *C, _Bool pattern)
{
  for (size_t i = 0; i < NMAX; ++i) for (size_t j = 0; j < NMAX; ++j)
    if (i < C->nrows && j < C->ncols) {
      int cnt; long e = prod_entry(A, B, i, j, &cnt);
      if (pattern ? ((count_in_row(C, i, j) > 0) != (cnt > 0)) : (dense_get(C, i, j) != e)) return 0;
    }
  return 1;
}
"""

spgemm_saad = Unit(
    name='spgemm_saad', props=['C08', 'C03', 'C10'],
    functions=['backend::spgemm_saad(const A&, const B&, C&, bool)', 'detail::sort_row', 'crs::set_size', 'crs::scan_row_sizes', 'crs::set_nonzeros'],
    desc='marker-based SpGEMM: dense(C) == dense(A)*dense(B), structural product pattern, well formed, no duplicate column per row, rows ascending when sort=true; any input pattern',
    cuts=dict(crs_member_cuts(), sort_row=SORT_ROW_CALLEE, body=Cut(
        SPGEMM, r'void spgemm_saad\(const AMatrix &A, const BMatrix &B, CMatrix &C, bool sort = true\)\s*(?=\{)',
        rules=CALL_RULES + [
            Rule(r'^\s*typedef value_type<CMatrix>::type Val;\n', '', 1, why='Val is bound by the value model'),
            Rule(r'^\s*typedef col_type<CMatrix>::type Col;\n', '', 1, why='Col is bound by the prelude'),
            DEFAULT_CLEAN_PTR, MARKER_RULE,
            IdxRule(r'C\.col|C\.val', 'C.nnz', '+'),
            IdxRule(r'C\.ptr', 'C.nrows + 1', '+'),
            IdxRule(r'marker', 'B.ncols', '+'),
            IdxRule(r'A\.col|A\.val', 'A.ptr[A.nrows]', '+'),
            IdxRule(r'B\.col|B\.val', 'B.ptr[B.nrows]', '+'),
            IdxRule(r'A\.ptr', 'A.nrows + 1', '+'),
            IdxRule(r'B\.ptr', 'B.nrows + 1', '+'),
        ])),
    template='#define MODEL_INT32 1\n#define CAP_NNZ ((ZMAX > NMAX * NMAX ? ZMAX : NMAX * NMAX) + 1)\n' + BOUNDED_PRELUDE + CRS_MEMBERS_C + SPEC_RING_COMMON + SPEC_SPGEMM + r"""
WITNESS_CRS(A)
WITNESS_CRS(B)
int w_sort;
/* contract (enforced by the harness below):
 *   requires crs_wf(A), crs_wf(B), cols(A) == rows(B), C default-constructed, values in [-VOFF, VMASK-VOFF]
 *   assigns  C
 *   ensures  C is rows(A) x cols(B), well-formed; dense(C) == dense(A)*dense(B); (i,j) stored iff some
 *            a_(i,l), b_(l,j) are stored; no duplicate column in a row of C when the inputs have none or are
 *            row-sorted; rows ascending when sort                                                        */
void f_spgemm_saad(const crs *A_p, const crs *B_p, crs *C_p, _Bool sort)
{
#define A (*A_p)
#define B (*B_p)
#define C (*C_p)
/*@CUT:body@*/
#undef C
#undef B
#undef A
}
void h_spgemm_saad(void)
{
  crs *A = crs_input_narrow(), *B = crs_input_narrow();
  _Bool sort;
#ifdef SORT
  sort = SORT;   /* variant fixes the flag (symbolic flag: does not finish in 300 s, measured on sum) */
#endif
  REQUIRES(crs_wf(A, NMAX, NMAX, ZMAX) && crs_wf(B, NMAX, NMAX, ZMAX));
  REQUIRES(A->ncols == B->nrows);
  MIRROR_CRS(A, A); MIRROR_CRS(B, B); w_sort = sort;
  crs_snap sa, sb; crs_snapshot(A, &sa); crs_snapshot(B, &sb);
  crs *R = crs_new();
  f_spgemm_saad(A, B, R, sort);
  ENSURES(!g_cap_exceeded, "bound artefact: allocation within verification capacity");
  ENSURES(!g_thrown, "spgemm_saad: no exception on compatible shapes");
  ENSURES(R->nrows == A->nrows && R->ncols == B->ncols, "spgemm_saad: result is rows(A) x cols(B)");
  ENSURES(crs_wf(R, NMAX, NMAX, CAP_NNZ - 1) && R->nnz == (size_t)R->ptr[R->nrows],
          "spgemm_saad: result is well-formed CRS (monotone ptr from 0, columns in range, nnz == ptr[n])");
  ENSURES(post_product(A, B, R, 0), "spgemm_saad: dense(C) == dense(A) * dense(B)");
  ENSURES(post_product(A, B, R, 1), "spgemm_saad: (i,j) is stored in C iff some a_(i,l) and b_(l,j) are stored");
  ENSURES(!((crs_nodup(A) && crs_nodup(B)) || (crs_rows_sorted(A, 0) && crs_rows_sorted(B, 0))) || crs_nodup(R),
          "spgemm_saad: no duplicate column in a row of C (inputs duplicate-free or row-sorted)");
  ENSURES(!sort || crs_rows_sorted(R, 0), "spgemm_saad: rows of C ascending when sort=true");
  ENSURES(crs_unchanged(A, &sa) && crs_unchanged(B, &sb), "frame: the operands are not modified");
  CANARY("harness.end");
}
""",
    entry='h_spgemm_saad', mode='unwound', unwind='max(NMAX*NMAX,ZMAX)+2', model='int32',
    variants=[{'NMAX': 2, 'ZMAX': 3, 'VMASK': 1, 'VOFF': 0, 'SORT': 0, 'CXC_NOCOVER': 1},
              {'NMAX': 2, 'ZMAX': 2, 'VMASK': 1, 'VOFF': 0, 'SORT': 1}],
    thorough_variants=[{'NMAX': 2, 'ZMAX': 3, 'VMASK': 1, 'VOFF': 0, 'SORT': 1},
                       {'NMAX': 2, 'ZMAX': 3, 'VMASK': 3, 'VOFF': 0, 'SORT': 0, 'CXC_NOCOVER': 1},
                       {'NMAX': 2, 'ZMAX': 2, 'VMASK': 7, 'VOFF': 3, 'SORT': 1},
                       {'NMAX': 3, 'ZMAX': 2, 'VMASK': 1, 'VOFF': 0, 'SORT': 0, 'CXC_NOCOVER': 1}],
    bound_text='all compatible pairs A (n x m), B (m x k) with n,m,k <= 2, any pattern (unsorted, duplicates, empty rows), values in {0,1}; nnz <= 3 each with sort=false, nnz <= 2 each with sort=true (thorough: nnz <= 3 sorted; values 0..3; values in [-3,4] with nnz <= 2; 3x3 with nnz <= 2 -- 3x3 with nnz <= 3 does not finish in 2400 s)',
    assumptions=A_BOUNDED + ['A-vals: quick variants restrict stored values to {0,1}: the entries of C are multilinear in the stored values for each fixed pattern (no branch reads a value), and a multilinear polynomial is determined by its values on {0,1}^n; ring = int32',
                             'A-omp: the per-thread marker vector is the sequential one'],
    replay='kernels', timeout=600,
    witness=wit('A', 'B') + ['w_sort'],
)
spgemm_saad.unwindset = RING_UNWINDSET
spgemm_saad.cover_exempt = r'set_size\.1$'   # set_size(n, m) with default clean_ptr=false

# =========================================================================== scale
scale_u = Unit(
    name='builtin_scale', props=['C08', 'C03', 'C10'],
    functions=['backend::scale(crs&, T)'],
    desc='A := s*A: every stored value is multiplied by s exactly once; structure (sizes, ptr, col) unchanged',
    cuts=dict(body=Cut(
        BUILTIN, r'void scale\(crs<Val, Col, Ptr> &A, T s\)\s*(?=\{)',
        rules=[IdxRule(r'A\.val', 'A.ptr[A.nrows]', '+'), IdxRule(r'A\.ptr', 'A.nrows + 1', '+')])),
    template='#define MODEL_INT32 1\n' + BOUNDED_PRELUDE + SPEC_RING_COMMON.replace('/*@CUT:sort_row@*/', '(void)col; (void)val; (void)n; /* not used by this unit */') + r"""
WITNESS_CRS(A)
int w_s;
/* contract (enforced by the harness below):
 *   requires crs_wf(A), values and s small (no overflow)
 *   assigns  A.val[0 .. nnz)
 *   ensures  val[k] == old(val[k]) * s for every k < nnz; sizes, ptr, col and the cells beyond nnz unchanged */
void f_scale(crs *A_p, Val s)
{
#define A (*A_p)
/*@CUT:body@*/
#undef A
}
void h_scale(void)
{
  crs *A = crs_input_narrow();
  Val s = (Val)(nondet_uchar() & 7) - 3;
  REQUIRES(crs_wf(A, NMAX, NMAX, ZMAX));
  MIRROR_CRS(A, A); w_s = s;
  crs_snap s0; crs_snapshot(A, &s0);
  f_scale(A, s);
  _Bool vals = 1, rest = 1;
  for (size_t k = 0; k < CAP_NNZ; ++k) {
    if (k < (size_t)A->ptr[A->nrows]) { if (A->val[k] != s0.val[k] * s) vals = 0; }
    else if (A->val[k] != s0.val[k]) rest = 0;
    A->val[k] = s0.val[k];   /* so that crs_unchanged below compares everything but the scaled values */
  }
  ENSURES(vals, "scale: every stored value equals s times its old value");
  ENSURES(rest, "frame: cells beyond nnz are not modified");
  ENSURES(crs_unchanged(A, &s0), "frame: sizes, row pointers and columns are not modified");
  CANARY("harness.end");
}
""",
    entry='h_scale', mode='unwound', unwind='max(ZMAX,NMAX)+2', model='int32',
    variants=[{'NMAX': 3, 'ZMAX': 4, 'VMASK': 7, 'VOFF': 3}],
    thorough_variants=[{'NMAX': 4, 'ZMAX': 6, 'VMASK': 7, 'VOFF': 3}],
    bound_text='all matrices up to 3x3 with nnz <= 4 (thorough 4x4, nnz <= 6), values and s in [-3,4], any pattern',
    assumptions=A_BOUNDED, replay='kernels', timeout=300,
    witness=wit('A') + ['w_s'],
)

# ======================================================================= sort_rows
SPEC_SORT_ROWS = r"""
static int row_pair_count(const ptr_type *ptr, const col_type *col, const val_type *val, size_t i, col_type c, val_type v)
{
  int s = 0;
  for (size_t k = 0; k < CAP_NNZ; ++k) if ((ptrdiff_t)k >= ptr[i] && (ptrdiff_t)k < ptr[i + 1] && col[k] == c && val[k] == v) s++;
  return s;
}
/* every (col,val) pair of row i of the old matrix occurs in row i of the new one exactly as often (rows have
 * unchanged length, so this is multiset equality row by row)                                              */
static _Bool post_rows_same_pairs(const crs_snap *o, const crs *A)
{
  for (size_t i = 0; i < NMAX; ++i) if (i < A->nrows)
    for (size_t k = 0; k < CAP_NNZ; ++k) if ((ptrdiff_t)k >= o->ptr[i] && (ptrdiff_t)k < o->ptr[i + 1]) {
      if (row_pair_count(A->ptr, A->col, A->val, i, o->col[k], o->val[k]) != row_pair_count(o->ptr, o->col, o->val, i, o->col[k], o->val[k])) return 0;
    }
  return 1;
}
"""
sort_rows_u = Unit(
    name='builtin_sort_rows', props=['C08', 'C03', 'C17', 'C10'],
    functions=['backend::sort_rows(crs&)', 'detail::sort_row'],
    desc='every row ascending afterwards; each row keeps its multiset of (col,val) pairs; sizes and row pointers unchanged',
    cuts=dict(sort_row=SORT_ROW_CALLEE, body=Cut(
        BUILTIN, r'void sort_rows\(crs<V, C, P> &A\)\s*(?=\{)',
        rules=[IdxRule(r'A\.ptr', 'A.nrows + 1', '+')])),
    template='#define MODEL_INT32 1\n' + BOUNDED_PRELUDE + SPEC_RING_COMMON + SPEC_SORT_ROWS + r"""
WITNESS_CRS(A)
/* contract (enforced by the harness below):
 *   requires crs_wf(A)
 *   assigns  A.col[0..nnz), A.val[0..nnz)
 *   ensures  rows ascending; row-wise multiset of (col,val) pairs unchanged; sizes, ptr, cells beyond nnz unchanged */
void f_sort_rows(crs *A_p)
{
#define A (*A_p)
/*@CUT:body@*/
#undef A
}
void h_sort_rows(void)
{
  crs *A = crs_input_narrow();
  REQUIRES(crs_wf(A, NMAX, NMAX, ZMAX));
  MIRROR_CRS(A, A);
  crs_snap s0; crs_snapshot(A, &s0);
  f_sort_rows(A);
  ENSURES(crs_rows_sorted(A, 0), "sort_rows: every row is in ascending column order");
  ENSURES(post_rows_same_pairs(&s0, A), "sort_rows: every row keeps its multiset of (col,val) pairs");
  _Bool rest = 1;
  for (size_t k = 0; k < CAP_NNZ; ++k) {
    if (k >= (size_t)s0.ptr[s0.nrows] && (A->col[k] != s0.col[k] || A->val[k] != s0.val[k])) rest = 0;
    A->col[k] = s0.col[k]; A->val[k] = s0.val[k];   /* crs_unchanged below then compares sizes, pointers, ptr[] */
  }
  ENSURES(rest, "frame: cells beyond nnz are not modified");
  ENSURES(crs_unchanged(A, &s0), "frame: sizes and row pointers are not modified");
  CANARY("harness.end");
}
""",
    entry='h_sort_rows', mode='unwound', unwind='ZMAX+2', model='int32',
    variants=[{'NMAX': 3, 'ZMAX': 4, 'VMASK': 3, 'VOFF': 0}],
    thorough_variants=[{'NMAX': 3, 'ZMAX': 5, 'VMASK': 3, 'VOFF': 0}],
    bound_text='all matrices up to 3x3 with nnz <= 4 (thorough nnz <= 5), any pattern (unsorted, duplicates, empty rows), values 0..3 (only moved)',
    assumptions=A_BOUNDED, replay='kernels', timeout=300,
    witness=wit('A'),
)
sort_rows_u.unwindset = [(r'for\s*\(\s*ptrdiff_t i\b', 'NMAX+1')]

UNITS = [transpose, sort_row, sort_row_safety, pointwise, sum_u, spgemm_saad, scale_u, sort_rows_u]

# ---------------------------------------------------------------- transpose: values are ADJOINTS (UF model)
# The ring unit above (int32) has adjoint = identity, so it cannot see whether math::adjoint is applied to the values
# (it matters for complex and block values: seeded change C02d).  Here the values are opaque tokens and adjoint is an
# uninterpreted function: every stored entry (i,j) of a duplicate-free A appears exactly once in T as (j,i) with the
# value math::adjoint(a_ij).
SPEC_TRANSPOSE_ADJ = r'''
static _Bool no_duplicates(const crs *A)
{
  for (size_t i = 0; i < NMAX; ++i) for (size_t j = 0; j < NMAX; ++j)
    if (i < A->nrows && j < A->ncols && count_in_row(A, i, j) > 1) return 0;
  return 1;
}
/* the value stored at (i,j) (duplicate-free matrix), or has = 0 */
static V entry_val(const crs *A, size_t i, size_t j, _Bool *has)
{
  V v = 0; *has = 0;
  for (size_t k = 0; k < CAP_NNZ; ++k)
    if ((ptrdiff_t)k >= A->ptr[i] && (ptrdiff_t)k < A->ptr[i + 1] && (size_t)A->col[k] == j) { v = A->val[k]; *has = 1; }
  return v;
}
static _Bool post_transpose_adjoint(const crs *A, const crs *T)
{
  for (size_t i = 0; i < NMAX; ++i) for (size_t j = 0; j < NMAX; ++j)
    if (i < A->nrows && j < A->ncols) {
      _Bool ha, ht; V a = entry_val(A, i, j, &ha); V t = entry_val(T, j, i, &ht);
      if (ha != ht) return 0;
      if (ha && t != math_adjoint(a)) return 0;     /* conjugate transpose of the value, not a plain copy */
    }
  return 1;
}
'''
transpose_adjoint = Unit(
    name='builtin_transpose_adjoint', props=['C08', 'C03', 'C10'],
    functions=['backend::transpose(const crs<V,C,P>&)'],
    desc='transpose stores math::adjoint of every value (conjugate transpose for complex / block values): uninterpreted adjoint, duplicate-free input',
    cuts=dict(crs_member_cuts(), body=Cut(
        BUILTIN, r'std::shared_ptr< crs<V,C,P> > transpose\(const crs<V, C, P> &A\)\s*(?=\{)',
        rules=CALL_RULES + [
            Rule(r'auto T = std_make_shared< crs<V,C,P> >\(\);', 'crs *T = crs_new();', 1),
            IdxRule(r'T->col|T->val', 'T->nnz', '+'),
            IdxRule(r'T->ptr', 'T->nrows + 1', '+'),
        ])),
    template='#define MODEL_UF 1\n#define CXC_UF_T unsigned short\n' + BOUNDED_PRELUDE + CRS_MEMBERS_C + SPEC_TRANSPOSE_ADJ + r'''
crs *f_transpose(const crs *A_p)
{
#define A (*A_p)
/*@CUT:body@*/
#undef A
}
void h_transpose_adj(void)
{
  crs *A = crs_input();
  REQUIRES(crs_wf(A, NMAX, NMAX, ZMAX) && no_duplicates(A));
  crs *T = f_transpose(A);
  ENSURES(!g_cap_exceeded, "bound artefact: allocation within verification capacity");
  ENSURES(T->nrows == A->ncols && T->ncols == A->nrows && crs_wf(T, NMAX, NMAX, ZMAX), "transpose: well-formed result with swapped dimensions");
  ENSURES(post_transpose_adjoint(A, T), "transpose: entry (j,i) of the result is math::adjoint of entry (i,j) of the input, and nothing else is stored");
  CANARY("harness.end");
}
''',
    entry='h_transpose_adj', mode='unwound', unwind='max(ZMAX,NMAX)+3', model='uf',
    variants=[{'NMAX': 3, 'ZMAX': 3}], thorough_variants=[{'NMAX': 3, 'ZMAX': 4}],
    bound_text='all duplicate-free matrices with rows, cols <= 3, nnz <= 3 (thorough 4); values opaque 16-bit tokens',
    assumptions=A_BOUNDED + ['A-uf16: value tokens are 16 bit wide; tokens are only compared with == and fed to uninterpreted functions (EUF small-model property)'],
    timeout=600,
)
UNITS.append(transpose_adjoint)

# thorough-tier head room: the larger bounds of these units take 15-45 minutes of SAT time each on a loaded host (measured);
# the thorough tier multiplies the unit timeout by VERIF_THOROUGH_TIMEOUT_FACTOR (8), the quick variants finish in seconds
for _u in (transpose, sort_row, pointwise):
    _u.timeout = max(_u.timeout, 600)
