"""Matrix adapters (family C17): amgcl/adapter/zero_copy.hpp and the crs copy constructors /
ownership members of amgcl/backend/builtin.hpp.

Loop-free units (zero_copy, zero_copy_direct, crs::free_data, ~crs) carry dfcc contracts and are
proved for the full symbolic domain (mode 'loopfree').  The copying constructors are bounded
(unwound) units."""
from cxc.extract import Cut, Rule, IdxRule
from cxc.unit import Unit
from _common import BUILTIN, BOUNDED_PRELUDE, CRS_MEMBERS_C, CALL_RULES, crs_member_cuts, member_rules

ZC = 'amgcl/adapter/zero_copy.hpp'

A_ZC = [
    'A-own: std::make_shared< crs<..> >() is a fresh heap object initialised by the default constructor crs() (builtin.hpp: all zero, own_data = true); shared_ptr reference counting is not modelled',
    'A-delete: delete[] p is modelled by a ghost record (which of the three arrays was deleted, how often); delete[] of a null pointer is a no-op',
    'A-inst: index types are the instantiations listed per variant (8-byte Ptr/Col for zero_copy as its static_asserts demand; int and long for zero_copy_direct); values are opaque tokens (never touched)',
]

# ------------------------------------------------------------------------------------------
# C prelude shared by the loop-free ownership units
# ------------------------------------------------------------------------------------------
ZC_PRELUDE = r'''
/* index-type instantiation selected by IT: 0 = ptrdiff_t (long), 1 = int, 2 = unsigned long / size_t */
#ifndef IT
#define IT 0
#endif
#if IT == 1
#define CXC_PTR_T int
#define CXC_COL_T int
#elif IT == 2
#define CXC_PTR_T unsigned long
#define CXC_COL_T unsigned long
#endif
#define MODEL_UF 1
#include "amgcl_c.h"
#include <stdlib.h>
int g_thrown;
/* ghost: heap traffic */
unsigned g_allocs;                 /* objects allocated                         */
unsigned g_deletes;                /* delete[] executed on a non-null pointer   */
_Bool g_del_ptr, g_del_col, g_del_val;   /* the tracked arrays were deleted     */
const void *g_trk_ptr, *g_trk_col, *g_trk_val;   /* tracked arrays (integers of identity only) */
static void ghost_delete(const void *p)
{
  if (p == 0) return;              /* delete[] nullptr: no effect */
  g_deletes++;
  if (p == g_trk_ptr) g_del_ptr = 1;
  if (p == g_trk_col) g_del_col = 1;
  if (p == g_trk_val) g_del_val = 1;
}
#define DELETE(p) ghost_delete(p)
/* std::make_shared< crs<..> >(): the allocator hands out a fresh object (ghost parameter `hdr`
 * of the function under contract, is_fresh in its precondition: dfcc cannot track a malloc inside
 * the checked function here), initialised by the default constructor crs()                    */
static crs *crs_make_shared(crs *a)
{
  g_allocs++;
  a->nrows = 0; a->ncols = 0; a->nnz = 0; a->ptr = 0; a->col = 0; a->val = 0; a->own_data = 1;
  return a;
}
#define NMAX 0x00ffffffffffffUL
'''


def zero_copy_unit(name, fn, sig_types, make_shared_pat, variants, desc, static_asserts):
    """zero_copy / zero_copy_direct(nrows, ncols, ptr, col, val)"""
    rules = [Rule(make_shared_pat, 'crs *A = crs_make_shared(hdr);', 1, why='std::make_shared -> fresh default-constructed crs')]
    if static_asserts:
        rules += [Rule(r'static_assert\(std_is_integral<\w+>::value, "[^"]*"\);', '/* compile-time: integral type */', '+',
                       why='type trait: holds for the listed instantiations'),
                  Rule(r'\bstatic_assert\(sizeof', '_Static_assert(sizeof', '+', why='C11 spelling; still checked at compile time')]
    return Unit(
        name=name, props=['C17', 'C10'],
        functions=['adapter::%s(nrows, ncols, ptr, col, val)' % fn],
        desc=desc,
        cuts={'body': Cut(ZC, r'\b%s\(size_t nrows, size_t ncols, const Ptr \*ptr, const Col \*col, const Val \*val\)\s*(?=\{)' % fn,
                          rules=rules)},
        template=ZC_PRELUDE + sig_types + r'''
crs *f_zc(size_t nrows, size_t ncols, const ZPtr *ptr, const ZCol *col, const Val *val, crs *hdr)
/* caller's part: a CRS triple; only ptr[0..nrows] is ever looked at */
__CPROVER_requires(nrows <= NMAX && g_thrown == 0)
__CPROVER_requires(__CPROVER_is_fresh(ptr, (nrows + 1) * sizeof(ZPtr)))
__CPROVER_requires(ptr[nrows] >= 0)
__CPROVER_requires(__CPROVER_is_fresh(hdr, sizeof(crs)))
__CPROVER_assigns(g_allocs, __CPROVER_object_whole(hdr))
__CPROVER_frees()
/* the result is the new matrix header ... */
__CPROVER_ensures(__CPROVER_return_value == hdr)
/* ... that aliases the caller's arrays (zero copy) */
__CPROVER_ensures((const void *)__CPROVER_return_value->ptr == (const void *)ptr)
__CPROVER_ensures((const void *)__CPROVER_return_value->col == (const void *)col)
__CPROVER_ensures((const void *)__CPROVER_return_value->val == (const void *)val)
/* ... never owns them */
__CPROVER_ensures(__CPROVER_return_value->own_data == 0)
/* ... and has the dimensions given; nnz is ptr[nrows], 0 for the empty matrix */
__CPROVER_ensures(__CPROVER_return_value->nrows == nrows && __CPROVER_return_value->ncols == ncols)
__CPROVER_ensures(__CPROVER_return_value->nnz == (nrows == 0 ? (size_t)0 : (size_t)ptr[nrows]))
/* nothing but the header is allocated, nothing is deleted, nothing is thrown */
__CPROVER_ensures(g_allocs == __CPROVER_old(g_allocs) + 1 && g_deletes == __CPROVER_old(g_deletes))
__CPROVER_ensures(g_thrown == 0)
{
#define Ptr ZPtr
#define Col ZCol
/*@CUT:body@*/
#undef Ptr
#undef Col
}
void h_f_zc(void)
{
  size_t nrows, ncols; const ZPtr *ptr; const ZCol *col; const Val *val; crs *hdr;
  f_zc(nrows, ncols, ptr, col, val, hdr);
}
''',
        enforce='f_zc', entry='h_f_zc', mode='loopfree', model='uf', obj_bits=10,
        variants=variants,
        assumptions=A_ZC, replay='ioadapt',
        not_decided=['shared_ptr reference counting / destruction order', 'Eigen, uBlas, crs_builder adapters'],
    )


zero_copy = zero_copy_unit(
    'adapt_zero_copy', 'zero_copy',
    '/* template <Ptr, Col, Val> at 8-byte integral Ptr = Col (ZT 0: long, 1: unsigned long); the matrix is crs<Val, ptrdiff_t, ptrdiff_t> */\n'
    '#if ZT == 1\ntypedef unsigned long ZPtr; typedef unsigned long ZCol;\n#else\ntypedef long ZPtr; typedef long ZCol;\n#endif\n',
    r'auto A = std_make_shared< crs<Val> >\(\);', [{'ZT': 0}, {'ZT': 1}],
    'zero_copy: result aliases the caller\'s ptr/col/val, own_data == false, dims as given, nnz = ptr[nrows] (0 if empty); allocates only the header, frees nothing',
    True)

zero_copy_direct = zero_copy_unit(
    'adapt_zero_copy_direct', 'zero_copy_direct',
    '/* template <Ptr, Col, Val>; the matrix is crs<Val, Col, Ptr> with the same index types */\n'
    'typedef ptr_type ZPtr; typedef col_type ZCol;\n',
    r'auto A = std_make_shared< crs<Val, Col, Ptr> >\(\);', [{'IT': 0}, {'IT': 1}, {'IT': 2}],
    'zero_copy_direct: result aliases the caller\'s ptr/col/val (index types int, long, size_t), own_data == false, dims as given, nnz = ptr[nrows] (0 if empty); allocates only the header, frees nothing',
    False)


def square_wrapper(name, fn):
    """zero_copy(n, ptr, col, val) = zero_copy(n, n, ptr, col, val): the callee contract is used at the call"""
    return Unit(
        name=name, props=['C17', 'C10'],
        functions=['adapter::%s(n, ptr, col, val)' % fn],
        desc='%s(n, ...) forwards to the (n, n, ...) overload with the same arrays' % fn,
        cuts={'body': Cut(ZC, r'\b%s\(size_t n, const Ptr \*ptr, const Col \*col, const Val \*val\)\s*(?=\{)' % fn,
                          rules=[Rule(r'\breturn %s\(' % fn, 'return f_zc_5(hdr, ', 1, why='overload -> C name of the 5-argument overload')])},
        template=ZC_PRELUDE + r'''
typedef ptr_type ZPtr; typedef col_type ZCol;
/* contract of the 5-argument overload (units adapt_zero_copy / adapt_zero_copy_direct), used at the call */
crs *f_zc(size_t nrows, size_t ncols, const ZPtr *ptr, const ZCol *col, const Val *val, crs *hdr)
__CPROVER_requires(nrows <= NMAX && g_thrown == 0)
__CPROVER_requires(__CPROVER_is_fresh(ptr, (nrows + 1) * sizeof(ZPtr)))
__CPROVER_requires(ptr[nrows] >= 0)
__CPROVER_requires(__CPROVER_is_fresh(hdr, sizeof(crs)))
__CPROVER_assigns(g_allocs, __CPROVER_object_whole(hdr))
__CPROVER_frees()
__CPROVER_ensures(__CPROVER_return_value == hdr)
__CPROVER_ensures((const void *)__CPROVER_return_value->ptr == (const void *)ptr)
__CPROVER_ensures((const void *)__CPROVER_return_value->col == (const void *)col)
__CPROVER_ensures((const void *)__CPROVER_return_value->val == (const void *)val)
__CPROVER_ensures(__CPROVER_return_value->own_data == 0)
__CPROVER_ensures(__CPROVER_return_value->nrows == nrows && __CPROVER_return_value->ncols == ncols)
__CPROVER_ensures(__CPROVER_return_value->nnz == (nrows == 0 ? (size_t)0 : (size_t)ptr[nrows]))
__CPROVER_ensures(g_allocs == __CPROVER_old(g_allocs) + 1 && g_deletes == __CPROVER_old(g_deletes))
__CPROVER_ensures(g_thrown == 0)
;
#define f_zc_5(hdr, a, b, c, d, e) f_zc(a, b, c, d, e, hdr)
crs *f_zc_sq(size_t n, const ZPtr *ptr, const ZCol *col, const Val *val, crs *hdr)
__CPROVER_requires(n <= NMAX && g_thrown == 0)
__CPROVER_requires(__CPROVER_is_fresh(ptr, (n + 1) * sizeof(ZPtr)))
__CPROVER_requires(ptr[n] >= 0)
__CPROVER_requires(__CPROVER_is_fresh(hdr, sizeof(crs)))
__CPROVER_assigns(g_allocs, __CPROVER_object_whole(hdr))
__CPROVER_frees()
__CPROVER_ensures(__CPROVER_return_value == hdr)
__CPROVER_ensures((const void *)__CPROVER_return_value->ptr == (const void *)ptr)
__CPROVER_ensures((const void *)__CPROVER_return_value->col == (const void *)col)
__CPROVER_ensures((const void *)__CPROVER_return_value->val == (const void *)val)
__CPROVER_ensures(__CPROVER_return_value->own_data == 0)
/* square: rows = cols = n */
__CPROVER_ensures(__CPROVER_return_value->nrows == n && __CPROVER_return_value->ncols == n)
__CPROVER_ensures(__CPROVER_return_value->nnz == (n == 0 ? (size_t)0 : (size_t)ptr[n]))
__CPROVER_ensures(g_allocs == __CPROVER_old(g_allocs) + 1 && g_deletes == __CPROVER_old(g_deletes))
__CPROVER_ensures(g_thrown == 0)
{
/*@CUT:body@*/
}
void h_f_zc_sq(void)
{
  size_t n; const ZPtr *ptr; const ZCol *col; const Val *val; crs *hdr;
  f_zc_sq(n, ptr, col, val, hdr);
}
''',
        enforce='f_zc_sq', entry='h_f_zc_sq', replace=['f_zc'], mode='loopfree', model='uf', obj_bits=10,
        variants=[{'IT': 0}, {'IT': 1}],
        assumptions=A_ZC, replay='ioadapt',
    )


zero_copy_sq = square_wrapper('adapt_zero_copy_square', 'zero_copy')
zero_copy_direct_sq = square_wrapper('adapt_zero_copy_direct_square', 'zero_copy_direct')
zero_copy_sq.variants = [{'IT': 0}]

# ------------------------------------------------------------------------------------------
# crs::free_data / ~crs : delete[] exactly when own_data
# ------------------------------------------------------------------------------------------
FREE_DATA_CONTRACT = r'''
__CPROVER_requires(__CPROVER_is_fresh(self, sizeof(crs)))
/* the three arrays of this matrix are the tracked ones; nothing was deleted so far */
__CPROVER_requires(g_trk_ptr == self->ptr && g_trk_col == self->col && g_trk_val == self->val)
__CPROVER_requires(g_deletes == 0 && !g_del_ptr && !g_del_col && !g_del_val)
__CPROVER_assigns(self->ptr, self->col, self->val, g_deletes, g_del_ptr, g_del_col, g_del_val)
__CPROVER_frees()
/* borrowed data (zero-copy adapters): nothing is deleted, nothing changes */
__CPROVER_ensures(__CPROVER_old(self->own_data) || (g_deletes == 0 && !g_del_ptr && !g_del_col && !g_del_val
                   && self->ptr == __CPROVER_old(self->ptr) && self->col == __CPROVER_old(self->col) && self->val == __CPROVER_old(self->val)))
/* owned data: every non-null array is deleted exactly once (no leak) ... */
__CPROVER_ensures(!__CPROVER_old(self->own_data) || (
    g_del_ptr == (__CPROVER_old(self->ptr) != 0) && g_del_col == (__CPROVER_old(self->col) != 0) && g_del_val == (__CPROVER_old(self->val) != 0)
    && g_deletes == (unsigned)(__CPROVER_old(self->ptr) != 0) + (unsigned)(__CPROVER_old(self->col) != 0) + (unsigned)(__CPROVER_old(self->val) != 0)))
/* ... and no dangling pointer is left behind (a second free_data / the destructor deletes nothing again) */
__CPROVER_ensures(!__CPROVER_old(self->own_data) || (self->ptr == 0 && self->col == 0 && self->val == 0))
/* the distinct arrays case: deletes counted per array (aliasing arrays would be a double delete) */
__CPROVER_ensures(self->nrows == __CPROVER_old(self->nrows) && self->ncols == __CPROVER_old(self->ncols)
                  && self->nnz == __CPROVER_old(self->nnz) && self->own_data == __CPROVER_old(self->own_data))
'''

free_data = Unit(
    name='adapt_crs_free_data', props=['C17', 'C10'],
    functions=['backend::crs::free_data()'],
    desc='free_data deletes ptr/col/val exactly when own_data (each once, pointers nulled); with own_data == false (zero-copy) nothing is deleted or changed',
    cuts={'body': Cut(BUILTIN, r'void free_data\(\)\s*(?=\{)', rules=member_rules())},
    template=ZC_PRELUDE + r'''
void f_free_data(crs *self)
''' + FREE_DATA_CONTRACT + r'''
{
/*@CUT:body@*/
}
void h_f_free_data(void) { crs *self; f_free_data(self); }
''',
    enforce='f_free_data', entry='h_f_free_data', mode='loopfree', model='uf', obj_bits=10,
    assumptions=A_ZC, replay='ioadapt',
)
# the own_data == true branch needs distinct non-null arrays to make every line reachable: both are in the domain

crs_dtor = Unit(
    name='adapt_crs_dtor', props=['C17', 'C10'],
    functions=['backend::crs::~crs()'],
    desc='~crs() = free_data(): same ownership contract',
    cuts={'body': Cut(BUILTIN, r'~crs\(\)\s*(?=\{)',
                      rules=[Rule(r'\bfree_data\(\);', 'f_free_data(self);', None, why='R-member-call')])},
    template=ZC_PRELUDE + r'''
void f_free_data(crs *self)
''' + FREE_DATA_CONTRACT + r''';
void f_crs_dtor(crs *self)
''' + FREE_DATA_CONTRACT + r'''
{
/*@CUT:body@*/
}
void h_f_crs_dtor(void) { crs *self; f_crs_dtor(self); }
''',
    enforce='f_crs_dtor', entry='h_f_crs_dtor', replace=['f_free_data'], mode='loopfree', model='uf', obj_bits=10,
    assumptions=A_ZC, replay='ioadapt',
)


# ------------------------------------------------------------------------------------------
# bounded: the copying constructors of backend::crs
# ------------------------------------------------------------------------------------------
A_CTOR = [
    'A-bound: nothing is claimed beyond the stated size bound',
    'A-new: operator new[] never returns null; fresh arrays have nondeterministic content',
    'A-std: std::begin/std::end/std::distance on the ranges and std::partial_sum are prelude stubs',
    'A-omp: OpenMP pragmas dropped; loops verified sequentially (each iteration writes its own row only)',
    'A-cut: a path ends at a VIOLATED safety.idx obligation (assert first, then assume the same condition): the verdict is unchanged, secondary failures on an already failing path are not listed',
    'A-inst: index types per variant: destination crs<.., col_type, ptr_type> int or long (IT), source range element types int or long (RT); values int32 (only copied)',
]
# subscript obligations of the constructor units end the path when VIOLATED (A-cut, as in prelude/absfile.h):
# one defect otherwise shows up as ~50 secondary pointer-check failures, each replayed natively
IDX_CUT = r"""
static inline ptrdiff_t cxc_idx_cut(ptrdiff_t e, size_t len)
{
#if defined(CXC_CBMC) && !defined(CXC_CANARY)
  __CPROVER_assert(e >= 0 && (size_t)e < len, "safety.idx. subscript within the logical length of the array");
  __CPROVER_assume(e >= 0 && (size_t)e < len);
#endif
  return e;
}
#undef IDX
#define IDX(e, len, what) cxc_idx_cut((ptrdiff_t)(e), (size_t)(len))
"""
CTOR_TYPES = r"""
/* IT: index types of the constructed matrix (0 long, 1 int); RT: element types of the source ranges */
#ifndef IT
#define IT 0
#endif
#ifndef RT
#define RT 0
#endif
#if IT == 1
#define CXC_PTR_T int
#define CXC_COL_T int
#endif
#define MODEL_INT32 1
"""
INIT_RULE = Rule(r'(\w+)\(((?:\w+\(\w+\))|\w+)\),?', r'self->\1 = \2;', 7, why='member initialiser list -> assignments')
NEW_RULES = [Rule(r'NEW\(ptr_type,', 'NEW_PTR(ptr_type,', 1), Rule(r'NEW\((col|val)_type,', r'NEW_NNZ(\1_type,', 2)]

range_ctor = Unit(
    name='adapt_crs_range_ctor', props=['C17', 'C10'],
    functions=['backend::crs::crs(nrows, ncols, ptr_range, col_range, val_range)'],
    desc='range constructor: throws exactly when a range has the wrong length; otherwise rows/cols/nnz/ptr/col/val of the new '
         '(owning, freshly allocated) matrix equal the source ranges entry by entry; sources unchanged',
    cuts={'init': Cut(BUILTIN, r'const ValRange &val_range\s*\) :', kind='region', begin_exclusive=True, end=r'\{', rules=[INIT_RULE]),
          'body': Cut(BUILTIN, r'crs\(size_t nrows, size_t ncols,\s*const PtrRange &ptr_range,\s*const ColRange &col_range,\s*'
                               r'const ValRange &val_range\s*\)\s*:[^{]*(?=\{)',
                      rules=member_rules(['nnz', 'ptr', 'col', 'val', 'own_data']) + NEW_RULES + [   # nrows, ncols: the parameters shadow the members
                         
                          Rule(r'\bauto (\w+) = ptr_range', r'RP \1 = ptr_range', '+', why='R-auto: element type of the pointer range'),
                          Rule(r'\b(ptr|col|val)_range\[', r'\1_range.p[', '+', why='range subscript'),
                          IdxRule(r'(ptr|col|val)_range\.p', r'\1_range.len', '+'),
                          IdxRule(r'self->ptr', 'nrows + 1', '+'),
                          IdxRule(r'self->col|self->val', 'self->nnz', '+'),
                      ])},
    template=CTOR_TYPES + BOUNDED_PRELUDE + IDX_CUT + r"""
#if RT == 1
typedef int RP; typedef int RC;
#else
typedef long RP; typedef long RC;
#endif
typedef struct { const RP *p; size_t len; } rng_P;
typedef struct { const RC *p; size_t len; } rng_C;
typedef struct { const V *p; size_t len; } rng_V;
#define std_begin(r) ((r).p)
#define std_end(r) ((r).p + (r).len)
#define std_distance(a, b) ((ptrdiff_t)((b) - (a)))
static void f_crs_range_ctor(crs *self, size_t nrows, size_t ncols, const rng_P *ptr_range_p, const rng_C *col_range_p, const rng_V *val_range_p)
{
#define ptr_range (*ptr_range_p)
#define col_range (*col_range_p)
#define val_range (*val_range_p)
/*@CUT:init@*/
/*@CUT:body@*/
#undef ptr_range
#undef col_range
#undef val_range
}
size_t w_nrows, w_ncols, w_plen, w_clen, w_vlen; RP w_ptr[CAP_PTR]; RC w_col[CAP_NNZ]; V w_val[CAP_NNZ];
void h_range_ctor(void)
{
  size_t nrows, ncols;
  RP pr[CAP_PTR], pr0[CAP_PTR]; RC cr[CAP_NNZ], cr0[CAP_NNZ]; V vr[CAP_NNZ], vr0[CAP_NNZ];
  rng_P P; rng_C C_; rng_V V_;
  P.p = pr; C_.p = cr; V_.p = vr;
  REQUIRES(nrows <= NMAX && ncols <= NMAX && P.len <= CAP_PTR && C_.len <= CAP_NNZ && V_.len <= CAP_NNZ);
  /* source content "in range": a CRS triple when the pointer range has the right length */
  _Bool ptr_ok = P.len == nrows + 1;
  if (ptr_ok) {
    REQUIRES(pr[0] == 0 && pr[nrows] <= ZMAX);
    for (size_t i = 0; i < NMAX; ++i) if (i < nrows) REQUIRES(pr[i] <= pr[i + 1]);
  }
  for (size_t j = 0; j < CAP_NNZ; ++j) REQUIRES(cr[j] >= 0 && (size_t)cr[j] < NMAX);
  for (size_t i = 0; i < CAP_PTR; ++i) { pr0[i] = pr[i]; w_ptr[i] = pr[i]; }
  for (size_t j = 0; j < CAP_NNZ; ++j) { cr0[j] = cr[j]; vr0[j] = vr[j]; w_col[j] = cr[j]; w_val[j] = vr[j]; }
  w_nrows = nrows; w_ncols = ncols; w_plen = P.len; w_clen = C_.len; w_vlen = V_.len;
  crs self;                                  /* raw storage: every field is set by the constructor */
  f_crs_range_ctor(&self, nrows, ncols, &P, &C_, &V_);
  _Bool sizes_ok = ptr_ok && C_.len == (size_t)pr0[nrows] && V_.len == C_.len;
  ENSURES(!g_cap_exceeded, "bound artefact: allocation within verification capacity");
  ENSURES((g_thrown != 0) == !sizes_ok, "throws exactly when a range has the wrong length (ptr: nrows+1, col/val: ptr[nrows])");
  if (!g_thrown && sizes_ok) {
    ENSURES(self.nrows == nrows && self.ncols == ncols && self.nnz == (size_t)pr0[nrows] && self.own_data,
            "rows, cols, nnz as in the source; the new matrix owns its arrays");
    ENSURES((const void *)self.ptr != (const void *)pr && (const void *)self.col != (const void *)cr && (const void *)self.val != (const void *)vr,
            "the arrays are copies (own storage)");
    _Bool same = 1;
    for (size_t i = 0; i < CAP_PTR; ++i) if (i <= nrows) { if (self.ptr[i] != pr0[i]) same = 0; }
    ENSURES(same, "ptr equals the source pointer range entry by entry");
    same = 1;
    for (size_t j = 0; j < CAP_NNZ; ++j) if (j < (size_t)pr0[nrows]) { if (self.col[j] != cr0[j] || self.val[j] != vr0[j]) same = 0; }
    ENSURES(same, "columns and values equal the source ranges entry by entry");
  }
  _Bool frame = 1;
  for (size_t i = 0; i < CAP_PTR; ++i) if (pr[i] != pr0[i]) frame = 0;
  for (size_t j = 0; j < CAP_NNZ; ++j) if (cr[j] != cr0[j] || vr[j] != vr0[j]) frame = 0;
  ENSURES(frame, "frame: the source ranges are not modified");
  CANARY("harness.end");
}
""",
    entry='h_range_ctor', mode='unwound', unwind='max(ZMAX,NMAX)+4', model='int32',
    variants=[{'NMAX': 3, 'ZMAX': 4, 'IT': 0, 'RT': 0}, {'NMAX': 3, 'ZMAX': 4, 'IT': 1, 'RT': 0}, {'NMAX': 3, 'ZMAX': 4, 'IT': 0, 'RT': 1}],
    bound_text='all sources with rows, cols <= 3 and nnz <= 4, range lengths arbitrary (<= capacity), pattern and values symbolic; index types long/long, int<-long, long<-int',
    assumptions=A_CTOR, replay='ioadapt', timeout=300,
    witness=['w_nrows', 'w_ncols', 'w_plen', 'w_clen', 'w_vlen', 'w_ptr', 'w_col', 'w_val'],
)

ROW_IT = r"""
/* backend::crs::row_iterator (builtin.hpp): members in declaration order; its member functions are cut below */
typedef struct { const col_type *m_col; const col_type *m_end; const val_type *m_val; } row_iterator;
/* row_iterator(col, end, val) : m_col(col), m_end(end), m_val(val) {} */
static row_iterator row_iterator_ctor(const col_type *col, const col_type *end, const val_type *val)
{ row_iterator it; it.m_col = col; it.m_end = end; it.m_val = val; return it; }
static row_iterator crs_row_begin(const crs *self, size_t row)
{
/*@CUT:row_begin@*/
}
/* members of the iterator inside its member functions */
#define m_col (it->m_col)
#define m_end (it->m_end)
#define m_val (it->m_val)
static _Bool rit_ok(const row_iterator *it)
{
/*@CUT:it_bool@*/
}
static void rit_inc(row_iterator *it)
{
/*@CUT:it_inc@*/
}
static col_type rit_col(const row_iterator *it)
{
/*@CUT:it_col@*/
}
static val_type rit_value(const row_iterator *it)
{
/*@CUT:it_value@*/
}
#undef m_col
#undef m_end
#undef m_val
"""
ITER_CUTS = {
    'row_begin': Cut(BUILTIN, r'row_iterator row_begin\(size_t row\) const\s*(?=\{)',
                     rules=member_rules(['ptr', 'col', 'val']) + [
                         Rule(r'return row_iterator\(', r'return row_iterator_ctor(', 1, why='constructor call -> C function (member initialisers in order)'),
                         IdxRule(r'self->ptr', 'self->nrows + 1', '+')]),
    'it_bool': Cut(BUILTIN, r'operator bool\(\) const\s*(?=\{)'),
    'it_inc': Cut(BUILTIN, r'row_iterator& operator\+\+\(\)\s*(?=\{)',
                  rules=[Rule(r'return \*this;', 'return;', 1, why='reference to self not needed in the C view')]),
    'it_col': Cut(BUILTIN, r'col_type col\(\) const\s*(?=\{)'),
    'it_value': Cut(BUILTIN, r'val_type value\(\) const\s*(?=\{)'),
}

copy_ctor = Unit(
    name='adapt_crs_rowiter_ctor', props=['C17', 'C10'],
    functions=['backend::crs::crs(const Matrix &A) (generic row-iterator copy)', 'crs::row_begin', 'crs::row_iterator::{operator bool, operator++, col, value}', 'crs::scan_row_sizes'],
    desc='generic constructor over row iterators (source: a crs matrix, any pattern): the new owning matrix has the rows, cols, '
         'nnz, ptr, col, val of the source entry by entry and is well formed; the source is unchanged',
    cuts=dict(crs_member_cuts(), **dict(ITER_CUTS,
        init=Cut(BUILTIN, r'crs\(const Matrix &A\) :', kind='region', begin_exclusive=True, end=r'\{', rules=[INIT_RULE]),
        body=Cut(BUILTIN, r'crs\(const Matrix &A\)\s*:[^{]*(?=\{)',
                 rules=[Rule(r'for\(auto (\w+) = row_begin\((\w+), ([^;]+)\); \1; \+\+\1\)',
                             r'for(row_iterator \1 = crs_row_begin(&\2, \3); rit_ok(&\1); rit_inc(&\1))', '+', why='R-iter: row iterator protocol'),
                        Rule(r'\b(\w+)\.col\(\)', r'rit_col(&\1)', '+', why='R-iter'),
                        Rule(r'\b(\w+)\.value\(\)', r'rit_value(&\1)', '+', why='R-iter'),
                        Rule(r'(?<![\w.>])scan_row_sizes\(\)', 'crs_scan_row_sizes(self)', 1, why='R-member-call')]
                 + member_rules() + NEW_RULES + [
                     IdxRule(r'self->ptr', 'self->nrows + 1', '+'),
                     IdxRule(r'self->col|self->val', 'self->nnz', '+')]))),
    template=CTOR_TYPES + BOUNDED_PRELUDE + IDX_CUT + CRS_MEMBERS_C + ROW_IT + r"""
WITNESS_CRS(A)
static void f_crs_copy_ctor(crs *self, const crs *A_p)
{
#define A (*A_p)
/*@CUT:init@*/
/*@CUT:body@*/
#undef A
}
void h_copy_ctor(void)
{
  crs *A = crs_input();
  REQUIRES(crs_wf(A, NMAX, NMAX, ZMAX) && crs_vals_small(A, 7));
  MIRROR_CRS(A, A);
  crs_snap s; crs_snapshot(A, &s);
  crs self;                                  /* raw storage: every field is set by the constructor */
  f_crs_copy_ctor(&self, A);
  ENSURES(!g_cap_exceeded, "bound artefact: allocation within verification capacity");
  ENSURES(!g_thrown, "no exception on a well-formed source");
  ENSURES(self.nrows == A->nrows && self.ncols == A->ncols && self.nnz == (size_t)A->ptr[A->nrows] && self.own_data,
          "rows, cols, nnz as in the source; the new matrix owns its arrays");
  ENSURES(self.ptr != A->ptr && self.col != A->col && self.val != A->val, "the arrays are copies (own storage)");
  ENSURES(crs_wf(&self, NMAX, NMAX, ZMAX), "the copy is a well-formed CRS matrix");
  _Bool same = 1;
  for (size_t i = 0; i < CAP_PTR; ++i) if (i <= A->nrows) { if (self.ptr[i] != A->ptr[i]) same = 0; }
  ENSURES(same, "ptr equals the source row pointers entry by entry");
  same = 1;
  for (size_t j = 0; j < CAP_NNZ; ++j) if (j < (size_t)A->ptr[A->nrows]) { if (self.col[j] != A->col[j] || self.val[j] != A->val[j]) same = 0; }
  ENSURES(same, "columns and values equal the source entry by entry (same order within each row)");
  ENSURES(crs_unchanged(A, &s), "frame: the source matrix is not modified");
  CANARY("harness.end");
}
""",
    entry='h_copy_ctor', mode='unwound', unwind='max(ZMAX,NMAX)+4', model='int32',
    variants=[{'NMAX': 3, 'ZMAX': 4, 'IT': 0}, {'NMAX': 3, 'ZMAX': 4, 'IT': 1}],
    bound_text='all source matrices with rows, cols <= 3 and nnz <= 4, pattern (unsorted, duplicates, empty rows) and values symbolic; index types long and int',
    assumptions=A_CTOR, replay='ioadapt', timeout=300,
    witness=['w_A_nrows', 'w_A_ncols', 'w_A_ptr', 'w_A_col', 'w_A_val'],
    not_decided=['sources other than backend::crs (tuple adapter, Eigen, uBlas, crs_builder row iterators)'],
)
# members of crs that this unit does not call are still cut (shared template): their canaries are unreachable by construction
copy_ctor.cover_exempt = r'set_size|set_nonzeros'

for _u in [zero_copy, zero_copy_direct, zero_copy_sq, zero_copy_direct_sq, free_data, crs_dtor, range_ctor, copy_ctor]:
    _u.replay_asan = True     # one replay binary for the whole family (built with ASan/UBSan)

UNITS = [zero_copy, zero_copy_direct, zero_copy_sq, zero_copy_direct_sq, free_data, crs_dtor, range_ctor, copy_ctor]
