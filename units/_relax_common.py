"""Shared C view for the relaxation units (C09 schedules, C06 sweeps):
std::vector members / locals as constant-capacity arrays with a logical length,
the OpenMP parallel region as a sequential loop over thread ids (A-omp), the crs
row iterator as the index loop it is defined to be (builtin.hpp crs::row_iterator)."""
from cxc.extract import Cut, Rule, UF, Loop, IdxRule
from _common import BOUNDED_PRELUDE, member_rules

GS = 'amgcl/relaxation/gauss_seidel.hpp'
ILUS = 'amgcl/relaxation/detail/ilu_solve.hpp'
SPAI0 = 'amgcl/relaxation/spai0.hpp'
ILU0 = 'amgcl/relaxation/ilu0.hpp'

A_RELAX = [
    'A-bound: nothing is claimed beyond the stated size bound',
    'A-omp: "#pragma omp parallel { tid = omp_get_thread_num(); ... }" is executed once for every tid in [0, omp_get_max_threads()); the body for one tid touches only its own [tid] slots of the shared tables (frame obligation of the per-thread units), so the region is verified per thread id / as a sequential loop over thread ids; "#pragma omp barrier" separates the levels; the OpenMP runtime is trusted to provide exactly nthreads threads',
    'A-vec: std::vector<T> is a constant-capacity array plus logical length; push_back beyond the verification capacity is a bound artefact; reserve() has no observable effect (a negative argument is reported)',
    'A-std: std::partial_sum / std::rotate / std::min / std::max are prelude stubs (3-line loops)',
    'A-iter: for(auto a = row_begin(A,i); a; ++a) with a.col()/a.value() is the index loop over A.ptr[i]..A.ptr[i+1] (definition of crs::row_iterator)',
]

# ---------------------------------------------------------------------------- C text
VEC_PRELUDE = BOUNDED_PRELUDE + r'''
#ifndef NT
#define NT 2
#endif
/* std::vector<T> members: capacity-sized storage + logical length (A-vec) */
typedef struct { ptrdiff_t beg, end; } task;
static inline task mk_task(ptrdiff_t beg, ptrdiff_t end) { task t; t.beg = beg; t.end = end; return t; }   /* task(beg, end) : beg(beg), end(end) {} */
#define CAP_TASK (NMAX + 1)
#define CAP_VROW (NMAX + 2)
#define CAP_VNNZ (ZMAX + 1)
typedef struct { size_t n; task d[CAP_TASK]; } vec_task;
typedef struct { size_t n; ptrdiff_t d[CAP_VROW]; } vec_row;
typedef struct { size_t n; ptrdiff_t d[CAP_VNNZ]; } vec_nzi;
typedef struct { size_t n; V d[CAP_VNNZ]; } vec_nzv;
typedef struct { size_t n; V d[CAP_VROW]; } vec_rowv;
/* thread-specific storage of parallel_sweep<> / sptr_solve<> (members in declaration order) */
typedef struct {
  int nthreads;
  vec_task tasks[NT];
  vec_row ptr[NT];
  vec_nzi col[NT];
  vec_nzv val[NT];
  vec_row ord[NT];
  vec_rowv D[NT];
  size_t D_len;          /* D.size(): 0 until D.resize(nthreads) */
} sched;
#define VCAP(v) (sizeof((v).d) / sizeof((v).d[0]))
#define VPUSH(v, ...) ((v).n < VCAP(v) ? (void)((v).d[(v).n] = (__VA_ARGS__), (v).n++) : (void)(g_cap_exceeded = 1))
static inline void cxc_reserve(ptrdiff_t n)
{
#if defined(CXC_CBMC) && !defined(CXC_CANARY)
  __CPROVER_assert(n >= 0, "safety.reserve. std::vector::reserve called with a non-negative size (else length_error)");
#endif
  (void)n;
}
#define VRESERVE(v, n) cxc_reserve((ptrdiff_t)(n))
/* D.resize(nthreads) on the outer vector: nthreads empty vectors */
#define VRESIZE_D(s, k) do { (s)->D_len = (size_t)(k); for (int t_ = 0; t_ < NT; ++t_) (s)->D[t_].n = 0; } while (0)
/* std::vector<ptrdiff_t> name(n, x) as a local: array + logical length */
#ifndef CAP_LOC
#define CAP_LOC ((NMAX + 2) > NT ? (NMAX + 2) : NT)
#endif
typedef ptrdiff_t loc_vec[CAP_LOC];
static size_t vec_init(ptrdiff_t *p, ptrdiff_t n, ptrdiff_t x)
{
  size_t m = (size_t)n;
  if (m > CAP_LOC) { g_cap_exceeded = 1; m = CAP_LOC; }
  for (size_t i = 0; i < CAP_LOC; ++i) if (i < m) p[i] = x;
  return m;
}
/* backend::row_nonzeros_impl< crs >::get (builtin.hpp): A.ptr[row + 1] - A.ptr[row] */
#define row_nonzeros(A, j) ((A).ptr[IDX((j) + 1, rows(A) + 1, "A.ptr")] - (A).ptr[IDX((j), rows(A) + 1, "A.ptr")])
static void sched_init(sched *s, int nthreads)
{
  s->nthreads = nthreads; s->D_len = 0;
  for (int t = 0; t < NT; ++t) { s->tasks[t].n = 0; s->ptr[t].n = 0; s->col[t].n = 0; s->val[t].n = 0; s->ord[t].n = 0; s->D[t].n = 0; }
}
'''

# ---------------------------------------------------------------------------- rules
SCHED_MEMBERS = ['nthreads', 'tasks', 'ptr', 'col', 'val', 'ord', 'D']


def omp_region_rules(count):
    """'#pragma omp parallel {' -> loop over the thread ids chosen by the template
    (OMP_NCALLS iterations, iteration k runs thread id OMP_TID(k)); early: before the generic pragma drop"""
    return [
        Rule(r'^#pragma omp parallel\n(\s*)\{',
             r'/* A-omp: parallel region body, once per thread id */\n\1for (int omp_k = 0; omp_k < OMP_NCALLS; ++omp_k) {',
             count, early=True, why='R-omp-region'),
        Rule(r'= thread_id\(\);', '= OMP_TID(omp_k);', count, why='R-omp-tid'),
    ]


def row_iter_rules(n_loops, n_col, n_val):
    """crs row iterator -> index loop (A-iter)"""
    return [
        Rule(r'for\s*\(auto a = (?:backend::)?row_begin\(A, i\); a; \+\+a\)',
             'for (ptrdiff_t a = A.ptr[i]; a < A.ptr[i + 1]; ++a)', '+' if n_loops else None, why='R-iter', early=True),
        Rule(r'\ba\.col\(\)', 'A.col[a]', '+' if n_col else None, why='R-iter', early=True),
        Rule(r'\ba\.value\(\)', 'A.val[a]', '+' if n_val else None, why='R-iter', early=True),
    ]


def local_vec_rules(names):
    """std::vector<ptrdiff_t> x(n, v); -> array + logical length; begin()/end()"""
    alt = '|'.join(names)
    return [
        Rule(r'std_vector<ptrdiff_t> (%s)\((?P<n>[^;,]+),(?P<x>[^;,]+)\);' % alt,
             r'loc_vec \1; const size_t \1_n = vec_init(\1, \g<n>,\g<x>);', len(names), why='R-vec-local'),
        Rule(r'\b(%s)\.begin\(\)' % alt, r'\1', None, why='R-vec-local'),
        Rule(r'\b(%s)\.end\(\)' % alt, r'(\1 + \1_n)', None, why='R-vec-local'),
    ]


def member_vec_rules(n_push, n_reserve, n_size, rangefor=True, taskctor=True):
    rs = []
    if taskctor:
        rs += [Rule(r'\btask\((?P<a>[^,()]+),(?P<b>[^,()]+)\)', r'mk_task(\g<a>,\g<b>)', 1, why='R-ctor task(beg,end)')]
    rs += [
        Rule(r'(self->\w+\[tid\])\.push_back\((.*)\);', r'VPUSH(\1, \2);', n_push, why='R-vec-member'),
        Rule(r'(self->\w+\[tid\])\.reserve\((.*)\);', r'VRESERVE(\1, \2);', n_reserve, why='R-vec-member'),
        Rule(r'(self->\w+\[tid\])\.size\(\)', r'\1.n', n_size, why='R-vec-member'),
    ]
    if rangefor:
        rs += [
            Rule(r'for\(task &t : self->tasks\[tid\]\) \{',
                 r'for (size_t t_i = 0; t_i < self->tasks[tid].n; ++t_i) { task *const t_r = &self->tasks[tid].d[t_i];', 1,
                 why='R-rangefor'),
            Rule(r'\bt\.(beg|end)\b', r't_r->\1', '+', why='R-rangefor'),
        ]
    return rs
