"""Shared template fragments / rules for the coarsening units (C04): C views of
std::vector<ptrdiff_t> / std::vector<char> locals and of the aggregates classes
(plain_aggregates / pointwise_aggregates: count, strong_connection, id).
DATA ONLY: no amgcl algorithm is re-written here; every verified body is cut from /repo."""
from cxc.extract import Cut, Rule, IdxRule

PLAIN = 'amgcl/coarsening/plain_aggregates.hpp'
POINTWISE = 'amgcl/coarsening/pointwise_aggregates.hpp'
TENTATIVE = 'amgcl/coarsening/tentative_prolongation.hpp'
SMOOTHED = 'amgcl/coarsening/smoothed_aggregation.hpp'
BUILTIN = 'amgcl/backend/builtin.hpp'

COARSEN_PRELUDE = r'''
/* ---------------------------------------------------------------- std::vector views */
#ifndef CAP_VEC
#define CAP_VEC ((CAP_NNZ) > (CAP_PTR) ? (CAP_NNZ) : (CAP_PTR))
#endif
/* std::vector<ptrdiff_t>: constant-capacity storage (bound artefact, exceeding it sets
 * g_cap_exceeded = tool error), logical length n.  Storage beyond n is nondeterministic. */
typedef struct { ptrdiff_t *p; size_t n; } vec_pd;
static vec_pd vec_pd_new(void)                 /* std::vector<T> v;  (empty) */
{
  vec_pd v; v.p = (ptrdiff_t *)malloc(sizeof(ptrdiff_t) * CAP_VEC); v.n = 0; return v;
}
static vec_pd vec_pd_new_n(size_t n, ptrdiff_t x)   /* std::vector<T> v(n, x); */
{
  vec_pd v = vec_pd_new();
  if (n > CAP_VEC) { g_cap_exceeded = 1; n = CAP_VEC; }
  for (size_t i = 0; i < CAP_VEC; ++i) if (i < n) v.p[i] = x;
  v.n = n;
  return v;
}
static void vec_pd_reserve(vec_pd *v, size_t n) { (void)v; if (n > CAP_VEC) g_cap_exceeded = 1; }
static void vec_pd_clear(vec_pd *v) { v->n = 0; }
static void vec_pd_push_back(vec_pd *v, ptrdiff_t x)  /* std::vector grows on demand; here: capacity */
{
  if (v->n >= CAP_VEC) { g_cap_exceeded = 1; return; }
  v->p[v->n] = x; v->n = v->n + 1;
}
/* range-based for over a contiguous container:  for(T x : c)  ->  RANGE_FOR(T, x, data, size) */
#define RANGE_FOR(T, x, arr, len) \
  for (size_t x##_it = 0; x##_it < (size_t)(len); ++x##_it) \
    for (T x = (arr)[x##_it], x##_once = 1; x##_once; x##_once = 0)
static size_t std_max_size_t(size_t a, size_t b) { return a < b ? b : a; }   /* std::max<size_t> */

/* ------------------------------------------------- aggregates classes (data members) */
/* plain_aggregates / pointwise_aggregates: size_t count; std::vector<char> strong_connection;
 * std::vector<ptrdiff_t> id;  (declaration order of plain_aggregates.hpp:94-106)          */
typedef struct aggregates {
  size_t count;
  char *strong_connection; size_t sc_n;
  ptrdiff_t *id; size_t id_n;
} aggregates;
typedef aggregates plain_aggregates;
/* std::vector<char>(n) / resize(n) on an empty vector: n value-initialised (zero) elements */
static void aggr_sc_resize(aggregates *a, size_t n)
{
  a->strong_connection = (char *)malloc(CAP_NNZ);
  if (n > CAP_NNZ) { g_cap_exceeded = 1; n = CAP_NNZ; }
  for (size_t j = 0; j < CAP_NNZ; ++j) if (j < n) a->strong_connection[j] = 0;
  a->sc_n = n;
}
static void aggr_id_resize(aggregates *a, size_t n)
{
  a->id = (ptrdiff_t *)malloc(sizeof(ptrdiff_t) * CAP_PTR);
  if (n > CAP_PTR) { g_cap_exceeded = 1; n = CAP_PTR; }
  for (size_t i = 0; i < CAP_PTR; ++i) if (i < n) a->id[i] = 0;
  a->id_n = n;
}
/* input matrix: every row stores exactly one diagonal entry */
static _Bool crs_unique_diag(const crs *A)
{
  for (size_t i = 0; i < NMAX; ++i) if (i < A->nrows) { if (count_in_row(A, i, i) != 1) return 0; }
  return 1;
}
/* ghost: dpos[i] is the position of the stored diagonal entry of row i */
static _Bool crs_diag_at(const crs *A, const ptrdiff_t *dpos)
{
  for (size_t i = 0; i < NMAX; ++i) if (i < A->nrows) {
    if (!(dpos[i] >= A->ptr[i] && dpos[i] < A->ptr[i + 1])) return 0;
    if (A->col[dpos[i]] != (ptrdiff_t)i) return 0;
  }
  return 1;
}
/* no duplicate column inside a row */
static _Bool crs_rows_distinct(const crs *A)
{
  for (size_t i = 0; i < NMAX; ++i) if (i < A->nrows)
    for (size_t j = 0; j < NMAX; ++j) if (j < A->ncols) { if (count_in_row(A, i, j) > 1) return 0; }
  return 1;
}
'''

# static const ptrdiff_t undefined = -1; static const ptrdiff_t removed = -2;
def consts_cut(src):
    return Cut(src, r'static const ptrdiff_t undefined = -1;', kind='region',
               end=r'static const ptrdiff_t removed   = -2;', end_inclusive=True)


# for(T x : container) -> RANGE_FOR(T, x, data, size)
def range_for(var, container, data, size, count=1):
    return Rule(r'for\(ptrdiff_t %s : %s\)' % (var, container),
                'RANGE_FOR(ptrdiff_t, %s, %s, %s)' % (var, data, size), count, why='R-rangefor')


# backend::diagonal(A, invert) (builtin.hpp), inlined from /repo
def diagonal_cut():
    return Cut(BUILTIN, r'std::shared_ptr< numa_vector<V> > diagonal\(const crs<V, C, P> &A, bool invert = false\)\s*(?=\{)',
               rules=[
                   Rule(r'auto dia = std_make_shared< numa_vector<V> >\(n, 0\);', 'V *dia = NEW_PTR(V, n);', 1,
                        why='numa_vector<V>(n, init=false): n uninitialised values'),
                   Rule(r'for\(auto a = A\.row_begin\(i\); a; \+\+a\)',
                        'for(ptrdiff_t a = A.ptr[i], a_end = A.ptr[i+1]; a < a_end; ++a)', 1,
                        why='R-iter: definition of crs::row_iterator (builtin.hpp)'),
                   Rule(r'\ba\.col\(\)', 'A.col[a]', 1, why='R-iter'),
                   Rule(r'\ba\.value\(\)', 'A.val[a]', 1, why='R-iter'),
                   Rule(r'\(\*dia\)\[i\]', 'dia[IDX(i, n, "dia")]', 1),
               ])


DIAGONAL_C = r'''
#ifdef MODEL_INT32
int math_inverse(int);   /* bodiless: only on the invert=true path, which no coarsening unit takes */
#endif
static V *f_diagonal(const crs *A_p, _Bool invert)
{
#define A (*A_p)
/*@CUT:diagonal@*/
#undef A
}
/* call with the default argument:  diagonal(A) == diagonal(A, false) */
#define diagonal(A_) f_diagonal(&(A_), 0)
'''
