"""Iterative solvers (amgcl/solver/*.hpp): the body of operator()(A, P, rhs, x) under a
typestate + ghost contract; every backend primitive / preconditioner call is replaced by its
contract (prelude/orch.h).  Inductive (loop contracts): no bound on sizes or iterations.

Serves C01 (truthful residual, iteration budget), C15 (reusable objects: workspace enters
every call undefined; zero rhs; converged initial guess; rhs and A never written) and C05
(Richardson / preonly call sequences)."""
from cxc.extract import Cut, Rule, UF, Loop, UFArgs, Cmp
from cxc.unit import Unit

ORCH = ['bk_residual', 'bk_spmv', 'bk_axpby', 'bk_axpbypcz', 'bk_vmul', 'bk_copy', 'bk_clear',
        'bk_inner_product', 'bk_norm', 'bk_papply']

A_ORCH = [
    'A-abs: the typestate contract of each backend primitive (prelude/orch.h) is justified by its functional contract (C07 units): an output is read only if its own coefficient is non-zero; the link is a documented meta-step',
    'A-callee: the preconditioner object honours the bk_papply contract (reads f, writes x, nothing else)',
    'A-uf: scalars are opaque tokens; + - * / sqrt max norm and < are uninterpreted (any floating-point or exact interpretation, NaN included); only is_zero(0) and !is_zero(1) are assumed',
    'A-drop: ios_saver and the prm.verbose std::cout statement are dropped (stream I/O)',
    'A-count: prm.maxiter <= 2^62 so that ghost call counters do not wrap',
    'A-own: shared_ptr members are plain pointers to distinct vectors (is_fresh)',
]

DROP_IO = [
    Rule(r'^\s*ios_saver ss\(std_cout\);\n', '', 1, why='R-tic stream state saver dropped'),
    Rule(r'^\s*if \(prm\.verbose[^;]*std_cout[^;]*;\n', '', '+', why='R-tic verbose printing dropped'),
]

# syntactic rules shared by all solver bodies (keyed on syntax, never on the content a bug would change)
SCALAR_ATOM = r'(?:math_norm\(\w+\)|fabs\(\w+\)|eps<scalar_type>\(\d+\)|\b(?:norm_rhs|eps|res_norm|res|norm_r|beta|norm_v|dr|inner_res|presid|nrm)\b)'
SOLVER_RULES = [
    Rule(r'\beps<scalar_type>\((\d+)\)', r'EPS(\1)', None, why='amgcl::detail::eps<T>(n) -> uninterpreted constant'),
    Cmp(SCALAR_ATOM.replace(r'eps<scalar_type>\(\d+\)', r'EPS\(\d+\)'), '+'),
    Rule(r'\bP\.apply\(', 'P_APPLY(P, ', None, why='member call -> C call'),
    Rule(r'\bstd_make_tuple\(', 'MAKE_RESULT(', '+', why='R-tuple'),
    UFArgs(r'MAKE_RESULT', '+', skip=[0]),
    UFArgs(r'axpby|axpbypcz|spmv|vmul', None),
]
SOLVER_UF = [
    UF(r'\b(?:scalar_type|coef_type)\s+\w+\s*=\s*(?P<e>[^;]+);', '+'),
]

CG_T = r'''
#include "orch.h"
int g_thrown;
typedef struct cg_params { size_t maxiter; V tol; V abstol; _Bool ns_search; _Bool verbose; } cg_params;
typedef struct cg { cg_params prm; size_t n; vec *r, *s, *p, *q; } cg;
#define EPS1 EPS(1)
/* was the trivial-rhs exit taken?  (first norm() call is norm(rhs) = g_norm_in0) */
#define EARLY(self) (UF_LESS(g_norm_in0, EPS1) && !(self)->prm.ns_search)
#define NRHS(self) (UF_LESS(g_norm_in0, EPS1) ? MATH_identity(V) : g_norm_in0)
#define EPSV(self) UF_MAX(UF_MUL((self)->prm.tol, NRHS(self)), (self)->prm.abstol)

result f_cg(const cg *self, const mat *A_p, const precond *P_p, const vec *rhs_p, vec *x_p)
__CPROVER_requires(__CPROVER_is_fresh(self, sizeof(*self)) && __CPROVER_is_fresh(A_p, sizeof(mat)) && __CPROVER_is_fresh(P_p, sizeof(precond)))
__CPROVER_requires(__CPROVER_is_fresh(rhs_p, sizeof(vec)) && __CPROVER_is_fresh(x_p, sizeof(vec)))
__CPROVER_requires(__CPROVER_is_fresh(self->r, sizeof(vec)) && __CPROVER_is_fresh(self->s, sizeof(vec)))
__CPROVER_requires(__CPROVER_is_fresh(self->p, sizeof(vec)) && __CPROVER_is_fresh(self->q, sizeof(vec)))
__CPROVER_requires(UF_AXIOMS && self->prm.maxiter <= MAXITER_BOUND)
/* inputs: rhs is caller-owned and read-only, x holds the initial guess */
__CPROVER_requires(rhs_p->defined && rhs_p->readonly && x_p->defined && !x_p->readonly)
/* C15: the workspace holds whatever an earlier call (diverged, NaN, thrown) left there */
__CPROVER_requires(!self->r->defined && !self->s->defined && !self->p->defined && !self->q->defined)
__CPROVER_requires(!self->r->readonly && !self->s->readonly && !self->p->readonly && !self->q->readonly)
__CPROVER_requires(rhs_p->id == 1 && x_p->id == 2 && self->r->id == 3 && self->s->id == 4 && self->p->id == 5 && self->q->id == 6)
__CPROVER_requires(ORCH_GHOSTS_ZERO)
#ifdef VARIANT_CONVERGED_GUESS
/* C15: the initial guess already satisfies the tolerance */
__CPROVER_requires(!EARLY(self) && !UF_LESS(EPSV(self), math_norm(g_norm_in1)))
#endif
__CPROVER_assigns(x_p->defined, x_p->version)
__CPROVER_assigns(self->r->defined, self->r->version, self->s->defined, self->s->version)
__CPROVER_assigns(self->p->defined, self->p->version, self->q->defined, self->q->version)
__CPROVER_assigns(ORCH_GHOSTS)
/* C01: iteration budget */
__CPROVER_ensures(__CPROVER_return_value.iters <= self->prm.maxiter)
/* C15: zero right-hand side -> zero vector in zero iterations, residual = ||rhs|| */
__CPROVER_ensures(EARLY(self) ==> (__CPROVER_return_value.iters == 0 && __CPROVER_return_value.resid == g_norm_in0
                                   && g_clear_calls == 1 && g_clear_id == x_p->id && g_res_calls == 0))
/* C01: the number returned is (norm of the solver's residual vector in its final state) / ||rhs|| */
__CPROVER_ensures(!EARLY(self) ==> (__CPROVER_return_value.resid == UF_DIV(g_last_norm_val, NRHS(self))
                                    && g_last_norm_id == self->r->id && g_last_norm_ver == self->r->version
                                    && g_norm_id0 == rhs_p->id && g_clear_calls == 0))
/* C01: the residual vector starts as f - A x of the initial guess ... */
__CPROVER_ensures(!EARLY(self) ==> (g_res_calls == 1 && g_res_f == rhs_p->id && g_res_A == A_p->id && g_res_x == x_p->id
                                    && g_res_r == self->r->id && g_res_xver == __CPROVER_old(x_p->version)))
/* ... and every update of x is paired with one update of the carried residual */
__CPROVER_ensures(!EARLY(self) ==> (x_p->version == __CPROVER_old(x_p->version) + __CPROVER_return_value.iters
                                    && self->r->version == __CPROVER_old(self->r->version) + 1 + __CPROVER_return_value.iters))
/* C01: stopping before the budget is exhausted means the reported residual passed the test */
__CPROVER_ensures((!EARLY(self) && __CPROVER_return_value.iters < self->prm.maxiter)
                  ==> !UF_LESS(EPSV(self), math_norm(g_last_norm_val)))
/* C15: zero iterations <=> nothing to do; x is then returned unchanged (version equation above) */
__CPROVER_ensures((!EARLY(self) && __CPROVER_return_value.iters == 0 && self->prm.maxiter > 0)
                  ==> !UF_LESS(EPSV(self), math_norm(g_norm_in1)))
#ifdef VARIANT_CONVERGED_GUESS
__CPROVER_ensures(__CPROVER_return_value.iters == 0 && x_p->version == __CPROVER_old(x_p->version))
#endif
__CPROVER_ensures(x_p->defined)
{
  const cg_params prm = self->prm;
  vec *const r = self->r, *const s = self->s, *const p = self->p, *const q = self->q;
#define A (*A_p)
#define P (*P_p)
#define rhs (*rhs_p)
#define x (*x_p)
/*@CUT:body@*/
#undef A
#undef P
#undef rhs
#undef x
}
void h_f_cg(void) { const cg *self; const mat *A; const precond *P; const vec *rhs; vec *x; f_cg(self, A, P, rhs, x); }
'''

CG_LOOP = r'''
__CPROVER_assigns(iter, rho1, rho2, res_norm, x_p->version, x_p->defined,
  r->defined, r->version, s->defined, s->version, p->defined, p->version, q->defined, q->version,
  g_last_norm_val, g_last_norm_id, g_last_norm_ver, g_norm_calls, g_norm_id0, g_norm_id1,
  g_papply_in, g_papply_out, g_papply_outver, g_papply_calls, g_ax_a, g_ax_b, g_ax_x, g_ax_y, g_ax_calls, g_ax_xver)
__CPROVER_loop_invariant(iter <= prm.maxiter)
__CPROVER_loop_invariant(r->defined && x_p->defined && (iter > 0 ==> p->defined))
__CPROVER_loop_invariant(x_p->version == __CPROVER_loop_entry(x_p->version) + iter)
__CPROVER_loop_invariant(r->version == __CPROVER_loop_entry(r->version) + iter)
__CPROVER_loop_invariant(g_last_norm_id == r->id && g_last_norm_ver == r->version && res_norm == g_last_norm_val)
__CPROVER_loop_invariant(g_norm_calls == 2 + iter && g_norm_id0 == __CPROVER_loop_entry(g_norm_id0))
__CPROVER_loop_invariant(iter == 0 ==> res_norm == g_norm_in1)
#ifdef VARIANT_CONVERGED_GUESS
__CPROVER_loop_invariant(iter == 0)
#endif
__CPROVER_decreases(prm.maxiter - iter)
'''

cg = Unit(
    name='solver_cg', props=['C01', 'C05', 'C15', 'C10'], replay='orchestration',
    functions=['solver::cg<Backend>::operator()(A, P, rhs, x)'],
    desc='CG solve body: budget, reported residual is the norm of the carried residual vector / ||rhs||, x/r updates paired, '
         'workspace never read before written, zero rhs exit, converged guess returned unchanged, rhs/A never written',
    cuts={'body': Cut('amgcl/solver/cg.hpp',
                      r'std::tuple<size_t, scalar_type> operator\(\)\(\s*const Matrix &A, const Precond &P, const Vec1 &rhs, Vec2 &&x\) const\s*(?=\{)',
                      rules=DROP_IO + SOLVER_RULES,
                      uf=SOLVER_UF,
                      loops=[Loop(r'for\(; iter\b', CG_LOOP, prefix=True)])},
    template=CG_T,
    enforce='f_cg', replace=ORCH, mode='inductive', obj_bits=12,
    variants=[{}, {'VARIANT_CONVERGED_GUESS': 1, 'CXC_NOCOVER': 1}],
    assumptions=A_ORCH,
    not_decided=['that the recursively updated residual vector equals f - A x up to rounding (algebraic identity over the reals)',
                 'convergence within the budget; rounding bounded by conditioning'],
)


# ---------------------------------------------------------------------------- Richardson
SIG4 = r'std::tuple<size_t, scalar_type> operator\(\)\(\s*const Matrix &A, const Precond &P, const Vec1 &rhs, Vec2 &&x\) const\s*(?=\{)'

RICH_T = r"""
#include "orch.h"
int g_thrown;
typedef struct rich_params { V damping; size_t maxiter; V tol; V abstol; _Bool ns_search; _Bool verbose; } rich_params;
typedef struct rich { rich_params prm; size_t n; vec *r, *s; } rich;
#define EPS1 EPS(1)
#define EARLY(self) (UF_LESS(g_norm_in0, EPS1) && !(self)->prm.ns_search)
#define NRHS(self) (UF_LESS(g_norm_in0, EPS1) ? MATH_identity(V) : g_norm_in0)
#define EPSV(self) UF_MAX(UF_MUL((self)->prm.tol, NRHS(self)), (self)->prm.abstol)
#define RET __CPROVER_return_value

result f_rich(const rich *self, const mat *A_p, const precond *P_p, const vec *rhs_p, vec *x_p)
__CPROVER_requires(__CPROVER_is_fresh(self, sizeof(*self)) && __CPROVER_is_fresh(A_p, sizeof(mat)) && __CPROVER_is_fresh(P_p, sizeof(precond)))
__CPROVER_requires(__CPROVER_is_fresh(rhs_p, sizeof(vec)) && __CPROVER_is_fresh(x_p, sizeof(vec)))
__CPROVER_requires(__CPROVER_is_fresh(self->r, sizeof(vec)) && __CPROVER_is_fresh(self->s, sizeof(vec)))
__CPROVER_requires(UF_AXIOMS && self->prm.maxiter <= MAXITER_BOUND)
__CPROVER_requires(rhs_p->defined && rhs_p->readonly && x_p->defined && !x_p->readonly)
/* C15: workspace holds garbage of earlier calls */
__CPROVER_requires(!self->r->defined && !self->s->defined && !self->r->readonly && !self->s->readonly)
__CPROVER_requires(rhs_p->id == 1 && x_p->id == 2 && self->r->id == 3 && self->s->id == 4)
__CPROVER_requires(ORCH_GHOSTS_ZERO)
#ifdef VARIANT_CONVERGED_GUESS
__CPROVER_requires(!EARLY(self) && !UF_LESS(EPSV(self), math_norm(g_norm_in1)))
#endif
__CPROVER_assigns(x_p->defined, x_p->version, self->r->defined, self->r->version, self->s->defined, self->s->version)
__CPROVER_assigns(ORCH_GHOSTS)
/* C01: budget */
__CPROVER_ensures(RET.iters <= self->prm.maxiter)
/* C15: zero rhs */
__CPROVER_ensures(EARLY(self) ==> (RET.iters == 0 && RET.resid == g_norm_in0 && g_clear_calls == 1 && g_clear_id == x_p->id && g_res_calls == 0))
/* C01: the number reported is ||r|| / ||rhs|| where r was computed by residual(rhs, A, x, r) from the
 * x that is returned (x has not been written since) */
__CPROVER_ensures(!EARLY(self) ==> (RET.resid == UF_DIV(g_last_norm_val, NRHS(self))
     && g_last_norm_id == self->r->id && g_last_norm_ver == self->r->version && g_norm_id0 == rhs_p->id && g_clear_calls == 0
     && g_res_f == rhs_p->id && g_res_A == A_p->id && g_res_x == x_p->id && g_res_r == self->r->id
     && g_res_xver == x_p->version && g_res_rver == self->r->version))
/* C05: k iterations = k times { s = P r; x = damping*s + 1*x; r = rhs - A x; ||r|| } after one initial residual */
__CPROVER_ensures(!EARLY(self) ==> (g_papply_calls == RET.iters && g_ax_calls == RET.iters && g_res_calls == 1 + RET.iters
     && g_norm_calls == 2 + RET.iters && x_p->version == __CPROVER_old(x_p->version) + RET.iters))
__CPROVER_ensures((!EARLY(self) && RET.iters > 0) ==> (g_papply_in == self->r->id && g_papply_out == self->s->id
     && g_ax_a == self->prm.damping && g_ax_x == self->s->id && g_ax_xver == g_papply_outver
     && g_ax_b == MATH_identity(V) && g_ax_y == x_p->id))
/* C01: stopping early means the reported residual passed the test */
__CPROVER_ensures((!EARLY(self) && RET.iters < self->prm.maxiter) ==> !UF_LESS(EPSV(self), math_norm(g_last_norm_val)))
__CPROVER_ensures((!EARLY(self) && RET.iters == 0 && self->prm.maxiter > 0) ==> !UF_LESS(EPSV(self), math_norm(g_norm_in1)))
#ifdef VARIANT_CONVERGED_GUESS
__CPROVER_ensures(RET.iters == 0 && x_p->version == __CPROVER_old(x_p->version))
#endif
__CPROVER_ensures(x_p->defined)
{
  const rich_params prm = self->prm;
  vec *const r = self->r, *const s = self->s;
#define A (*A_p)
#define P (*P_p)
#define rhs (*rhs_p)
#define x (*x_p)
/*@CUT:body@*/
#undef A
#undef P
#undef rhs
#undef x
}
void h_f_rich(void) { const rich *self; const mat *A; const precond *P; const vec *rhs; vec *x; f_rich(self, A, P, rhs, x); }
"""

RICH_LOOP = r"""
__CPROVER_assigns(iter, res_norm, x_p->version, x_p->defined, r->defined, r->version, s->defined, s->version, ORCH_GHOSTS)
__CPROVER_loop_invariant(iter <= prm.maxiter)
__CPROVER_loop_invariant(r->defined && x_p->defined)
__CPROVER_loop_invariant(x_p->version == __CPROVER_loop_entry(x_p->version) + iter)
__CPROVER_loop_invariant(g_last_norm_id == r->id && g_last_norm_ver == r->version && res_norm == g_last_norm_val)
__CPROVER_loop_invariant(g_res_f == rhs_p->id && g_res_A == A_p->id && g_res_x == x_p->id && g_res_r == r->id && g_res_xver == x_p->version && g_res_rver == r->version)
__CPROVER_loop_invariant(g_norm_calls == 2 + iter && g_norm_id0 == __CPROVER_loop_entry(g_norm_id0))
__CPROVER_loop_invariant(g_res_calls == 1 + iter && g_papply_calls == iter && g_ax_calls == iter && g_clear_calls == 0)
__CPROVER_loop_invariant(iter > 0 ==> (g_papply_in == r->id && g_papply_out == s->id && g_ax_a == prm.damping && g_ax_x == s->id
                                      && g_ax_xver == g_papply_outver && g_ax_b == one && g_ax_y == x_p->id))
__CPROVER_loop_invariant(iter == 0 ==> res_norm == g_norm_in1)
#ifdef VARIANT_CONVERGED_GUESS
__CPROVER_loop_invariant(iter == 0)
#endif
__CPROVER_decreases(prm.maxiter - iter)
"""

richardson = Unit(
    name='solver_richardson', props=['C01', 'C05', 'C15', 'C10'], replay='orchestration',
    functions=['solver::richardson<Backend>::operator()(A, P, rhs, x)'],
    desc='Richardson: x <- x + damping * P (rhs - A x), k times; reported residual is the norm of residual(rhs,A,x) of the returned x',
    cuts={'body': Cut('amgcl/solver/richardson.hpp', SIG4, rules=DROP_IO + SOLVER_RULES, uf=SOLVER_UF,
                      loops=[Loop(r'for\(; iter\b', RICH_LOOP, prefix=True)])},
    template=RICH_T, enforce='f_rich', replace=ORCH, mode='inductive', obj_bits=12,
    variants=[{}, {'VARIANT_CONVERGED_GUESS': 1, 'CXC_NOCOVER': 1}],
    assumptions=A_ORCH,
    not_decided=['convergence rate equals the cycle contraction factor (spectral statement)'],
)

# ---------------------------------------------------------------------------- preonly
PREONLY_T = r"""
#include "orch.h"
int g_thrown;
#define RET __CPROVER_return_value
result f_preonly(const mat *A_p, const precond *P_p, const vec *rhs_p, vec *x_p)
__CPROVER_requires(__CPROVER_is_fresh(A_p, sizeof(mat)) && __CPROVER_is_fresh(P_p, sizeof(precond)))
__CPROVER_requires(__CPROVER_is_fresh(rhs_p, sizeof(vec)) && __CPROVER_is_fresh(x_p, sizeof(vec)))
__CPROVER_requires(rhs_p->defined && rhs_p->readonly && !x_p->readonly && rhs_p->id == 1 && x_p->id == 2 && ORCH_GHOSTS_ZERO)
__CPROVER_assigns(x_p->defined, x_p->version, ORCH_GHOSTS)
/* C05/C18: exactly one application of the preconditioner to rhs, result in x; (0, 0) returned */
__CPROVER_ensures(g_papply_calls == 1 && g_papply_in == rhs_p->id && g_papply_out == x_p->id && x_p->defined)
__CPROVER_ensures(RET.iters == 0 && RET.resid == UF_CONST(0))
{
#define P (*P_p)
#define rhs (*rhs_p)
#define x (*x_p)
/*@CUT:body@*/
#undef P
#undef rhs
#undef x
}
void h_f_preonly(void) { const mat *A; const precond *P; const vec *rhs; vec *x; f_preonly(A, P, rhs, x); }
"""
preonly = Unit(
    name='solver_preonly', props=['C05', 'C18', 'C15', 'C10'],
    functions=['solver::preonly<Backend>::operator()(A, P, rhs, x)'],
    desc='preonly: exactly one P.apply(rhs, x)',
    cuts={'body': Cut('amgcl/solver/preonly.hpp',
                      r'std::tuple<size_t, scalar_type> operator\(\)\(\s*const Matrix&, const Precond &P, const Vec1 &rhs, Vec2 &&x\) const\s*(?=\{)',
                      rules=[Rule(r'\bP\.apply\(', 'P_APPLY(P, ', '+'),
                             Rule(r'\bstd_make_tuple\(', 'MAKE_RESULT(', '+'),
                             UFArgs(r'MAKE_RESULT', '+', skip=[0])])},
    template=PREONLY_T, enforce='f_preonly', replace=ORCH, mode='loopfree', obj_bits=12,
    assumptions=A_ORCH,
)

UNITS = [cg, richardson, preonly]
