"""Binary matrix/vector reader (amgcl/io/binary.hpp) -- family C19.

std::ifstream is replaced by an abstract file (prelude/absfile.h: symbolic byte array of
symbolic length <= FMAX, get position, fail bit); std::vector by a constant-capacity array
with a logical length.  The bodies of io::read (both overloads), io::read_crs, io::crs_size,
io::read_dense and detail::sort_row are cut from /repo on every run.

The contract is the C19 statement for the binary format: for EVERY file content and length
the reader either throws or returns with every access in bounds and a structurally valid
matrix that really comes from the file sections it claims to; a well-formed file is read
back exactly (rows sorted by column); a row-range read is the slice of the full read.

Bounded (unwound) units: never counted as proved."""
from cxc.extract import Cut, Rule, IdxRule
from cxc.unit import Unit

BIN = 'amgcl/io/binary.hpp'
SORT_ROW = 'amgcl/detail/sort_row.hpp'

A_IO = [
    'A-bound: nothing is claimed beyond the stated bound on the file length',
    'A-std: std::ifstream (open/read/seekg/operator bool) and std::vector (resize/front/back/operator[]) are the trusted model prelude/absfile.h (checked by hand against libstdc++); resize beyond max_size() throws length_error, resize beyond the modelled capacity either throws bad_alloc or succeeds',
    'A-inst: read_crs<SizeT,Ptr,Col,Val> at 1-byte index/value types (signed char sizes/indices, unsigned char values) so that a whole matrix fits into the bounded file; values are only copied and moved by the reader',
    'A-conv: integral conversions are modular (C++20 [conv.integral], implementation-defined = modular before); CBMC --conversion-check is off for these units: a wrapped value read from a damaged file is a legal value whose consequences are checked where it is used (signed-overflow, bounds and pointer checks stay on)',
    'A-cut: a path ends at a VIOLATED safety obligation (assert first, then assume the same condition): the verdict is unchanged, secondary failures on an already failing path are not listed',
    'A-omp: OpenMP pragma on the row-sorting loop dropped; iterations touch disjoint row slices only if ptr is monotone, which is part of the contract',
]

# ---------------------------------------------------------------------------- cuts
READ_VAL = Cut(BIN, r'bool read\(std::ifstream &f, T &val\)\s*(?=\{)', rules=[
    Rule(r'\(\(_Bool\)\(f\.read\(', '((_Bool)absfile_ok(absfile_read(f, ', 1, why='static_cast<bool>(istream&) = !fail()'),
    Rule(r'sizeof\(T\)', 'sizeof_T', 1, why='template parameter T -> element size parameter'),
])
READ_VEC = Cut(BIN, r'bool read\(std::ifstream &f, std::vector<T> &vec\)\s*(?=\{)', rules=[
    Rule(r'\(\(_Bool\)\(f\.read\(', '((_Bool)absfile_ok(absfile_read(f, ', 1, why='static_cast<bool>(istream&) = !fail()'),
    Rule(r'sizeof\(T\)', 'sizeof_T', 1, why='template parameter T -> element size parameter'),
    Rule(r'&vec\[0\]', 'vec_data', 1, why='&vec[0] -> data pointer'),
    Rule(r'vec\.size\(\)', 'vec_size', 1),
])
SORT_ROW_SIG = r'void sort_row\(Col \*col, Val \*val, int n\)\s*(?=\{)'
# inlined into the reader units WITHOUT subscript wrappers (measured: 18 s instead of 130 s); that sort_row
# stays inside [0, n) of both slices is the obligation of unit io_sort_row below
SORT_ROW_CUT = Cut(SORT_ROW, SORT_ROW_SIG)
SORT_ROW_IDX_CUT = Cut(SORT_ROW, SORT_ROW_SIG, rules=[IdxRule(r'col', 'n', '+'), IdxRule(r'val', 'n', '+')])

STREAM_RULES = [
    Rule(r'std_ifstream f\(fname\.c_str\(\), std_ios::binary\);', 'absfile *f = absfile_open(fname);', 1,
         why='std::ifstream -> abstract file'),
    Rule(r'PRECONDITION\(f,', 'PRECONDITION(absfile_ok(f),', 1, why='stream in boolean context = !fail()'),
    Rule(r'\bf\.seekg\(', 'absfile_seekg(f, ', None, why='R-stream'),
]
VEC_RULES = [
    Rule(r'\b(\w+)\.resize\(([^;]+)\);', r'VEC_RESIZE(\1, \2);', '+', why='std::vector::resize'),
    Rule(r'\b(\w+)\.front\(\)', r'VEC_FRONT(\1)', None, why='std::vector::front'),
    Rule(r'\b(\w+)\.back\(\)', r'VEC_BACK(\1)', None, why='std::vector::back'),
    Rule(r'\b(\w+)\.size\(\)', r'VEC_LEN(\1)', None, why='std::vector::size'),
]

READ_VEC_RULE = Rule(r'\bread\(f, (ptr|col|val|v)\)', r'io_read_vec(f, VEC_DATA(\1), VEC_LEN(\1), VEC_ESZ(\1))', '+',
                     why='io::read<T>(f, std::vector<T>&) (vector-typed parameters)')
READ_VAL_RULE = Rule(r'\bread\(f, (\w+)\)', r'io_read_val(f, &\1, sizeof(\1))', '+', why='io::read<T>(f, T&)')

READ_CRS = Cut(BIN, r'void read_crs\(\s*const std::string &fname,\s*SizeT &n,\s*std::vector<Ptr> &ptr,\s*'
                    r'std::vector<Col> &col,\s*std::vector<Val> &val,\s*ptrdiff_t row_beg = -1,\s*'
                    r'ptrdiff_t row_end = -1\s*\)\s*(?=\{)',
               rules=STREAM_RULES + VEC_RULES + [
                   READ_VEC_RULE, READ_VAL_RULE,
                   Rule(r'for\(auto &(\w+) : (\w+)\) \1\b', r'for (size_t k_ = 0; k_ < VEC_LEN(\2); ++k_) VEC_AT(\2, k_)', 1,
                        why='R-rangefor'),
                   Rule(r'&(ptr|col|val)\[([^\]]+)\]', r'VEC_ADDR(\1, \2)', '+', why='&v[e]: address only (one past the end allowed)'),
                   Rule(r'\b(ptr|col|val)\[', r'\1.p[', '+', why='vector subscript'),
                   IdxRule(r'(ptr|col|val)\.p', r'\1.len', '+'),
               ])

# ------------------------------------------------------------------------ C template
IO_PRELUDE = r'''
#include "amgcl_c.h"
#include "absfile.h"
#include <stdlib.h>
#include <string.h>
/* subscript obligations against the logical vector length; outside the modelled storage -> bound artefact flag */
#undef IDX
#define IDX(e, len, what) vec_idx((ptrdiff_t)(e), (size_t)(len))
typedef SIZE_T_ SizeT;
typedef VAL_T Val;
int g_thrown;
int g_cap_exceeded;
VEC_DECL(Ptr, vec_P);
VEC_DECL(Col, vec_C);
VEC_DECL(Val, vec_V);
#define REQUIRES(c) __CPROVER_assume(c)
#ifdef CXC_CANARY
#define ENSURES(c, msg) ((void)0)
#define SAFE(c, msg) ((void)0)
#else
#define ENSURES(c, msg) __CPROVER_assert(c, "ensures: " msg)
#define SAFE(c, msg) do { __CPROVER_assert(c, "safety. " msg); CXC_CUT(c); } while (0)
#endif

/* io::read(std::ifstream&, T&) and io::read(std::ifstream&, std::vector<T>&) */
static _Bool io_read_val(absfile *f, void *val_p, size_t sizeof_T)
{
#define val (*(unsigned char *)val_p)
/*@CUT:read_val@*/
#undef val
}
static _Bool io_read_vec(absfile *f, void *vec_data, size_t vec_size, size_t sizeof_T)
{
/*@CUT:read_vec@*/
}
'''

SORT_ROW_C = r'''
/* detail::sort_row; its precondition (the two n-element slices lie inside the vectors they
 * point into) is CHECKED at every call, its own accesses are checked against n            */
static vec_C *g_sr_col;
static vec_V *g_sr_val;
static void sort_row(Col *col, Val *val, int n)
{
  /* its own accesses stay inside [0, n): unit io_sort_row */
  SAFE(n <= 0 || (col - g_sr_col->p >= 0 && (size_t)(col - g_sr_col->p) + (size_t)n <= g_sr_col->len),
       "sort_row: column slice [col, col+n) inside the column vector");
  SAFE(n <= 0 || (val - g_sr_val->p >= 0 && (size_t)(val - g_sr_val->p) + (size_t)n <= g_sr_val->len),
       "sort_row: value slice [val, val+n) inside the value vector");
/*@CUT:sort_row@*/
}
'''

READ_CRS_C = r'''
/* contract (enforced by the harness):
 *   requires  row_beg < 0 || row_end < 0 || row_beg <= row_end       (caller's part)
 *   for every file: throws, or returns a structurally valid slice that lies inside the
 *   file's sections; all accesses in bounds                                            */
static void f_read_crs(absfile *fname, SizeT *n_p, vec_P *ptr_p, vec_C *col_p, vec_V *val_p,
                       ptrdiff_t row_beg, ptrdiff_t row_end)
{
#define n (*n_p)
#define ptr (*ptr_p)
#define col (*col_p)
#define val (*val_p)
/*@CUT:body@*/
#undef n
#undef ptr
#undef col
#undef val
}
'''

FILE_SPEC = r'''
/* ---------------------------------------------------------------- spec (harness side)
 * file layout (binary.hpp / examples/mm2bin.cpp):  n | ptr[0..n] | col[0..nnz) | val[0..nnz) */
#ifndef NROW_MAX
#define NROW_MAX (FMAX - 1)              /* > number of rows of any readable file   */
#define NNZ_MAX ((FMAX - 2) / 2 + 1)     /* > number of entries of any wf file      */
#endif
/* decoders of the harness (independent of the reader): this instantiation has 1-byte fields */
_Static_assert(sizeof(SizeT) == 1 && sizeof(Ptr) == 1 && sizeof(Col) == 1 && (sizeof(Val) == 1 || sizeof(Val) == 2), "1-byte index fields, 1- or 2-byte values");
static SizeT file_n(const absfile *F) { return (SizeT)F->data[0]; }
static Ptr file_ptr(const absfile *F, size_t i) { return (Ptr)F->data[1 + i]; }
static Col file_col(const absfile *F, size_t N, size_t j) { return (Col)F->data[1 + (N + 1) + j]; }
static Val file_val(const absfile *F, size_t N, size_t nnz, size_t j)
{
  size_t off = 1 + (N + 1) + nnz + j * sizeof(Val);
  return sizeof(Val) == 1 ? (Val)F->data[off] : (Val)((unsigned)F->data[off] | ((unsigned)F->data[off + 1] << 8));   /* little endian */
}
/* the header (n and the n+1 row pointers) is completely inside the file */
static _Bool file_has_header(const absfile *F)
{
  if (!F->exists || F->len < sizeof(SizeT)) return 0;
  if (file_n(F) < 0) return 0;
  return sizeof(SizeT) + ((size_t)file_n(F) + 1) * sizeof(Ptr) <= F->len;
}
/* a file as the writer produces it */
static _Bool file_wf(const absfile *F)
{
  if (!file_has_header(F)) return 0;
  size_t N = (size_t)file_n(F);
  if (file_ptr(F, 0) != 0) return 0;
  for (size_t i = 0; i < NROW_MAX; ++i) if (i < N) {
    if (file_ptr(F, i) > file_ptr(F, i + 1)) return 0;
  }
  size_t nnz = (size_t)file_ptr(F, N);
  if (F->len != sizeof(SizeT) + (N + 1) * sizeof(Ptr) + nnz * (sizeof(Col) + sizeof(Val))) return 0;
  for (size_t j = 0; j < NNZ_MAX; ++j) if (j < nnz) {
    if (file_col(F, N, j) < 0) return 0;
  }
  return 1;
}
/* structurally valid CRS slice of `rows` rows */
static _Bool slice_valid(const vec_P *ptr, const vec_C *col, const vec_V *val, size_t rows)
{
  if (ptr->len != rows + 1 || ptr->len > VCAP || col->len > VCAP || val->len > VCAP) return 0;
  if (ptr->p[0] != 0) return 0;
  for (size_t i = 0; i < NROW_MAX; ++i) if (i < rows) {
    if (ptr->p[i] > ptr->p[i + 1]) return 0;
  }
  return (size_t)ptr->p[rows] == col->len && col->len == val->len;
}
static _Bool cols_nonneg(const vec_C *col)
{
  for (size_t j = 0; j < VCAP; ++j) if (j < col->len) { if (col->p[j] < 0) return 0; }
  return 1;
}
/* result == rows [rb, rb+rows) of the file, every row sorted by column: ascending and the
 * same (column, value) pairs with the same multiplicities                               */
static _Bool slice_is_sorted_file_rows(const absfile *F, size_t rb, size_t rows,
                                       const vec_P *ptr, const vec_C *col, const vec_V *val)
{
  size_t N = (size_t)file_n(F), nnz = (size_t)file_ptr(F, N);
  Ptr base = file_ptr(F, rb);
  for (size_t i = 0; i < NROW_MAX; ++i) if (i <= rows) {
    if (ptr->p[i] != file_ptr(F, rb + i) - base) return 0;
  }
  for (size_t i = 0; i < NROW_MAX; ++i) if (i < rows) {
    size_t b = (size_t)ptr->p[i], e = (size_t)ptr->p[i + 1];
    for (size_t a = 0; a < NNZ_MAX; ++a) if (b + a < e) {
      if (b + a + 1 < e && col->p[b + a] > col->p[b + a + 1]) return 0;
      Col c = file_col(F, N, (size_t)base + b + a);
      Val v = file_val(F, N, nnz, (size_t)base + b + a);
      int in_file = 0, in_res = 0;
      for (size_t k = 0; k < NNZ_MAX; ++k) if (b + k < e) {
        if (file_col(F, N, (size_t)base + b + k) == c && file_val(F, N, nnz, (size_t)base + b + k) == v) in_file++;
        if (col->p[b + k] == c && val->p[b + k] == v) in_res++;
      }
      if (in_file != in_res) return 0;
    }
  }
  return 1;
}
static _Bool file_same(const absfile *A, const absfile *B)
{
  if (A->len != B->len) return 0;
  for (size_t i = 0; i < FMAX; ++i) if (A->data[i] != B->data[i]) return 0;
  return 1;
}
static void vec_inputs(vec_P *ptr, vec_C *col, vec_V *val)
{
  /* the caller's vectors: any size, any content */
  ptr->p = (Ptr *)malloc(sizeof(Ptr) * VCAP);
  col->p = (Col *)malloc(sizeof(Col) * VCAP);
  val->p = (Val *)malloc(sizeof(Val) * VCAP);
  REQUIRES(ptr->len <= VCAP && col->len <= VCAP && val->len <= VCAP);
}
/* witness: the file bytes and the caller's arguments */
unsigned char w_file[FMAX]; unsigned w_flen;   /* not size_t: CBMC prints size_t constants as sizeof expressions in traces */ _Bool w_exists;
/* 64-bit arguments in two halves (the witness file stores doubles) */
unsigned w_row_beg_lo, w_row_end_lo; int w_row_beg_hi, w_row_end_hi;
#define MIRROR_RANGE(rb, re) do { w_row_beg_lo = (unsigned)((unsigned long)(rb) & 0xffffffffUL); w_row_beg_hi = (int)((rb) >> 32); \
  w_row_end_lo = (unsigned)((unsigned long)(re) & 0xffffffffUL); w_row_end_hi = (int)((re) >> 32); } while (0)
static void mirror_file(const absfile *F)
{
  w_flen = (unsigned)F->len; w_exists = F->exists;
  for (size_t i = 0; i < FMAX; ++i) w_file[i] = F->data[i];
}
'''

H_READ_CRS = r'''
void h_read_crs(void)
{
  absfile F;                       /* every content, every length <= FMAX, may not exist */
  REQUIRES(F.len <= FMAX);
  ptrdiff_t row_beg, row_end;
  REQUIRES(row_beg < 0 || row_end < 0 || row_beg <= row_end);
#ifdef FULL_ONLY
  REQUIRES(row_beg == -1 && row_end == -1);
#endif
  SizeT n;
  vec_P ptr; vec_C col; vec_V val;
  vec_inputs(&ptr, &col, &val);
  mirror_file(&F); MIRROR_RANGE(row_beg, row_end);
  absfile F0 = F;
  g_sr_col = &col; g_sr_val = &val;

  f_read_crs(&F, &n, &ptr, &col, &val, row_beg, row_end);

  ENSURES(!g_cap_exceeded, "bound artefact: no element beyond the modelled vector capacity is touched");
  ENSURES(file_same(&F, &F0), "frame: the file is not modified");
  ENSURES(F0.exists || g_thrown, "a file that cannot be opened makes the reader throw");
  /* the request as the reader must interpret it */
  size_t rb = row_beg < 0 ? 0 : (size_t)row_beg;
  if (!g_thrown) {
    ENSURES(file_has_header(&F0) && n == file_n(&F0),
            "returns only if the header (n, ptr[0..n]) is inside the file; n is the file's row count");
    size_t N = (size_t)n;
    size_t re = row_end < 0 ? N : (size_t)row_end;
    ENSURES(n >= 0 && rb <= re && re <= N, "returns only for a row range inside [0, n]");
    ENSURES(slice_valid(&ptr, &col, &val, re - rb),
            "no structurally invalid matrix is returned: ptr has rows+1 entries, starts at 0, is monotone, ends at nnz = col.size() = val.size()");
    ENSURES(cols_nonneg(&col), "no structurally invalid matrix is returned: column indices are non-negative");
    if (file_has_header(&F0) && n == file_n(&F0) && n >= 0 && rb <= re && re <= N) {
      /* inconsistent sizes / truncation: what is returned lies inside the file's sections */
      ENSURES(file_ptr(&F0, rb) >= 0 && file_ptr(&F0, rb) <= file_ptr(&F0, re) && file_ptr(&F0, re) <= file_ptr(&F0, N),
              "inconsistent sizes make the reader throw: 0 <= ptr[row_beg] <= ptr[row_end] <= ptr[n] in the file");
      ENSURES(file_ptr(&F0, N) < 0 || file_ptr(&F0, rb) == file_ptr(&F0, re) ||
              sizeof(SizeT) + (N + 1) * sizeof(Ptr) + (size_t)file_ptr(&F0, N) * sizeof(Col)
                + (size_t)file_ptr(&F0, re) * sizeof(Val) <= F0.len,
              "truncated file makes the reader throw: every entry that is returned was inside the file (a full read covers the whole file)");
    }
  }
  if (file_wf(&F0)) {
    size_t N = (size_t)file_n(&F0);
    size_t re = row_end < 0 ? N : (size_t)row_end;
    if (rb <= re && re <= N) {
      ENSURES(!g_thrown, "a well-formed file and a row range inside [0, n] are read without exception");
      if (!g_thrown && ptr.len == re - rb + 1 && ptr.len <= VCAP && col.len <= VCAP && val.len <= VCAP
          && (size_t)ptr.p[re - rb] == col.len && col.len == val.len)
        ENSURES(n == file_n(&F0) && slice_is_sorted_file_rows(&F0, rb, re - rb, &ptr, &col, &val),
                "round trip / slice: the result is rows [row_beg,row_end) of the file, ptr rebased to 0, each row sorted by column with the same (column,value) pairs");
    } else {
      ENSURES(g_thrown, "a row range outside [0, n] makes the reader throw");
    }
  }
  CANARY("harness.end");
}
'''

# loops of the model / spec functions have constant bounds <= FMAX and are unwound completely; the
# global --unwind bound (with unwinding assertions) applies to the loops of the repository text
OWN_LOOPS = ['--unwindset', ','.join('%s:40' % l for l in [
    'absfile_read.0', 'vec_fill0.0', 'vec_fill0.1', 'file_same.0', 'file_wf.0', 'file_wf.1', 'slice_valid.0',
    'cols_nonneg.0', 'slice_is_sorted_file_rows.0', 'slice_is_sorted_file_rows.1', 'slice_is_sorted_file_rows.2',
    'slice_is_sorted_file_rows.3', 'mirror_file.0'])]
WIT = ['w_file', 'w_flen', 'w_exists', 'w_row_beg_lo', 'w_row_beg_hi', 'w_row_end_lo', 'w_row_end_hi']
TYPES_S8 = {'SIZE_T_': 'signed char', 'CXC_PTR_T': 'signed char', 'CXC_COL_T': 'signed char', 'VAL_T': 'unsigned char'}

read_crs = Unit(
    name='io_read_crs', props=['C19', 'C10'],
    functions=['io::read_crs<SizeT,Ptr,Col,Val>(fname, n, ptr, col, val, row_beg, row_end)',
               'io::read<T>(ifstream&, T&)', 'io::read<T>(ifstream&, vector<T>&)', 'detail::sort_row'],
    desc='binary CRS reader, full and row-range: for every file content/length and every caller range it throws or '
         'returns in-bounds a structurally valid slice lying inside the file sections; well-formed files are read back exactly',
    cuts={'read_val': READ_VAL, 'read_vec': READ_VEC, 'sort_row': SORT_ROW_CUT, 'body': READ_CRS},
    template=IO_PRELUDE + SORT_ROW_C + READ_CRS_C + FILE_SPEC + H_READ_CRS,
    entry='h_read_crs', mode='unwound', unwind='FMAX', model='none', obj_bits=12,
    flags=OWN_LOOPS,
    defines=TYPES_S8,
    variants=[{'FMAX': 8}],
    thorough_variants=[{'FMAX': 10}],
    bound_text='every file of length <= 8 bytes (thorough 10), every byte content, every caller row range (64-bit symbolic); 1-byte size/index/value types',
    assumptions=A_IO, replay='ioadapt', timeout=300,
    witness=WIT,
    not_decided=['MatrixMarket reader/writer (text parsing, decimal round trip)',
                 'column index < number of columns: the binary format does not store the column count',
                 'resource exhaustion by a representable but oversized size field (allocation either throws bad_alloc or succeeds; an OOM kill is not modelled)',
                 'write side (io::write) and the bitwise round trip through a real file system'],
)
read_crs.replay_asan = True
read_crs.drop_checks = ['--conversion-check']


# ------------------------------------------------------------------------------------------
# well-formed files of a larger size: full read == file, row-range read == slice of the full read
# ------------------------------------------------------------------------------------------
H_READ_CRS_WF = r"""
#ifndef NMAX
#define NMAX 3
#endif
#ifndef ZMAX
#define ZMAX 4
#endif
_Static_assert(1 + (NMAX + 1) + 2 * ZMAX <= FMAX, "FMAX holds the largest matrix");
void h_read_crs_wf(void)
{
  absfile F;
  REQUIRES(F.len <= FMAX && file_wf(&F));
  size_t N = (size_t)file_n(&F), NNZ = (size_t)file_ptr(&F, N);
  REQUIRES(N <= NMAX && NNZ <= ZMAX);
  ptrdiff_t row_beg, row_end;
  REQUIRES(row_beg >= 0 && row_beg <= row_end && row_end <= NMAX + 1);
  mirror_file(&F); MIRROR_RANGE(row_beg, row_end);
  absfile F0 = F;
  /* full read */
  SizeT n1; vec_P ptr1; vec_C col1; vec_V val1;
  vec_inputs(&ptr1, &col1, &val1);
  g_sr_col = &col1; g_sr_val = &val1;
  f_read_crs(&F, &n1, &ptr1, &col1, &val1, -1, -1);
  ENSURES(!g_thrown, "well-formed file: the full read does not throw");
  _Bool ok1 = !g_thrown && n1 == file_n(&F0) && ptr1.len == N + 1 && col1.len == NNZ && val1.len == NNZ;
  ENSURES(ok1, "full read: n, ptr.size() = n+1, col.size() = val.size() = nnz as in the file");
  /* (that each row holds the file's entries sorted by column is decided at the smaller bound of unit
   *  io_read_crs and, for the sorting itself, by unit io_sort_row: measured 420 s here)            */
  if (ok1) {
    _Bool same_ptr = 1;
    for (size_t i = 0; i < NMAX + 1; ++i) if (i <= N) { if (ptr1.p[i] != file_ptr(&F0, i)) same_ptr = 0; }
    ENSURES(same_ptr, "full read: ptr is the file's row pointer array");
  }
  /* row-range read of the same file */
  SizeT n2; vec_P ptr2; vec_C col2; vec_V val2;
  vec_inputs(&ptr2, &col2, &val2);
  g_sr_col = &col2; g_sr_val = &val2;
  g_thrown = 0;
  f_read_crs(&F, &n2, &ptr2, &col2, &val2, row_beg, row_end);
  ENSURES(!g_cap_exceeded, "bound artefact: no element beyond the modelled vector capacity is touched");
  ENSURES(file_same(&F, &F0), "frame: the file is not modified");
  size_t rb = (size_t)row_beg, re = (size_t)row_end;
  if (re <= N) {
    ENSURES(!g_thrown, "well-formed file, row range inside [0, n]: the range read does not throw");
    if (ok1 && !g_thrown) {
      ENSURES(n2 == n1, "range read returns the same row count n");
      _Bool shape = ptr2.len == re - rb + 1 && ptr2.len <= VCAP && (size_t)ptr1.p[rb] <= NNZ
                    && col2.len == (size_t)(ptr1.p[re] - ptr1.p[rb]) && val2.len == col2.len && col2.len <= ZMAX;
      ENSURES(shape, "range read: ptr.size() = rows+1, col.size() = val.size() = ptr_full[row_end] - ptr_full[row_beg]");
      if (shape) {
        _Bool same = 1;
        for (size_t i = 0; i < NMAX + 1; ++i) if (i <= re - rb) { if (ptr2.p[i] != ptr1.p[rb + i] - ptr1.p[rb]) same = 0; }
        ENSURES(same, "range read == slice of the full read: ptr (rebased to 0)");
        same = 1;
        for (size_t j = 0; j < ZMAX; ++j) if (j < col2.len) {
          if (col2.p[j] != col1.p[(size_t)ptr1.p[rb] + j] || val2.p[j] != val1.p[(size_t)ptr1.p[rb] + j]) same = 0;
        }
        ENSURES(same, "range read == slice of the full read: columns and values, entry by entry");
      }
    }
  } else {
    ENSURES(g_thrown, "a row range beyond n makes the reader throw");
  }
  CANARY("harness.end");
}
"""

read_crs_wf = Unit(
    name='io_read_crs_slice', props=['C19', 'C10'],
    functions=['io::read_crs<SizeT,Ptr,Col,Val> (full read and row-range read of the same file)', 'detail::sort_row'],
    desc='well-formed binary CRS files: a row-range read equals exactly the corresponding slice of the full read '
         '(same n, ptr rebased to 0, columns and values entry by entry), for every range; ranges beyond n throw',
    cuts={'read_val': READ_VAL, 'read_vec': READ_VEC, 'sort_row': SORT_ROW_CUT, 'body': READ_CRS},
    template='#define NROW_MAX (NMAX + 1)\n#define NNZ_MAX (ZMAX + 1)\n' + IO_PRELUDE + SORT_ROW_C + READ_CRS_C + FILE_SPEC + H_READ_CRS_WF,
    entry='h_read_crs_wf', mode='unwound', unwind='max(NMAX+1,ZMAX)+2', model='none', obj_bits=12,
    flags=OWN_LOOPS,
    defines=TYPES_S8,
    # second variant: a value type WIDER than the column type (sizeof(Val) != sizeof(Col)), so that byte offsets computed with
    # the wrong element size are visible (added after seeded change C19 was missed with 1-byte values)
    variants=[{'FMAX': 13, 'NMAX': 3, 'ZMAX': 4}, {'FMAX': 13, 'NMAX': 2, 'ZMAX': 3, 'VAL_T': 'unsigned short'}],
    thorough_variants=[{'FMAX': 13, 'NMAX': 3, 'ZMAX': 4}, {'FMAX': 17, 'NMAX': 3, 'ZMAX': 4, 'VAL_T': 'unsigned short'}],      # n <= 4 / nnz <= 5 measured: 611 s
    bound_text='every well-formed file with n <= 3 rows and nnz <= 4, any pattern (unsorted rows, duplicates, empty rows), any values, every row range',
    assumptions=A_IO, replay='ioadapt', timeout=600,
    witness=WIT,
    not_decided=['damaged files (unit io_read_crs)', 'MatrixMarket format'],
)
read_crs_wf.replay_asan = True
read_crs_wf.drop_checks = ['--conversion-check']

# ------------------------------------------------------------------------------------------
# detail::sort_row: the callee contract the reader units rely on
# ------------------------------------------------------------------------------------------
sort_row = Unit(
    name='io_sort_row', props=['C19', 'C10'],
    functions=['detail::sort_row<Col,Val>(col, val, n)'],
    desc='sort_row touches only [0, n) of both slices, leaves them sorted by column with the same (column,value) pairs; n <= 1 touches nothing',
    cuts={'sort_row': SORT_ROW_IDX_CUT},
    template=IO_PRELUDE.replace('/*@CUT:read_val@*/', 'return 0;').replace('/*@CUT:read_vec@*/', 'return 0;') + r"""
#ifndef KMAX
#define KMAX 5
#endif
static void f_sort_row(Col *col, Val *val, int n)
{
/*@CUT:sort_row@*/
}
int w_col[KMAX + 2], w_val[KMAX + 2], w_n;   /* ints: CBMC prints char-typed values as character literals */
void h_sort_row(void)
{
  Col col[KMAX + 2], col0[KMAX + 2]; Val val[KMAX + 2], val0[KMAX + 2]; int n;
  REQUIRES(n <= KMAX);                       /* also n <= 0: nothing to do */
  for (int k = 0; k < KMAX + 2; ++k) { col0[k] = col[k]; val0[k] = val[k]; w_col[k] = col[k]; w_val[k] = val[k]; }
  w_n = n;
  f_sort_row(col + 1, val + 1, n);           /* one guard element on either side */
  _Bool frame = col[0] == col0[0] && val[0] == val0[0], sorted = 1, perm = 1;
  for (int k = 0; k < KMAX + 1; ++k) {
    if (k >= n && (col[k + 1] != col0[k + 1] || val[k + 1] != val0[k + 1])) frame = 0;
    if (k + 1 < n && col[k + 1] > col[k + 2]) sorted = 0;
    if (k < n) {
      int a = 0, b = 0;
      for (int j = 0; j < KMAX; ++j) if (j < n) {
        if (col0[j + 1] == col0[k + 1] && val0[j + 1] == val0[k + 1]) a++;
        if (col[j + 1] == col0[k + 1] && val[j + 1] == val0[k + 1]) b++;
      }
      if (a != b) perm = 0;
    }
  }
  ENSURES(frame, "frame: nothing outside [0, n) of either slice is written");
  ENSURES(sorted, "the slice is in ascending column order");
  ENSURES(perm, "the slice holds the same (column,value) pairs with the same multiplicities");
  CANARY("harness.end");
}
""",
    entry='h_sort_row', mode='unwound', unwind='KMAX+4', model='none',
    defines=TYPES_S8, variants=[{'KMAX': 5}], thorough_variants=[{'KMAX': 6}],  # KMAX 7 measured: > 2400 s
    bound_text='every slice of length n <= 5 (thorough 6), any content incl. duplicates; n <= 0 included',
    assumptions=['A-bound: nothing is claimed beyond the stated bound', 'A-inst: Col = signed char, Val = unsigned char (compared / moved only)'],
    replay='ioadapt', timeout=300, witness=['w_col', 'w_val', 'w_n'],
)
sort_row.replay_asan = True
sort_row.drop_checks = ['--conversion-check']


# ------------------------------------------------------------------------------------------
# io::crs_size
# ------------------------------------------------------------------------------------------
crs_size = Unit(
    name='io_crs_size', props=['C19', 'C10'],
    functions=['io::crs_size<IndexType>(fname)', 'io::read<T>(ifstream&, T&)'],
    desc='crs_size throws exactly when the file is missing or shorter than one IndexType, otherwise returns the first field; IndexType 1 and 4 bytes',
    cuts={'read_val': READ_VAL, 'read_vec': READ_VEC,
          'body': Cut(BIN, r'IndexType crs_size\(const std::string &fname\)\s*(?=\{)', rules=STREAM_RULES + [READ_VAL_RULE])},
    template=r"""
#if IXT == 4
#define SIZE_T_ int
#else
#define SIZE_T_ signed char
#endif
#define VAL_T unsigned char
""" + IO_PRELUDE + r"""
typedef SizeT IndexType;
#undef CXC_THROW_RET
#define CXC_THROW_RET 0
static IndexType f_crs_size(absfile *fname)
{
/*@CUT:body@*/
}
unsigned char w_file[FMAX]; unsigned w_flen;   /* not size_t: CBMC prints size_t constants as sizeof expressions in traces */ _Bool w_exists;
static void mirror_file(const absfile *F)
{
  w_flen = (unsigned)F->len; w_exists = F->exists;
  for (size_t i = 0; i < FMAX; ++i) w_file[i] = F->data[i];
}
static _Bool file_same(const absfile *A, const absfile *B)
{
  if (A->len != B->len) return 0;
  for (size_t i = 0; i < FMAX; ++i) if (A->data[i] != B->data[i]) return 0;
  return 1;
}
void h_crs_size(void)
{
  absfile F;
  REQUIRES(F.len <= FMAX);
  mirror_file(&F);
  absfile F0 = F;
  IndexType r = f_crs_size(&F);
  _Bool readable = F0.exists && F0.len >= sizeof(IndexType);
  ENSURES((g_thrown != 0) == !readable, "crs_size throws exactly when the file is missing or shorter than one IndexType");
  IndexType first; memcpy(&first, F0.data, sizeof first);
  ENSURES(g_thrown || r == first, "crs_size returns the first field of the file");
  ENSURES(file_same(&F, &F0), "frame: the file is not modified");
  CANARY("harness.end");
}
""",
    entry='h_crs_size', mode='unwound', unwind='FMAX+2', model='none',
    variants=[{'FMAX': 6, 'IXT': 1}, {'FMAX': 6, 'IXT': 4}],
    bound_text='every file of length <= 6 bytes, every content (only the first sizeof(IndexType) bytes are read)',
    assumptions=A_IO[:2] + ['A-inst: IndexType = signed char and int'], replay='ioadapt', timeout=300,
    witness=['w_file', 'w_flen', 'w_exists'],
)
crs_size.replay_asan = True
crs_size.drop_checks = ['--conversion-check']

# ------------------------------------------------------------------------------------------
# io::read_dense
# ------------------------------------------------------------------------------------------
H_READ_DENSE = r"""
static void f_read_dense(absfile *fname, SizeT *n_p, SizeT *m_p, vec_V *v_p, ptrdiff_t row_beg, ptrdiff_t row_end)
{
#define n (*n_p)
#define m (*m_p)
#define v (*v_p)
/*@CUT:body@*/
#undef n
#undef m
#undef v
}
_Static_assert(sizeof(SizeT) == 1 && sizeof(Val) == 1, "1-byte instantiation");
unsigned char w_file[FMAX]; unsigned w_flen;   /* not size_t: CBMC prints size_t constants as sizeof expressions in traces */ _Bool w_exists;
unsigned w_row_beg_lo, w_row_end_lo; int w_row_beg_hi, w_row_end_hi;
static void mirror_file(const absfile *F)
{
  w_flen = (unsigned)F->len; w_exists = F->exists;
  for (size_t i = 0; i < FMAX; ++i) w_file[i] = F->data[i];
}
static _Bool file_same(const absfile *A, const absfile *B)
{
  if (A->len != B->len) return 0;
  for (size_t i = 0; i < FMAX; ++i) if (A->data[i] != B->data[i]) return 0;
  return 1;
}
/* v == rows [rb, re) of the n x m row-major array stored after the two size fields */
static _Bool dense_slice(const absfile *F, size_t rb, size_t M, const vec_V *v)
{
  for (size_t k = 0; k < VCAP; ++k) if (k < v->len) {
    if (2 + rb * M + k >= FMAX || v->p[k] != (Val)F->data[2 + rb * M + k]) return 0;
  }
  return 1;
}
void h_read_dense(void)
{
  absfile F;
  REQUIRES(F.len <= FMAX);
  ptrdiff_t row_beg, row_end;
  REQUIRES(row_beg < 0 || row_end < 0 || row_beg <= row_end);
  SizeT n, m; vec_V v;
  v.p = (Val *)malloc(sizeof(Val) * VCAP);
  REQUIRES(v.len <= VCAP);
  mirror_file(&F);
  w_row_beg_lo = (unsigned)((unsigned long)row_beg & 0xffffffffUL); w_row_beg_hi = (int)(row_beg >> 32);
  w_row_end_lo = (unsigned)((unsigned long)row_end & 0xffffffffUL); w_row_end_hi = (int)(row_end >> 32);
  absfile F0 = F;
  f_read_dense(&F, &n, &m, &v, row_beg, row_end);
  ENSURES(!g_cap_exceeded, "bound artefact: no element beyond the modelled vector capacity is touched");
  ENSURES(file_same(&F, &F0), "frame: the file is not modified");
  ENSURES(F0.exists || g_thrown, "a file that cannot be opened makes the reader throw");
  size_t rb = row_beg < 0 ? 0 : (size_t)row_beg;
  _Bool header = F0.exists && F0.len >= 2;
  SizeT fn = (SizeT)F0.data[0], fm = (SizeT)F0.data[1];
  if (!g_thrown) {
    ENSURES(header && n == fn && m == fm, "returns only if both size fields are inside the file; n, m are the file's fields");
    ENSURES(n >= 0 && m >= 0, "no structurally invalid array is returned: n >= 0 and m >= 0");
    size_t N = (size_t)n, M = (size_t)m;
    size_t re = row_end < 0 ? N : (size_t)row_end;
    ENSURES(rb <= re && re <= N, "returns only for a row range inside [0, n]");
    if (header && n == fn && m == fm && n >= 0 && m >= 0 && rb <= re && re <= N) {
      ENSURES(v.len == (re - rb) * M && v.len <= VCAP, "v.size() == rows * m");
      ENSURES((re - rb) * M == 0 || 2 + re * M <= F0.len, "truncated file makes the reader throw: every value returned was inside the file");
      ENSURES(v.len != (re - rb) * M || v.len > VCAP || dense_slice(&F0, rb, M, &v), "the values are rows [row_beg,row_end) of the file, in order");
    }
  }
  if (header && fn >= 0 && fm >= 0 && F0.len == 2 + (size_t)fn * (size_t)fm) {
    size_t re = row_end < 0 ? (size_t)fn : (size_t)row_end;
    if (rb <= re && re <= (size_t)fn) ENSURES(!g_thrown, "a well-formed file and a row range inside [0, n] are read without exception");
    else ENSURES(g_thrown, "a row range outside [0, n] makes the reader throw");
  }
  CANARY("harness.end");
}
"""

read_dense = Unit(
    name='io_read_dense', props=['C19', 'C10'],
    functions=['io::read_dense<SizeT,Val>(fname, n, m, v, row_beg, row_end)', 'io::read<T>(ifstream&, T&)', 'io::read<T>(ifstream&, vector<T>&)'],
    desc='binary dense reader, full and row-range: for every file content/length and caller range it throws or returns '
         'n, m >= 0, a range inside [0,n] and exactly the rows of the file; well-formed files are read without exception',
    cuts={'read_val': READ_VAL, 'read_vec': READ_VEC,
          'body': Cut(BIN, r'void read_dense\(const std::string &fname,\s*SizeT &n, SizeT &m, std::vector<Val> &v,\s*'
                           r'ptrdiff_t row_beg = -1, ptrdiff_t row_end = -1\)\s*(?=\{)',
                      rules=STREAM_RULES + VEC_RULES + [READ_VEC_RULE, READ_VAL_RULE])},
    template=IO_PRELUDE + H_READ_DENSE,
    entry='h_read_dense', mode='unwound', unwind='FMAX+2', model='none', obj_bits=12,
    defines=TYPES_S8,
    variants=[{'FMAX': 16}], thorough_variants=[{'FMAX': 24}],
    bound_text='every file of length <= 16 bytes (thorough 24), every byte content, every caller row range (64-bit symbolic); 1-byte size/value types',
    assumptions=A_IO[:5], replay='ioadapt', timeout=300,
    witness=['w_file', 'w_flen', 'w_exists', 'w_row_beg_lo', 'w_row_beg_hi', 'w_row_end_lo', 'w_row_end_hi'],
    not_decided=['dense_size (two reads, covered by the same io::read contract)', 'overflow of rows * m at 8-byte SizeT'],
)
read_dense.replay_asan = True
read_dense.drop_checks = ['--conversion-check']

UNITS = [read_crs, read_crs_wf, sort_row, crs_size, read_dense]
