"""Explicit re-initialisation of per-object scalar / vector workspace at the start of a solve (C15 anchor:
"fill s, clear X/U, reset M to identity").  Region units: the workspace enters with arbitrary content
(whatever an earlier call -- diverged, NaN, thrown -- left) and after the region every cell has its
documented initial value, for every size (inductive, ghost indices)."""
from cxc.extract import Cut, Rule, UF, Loop
from cxc.unit import Unit

IDRS_T = r'''
#define MODEL_UF 1
#include "amgcl_c.h"
int g_thrown;
typedef V coef_type;
typedef struct vec { _Bool defined; unsigned long version; } vec;
#define SMAX 8             /* row stride of the C view of multi_array<coef_type,2> M(s, s): a power of two, s <= SMAX */
typedef struct idrs_prm { unsigned s; } idrs_prm;
/* backend::clear */
void zclear(vec *x)
__CPROVER_assigns(x->defined, x->version)
__CPROVER_ensures(x->defined && x->version == __CPROVER_old(x->version) + 1);
#define clear(x) zclear(&(x))
unsigned g_i, g_j;   /* ghost indices */
void f_idrs_reinit(const idrs_prm *self, V *M, vec *G, vec *U)
__CPROVER_requires(__CPROVER_is_fresh(self, sizeof(*self)) && self->s <= SMAX)
__CPROVER_requires(__CPROVER_is_fresh(M, SMAX * SMAX * sizeof(V)) && __CPROVER_is_fresh(G, SMAX * sizeof(vec)) && __CPROVER_is_fresh(U, SMAX * sizeof(vec)))
__CPROVER_requires(g_i < self->s && g_j < self->s)
/* C15: M, G, U hold whatever the previous call on this object left there */
__CPROVER_assigns(__CPROVER_object_whole(M), __CPROVER_object_whole(G), __CPROVER_object_whole(U))
/* ... and afterwards M is the identity and the G, U spaces are cleared */
__CPROVER_ensures(M[g_i * SMAX + g_j] == (V)(g_i == g_j) && G[g_i].defined && U[g_i].defined)
{
  const idrs_prm prm = *self;
/*@CUT:body@*/
}
void h_f_idrs_reinit(void) { const idrs_prm *p; V *M; vec *G, *U; f_idrs_reinit(p, M, G, U); }
'''
OUTER = '''
__CPROVER_assigns(i, __CPROVER_object_whole(M), __CPROVER_object_whole(G), __CPROVER_object_whole(U))
__CPROVER_loop_invariant(i <= prm.s)
__CPROVER_loop_invariant(g_i < i ==> (M[g_i * SMAX + g_j] == (V)(g_i == g_j) && G[g_i].defined && U[g_i].defined))
__CPROVER_decreases(prm.s - i)
'''
INNER = '''
__CPROVER_assigns(j, __CPROVER_object_whole(M))
__CPROVER_loop_invariant(j <= prm.s && i < prm.s)
__CPROVER_loop_invariant(g_i < i ==> M[g_i * SMAX + g_j] == (V)(g_i == g_j))
__CPROVER_loop_invariant((g_i == i && g_j < j) ==> M[g_i * SMAX + g_j] == (V)(g_i == g_j))
__CPROVER_decreases(prm.s - j)
'''
idrs_reinit = Unit(
    name='idrs_reinit', props=['C15', 'C10'],
    functions=['solver::idrs<Backend>::operator() -- the "Initialization" region (reset of M, G, U at the start of every solve)'],
    desc='IDR(s): at the start of every solve M is reset to the identity and the G and U spaces are cleared, whatever they held (all s <= 8)',
    cuts={'body': Cut('amgcl/solver/idrs.hpp', r'coef_type om = math::identity<coef_type>\(\);', kind='region',
                      end=r'size_t iter = 0;',
                      rules=[Rule(r'\*(G|U)\[(\w+)\]', r'\1[\2]', None, why='R-smartptr: vector of shared_ptr<vector> viewed as an array of vectors'),
                             Rule(r'\bM\((\w+), (\w+)\)', r'M[(\1) * SMAX + (\2)]', None, why='multi_array accessor -> row-major index (stride SMAX)')],
                      loops=[Loop(r'for\(unsigned i = 0;', OUTER, nth=0, prefix=True),
                             Loop(r'for\(unsigned j = 0;', INNER, nth=0, prefix=True, optional=True)])},
    template=IDRS_T, enforce='f_idrs_reinit', replace=['zclear'], mode='inductive', timeout=300,
    assumptions=['A-view: multi_array<coef_type,2> M(s,s) is viewed row-major with stride 8 (s <= 8, the range the documentation and the property quantify over)',
                 'A-region: only the re-initialisation region of operator() is under contract; the rest of the IDR(s) iteration is not (no unit)'],
    not_decided=['the IDR(s) iteration itself'],
)
UNITS = [idrs_reinit]
