// replay of kernel-unit witnesses against the real amgcl templates
#include "witness.hpp"
#include <amgcl/detail/sort_row.hpp>
using namespace amgcl;

static int r_transpose(const Witness &w) {
    auto A = crs_from(w, "A");
    print_crs("A", *A);
    auto T = backend::transpose(*A);
    print_crs("transpose(A)", *T);
    std::string why;
    if (T->nrows != A->ncols || T->ncols != A->nrows) FAIL("transpose: dimensions not swapped");
    if (!wf(*T, why)) FAIL("transpose: result not well-formed: " << why);
    if ((size_t)T->ptr[T->nrows] != (size_t)A->ptr[A->nrows]) FAIL("transpose: nnz differs");
    std::vector<double> dA = dense(*A), dT = dense(*T);
    for (size_t i = 0; i < T->nrows; ++i) for (size_t j = 0; j < T->ncols; ++j)
        if (dT[i * T->ncols + j] != dA[j * A->ncols + i]) FAIL("transpose: entry (" << i << "," << j << ") = " << dT[i * T->ncols + j] << " expected " << dA[j * A->ncols + i]);
    if (!rows_sorted(*T, false)) FAIL("transpose: rows not ascending");
    return 0;
}

int main(int argc, char **argv) {
    if (argc < 3) return 2;
    std::string unit = argv[1];
    Witness w;
    if (!w.load(std::string(argv[2]) + ".in")) { std::cout << "no witness input" << std::endl; return 3; }
    if (unit == "builtin_transpose") return r_transpose(w);
    std::cout << "no replay for unit " << unit << std::endl;
    return 3;
}
