// replay of kernel-unit witnesses against the real amgcl templates
#include "witness.hpp"
#include <amgcl/detail/sort_row.hpp>
#include <amgcl/detail/spgemm.hpp>
#include <csignal>
#include <unistd.h>
using namespace amgcl;

// a crash of the real code on a witness input (heap corruption detected by glibc, segfault) is a
// reproduction: report it as such instead of dying with a signal
static void on_crash(int sig) {
    const char msg[] = "\nREPRODUCED on the real code: the call crashed (SIGSEGV/SIGABRT: memory corruption)\n";
    if (write(1, msg, sizeof(msg) - 1)) {}
    (void)sig;
    _exit(1);
}

static int r_transpose(const Witness &w) {
    auto A = crs_from(w, "A");
    print_crs("A", *A);
    auto T = backend::transpose(*A);
    print_crs("transpose(A)", *T);
    std::string why;
    if (T->nrows != A->ncols || T->ncols != A->nrows) FAIL("transpose: dimensions not swapped");
    if (!wf(*T, why)) FAIL("transpose: result not well-formed: " << why);
    if ((size_t)T->ptr[T->nrows] != (size_t)A->ptr[A->nrows]) FAIL("transpose: nnz differs");
    std::vector<double> dA = dense(*A), dT = dense(*T);
    for (size_t i = 0; i < T->nrows; ++i) for (size_t j = 0; j < T->ncols; ++j)
        if (dT[i * T->ncols + j] != dA[j * A->ncols + i]) FAIL("transpose: entry (" << i << "," << j << ") = " << dT[i * T->ncols + j] << " expected " << dA[j * A->ncols + i]);
    if (!rows_sorted(*T, false)) FAIL("transpose: rows not ascending");
    return 0;
}

static int r_sort_row(const Witness &w) {
    if (!w.has("w_n")) { std::cout << "no witness input (inductive unit: no concrete trace)" << std::endl; return 3; }
    int n = (int)w.num("w_n");
    std::vector<double> c = w.arr("w_col"), v = w.arr("w_val");
    size_t len = n > 0 ? (size_t)n : 0;
    if (c.size() < len || v.size() < len) { std::cout << "witness too short" << std::endl; return 3; }
    std::vector<ptrdiff_t> col(len + 1, 0), col0; std::vector<double> val(len + 1, 0.0), val0;
    for (size_t k = 0; k < len; ++k) { col[k] = (ptrdiff_t)c[k]; val[k] = v[k]; }
    col[len] = 424242; val[len] = 424242.0;   // guard cell after the row
    col0 = col; val0 = val;
    std::cout << "sort_row input n=" << n << ":"; for (size_t k = 0; k < len; ++k) std::cout << " " << col[k] << ":" << val[k]; std::cout << std::endl;
    amgcl::detail::sort_row(col.data(), val.data(), n);
    std::cout << "sort_row output:"; for (size_t k = 0; k < len; ++k) std::cout << " " << col[k] << ":" << val[k]; std::cout << std::endl;
    for (size_t k = 0; k + 1 < len; ++k) if (!(col[k] <= col[k + 1])) FAIL("sort_row: columns not ascending at position " << k);
    for (size_t k = 0; k < len; ++k) {
        int a = 0, b = 0;
        for (size_t l = 0; l < len; ++l) { if (col0[l] == col0[k] && val0[l] == val0[k]) ++a; if (col[l] == col0[k] && val[l] == val0[k]) ++b; }
        if (a != b) FAIL("sort_row: pair (" << col0[k] << "," << val0[k] << ") occurs " << a << " times in the input, " << b << " times in the output");
    }
    if (col[len] != 424242 || val[len] != 424242.0) FAIL("sort_row: cell after the row modified");
    return 0;
}

static int r_pointwise(const Witness &w) {
    auto A = crs_from(w, "A");
    unsigned bs = (unsigned)w.num("w_bs", 0);
    if (bs == 0) { std::cout << "no block size in witness" << std::endl; return 3; }
    print_crs("A", *A);
    std::cout << "block_size = " << bs << std::endl;
    std::shared_ptr<Crs> P;
    try { P = backend::pointwise_matrix(*A, bs); } catch (const std::exception &e) { FAIL("pointwise_matrix threw: " << e.what()); }
    print_crs("pointwise_matrix(A)", *P);
    std::string why;
    size_t np = A->nrows / bs, mp = A->ncols / bs;
    if (P->nrows != np || P->ncols != mp) FAIL("pointwise_matrix: wrong dimensions");
    if (!wf(*P, why)) FAIL("pointwise_matrix: result not well-formed: " << why);
    if (P->nrows && P->nnz != (size_t)P->ptr[P->nrows]) FAIL("pointwise_matrix: nnz != ptr[n]");
    if (!rows_sorted(*P, true)) FAIL("pointwise_matrix: rows not strictly ascending");
    // independent oracle: dense presence / max-norm per block
    std::vector<int> cnt(np * mp, 0); std::vector<double> mx(np * mp, 0.0);
    for (size_t i = 0; i < A->nrows; ++i) for (ptrdiff_t j = A->ptr[i]; j < A->ptr[i + 1]; ++j) {
        size_t b = (i / bs) * mp + (size_t)A->col[j] / bs;
        cnt[b]++; mx[b] = std::max(mx[b], std::fabs(A->val[j]));
    }
    std::vector<int> st(np * mp, 0); std::vector<double> pv(np * mp, 0.0);
    for (size_t i = 0; i < np; ++i) for (ptrdiff_t j = P->ptr[i]; j < P->ptr[i + 1]; ++j) { st[i * mp + P->col[j]]++; pv[i * mp + P->col[j]] = P->val[j]; }
    for (size_t i = 0; i < np; ++i) for (size_t j = 0; j < mp; ++j) {
        if ((cnt[i * mp + j] > 0) != (st[i * mp + j] > 0)) FAIL("pointwise_matrix: block (" << i << "," << j << ") has " << cnt[i * mp + j] << " entries in A but is " << (st[i * mp + j] ? "stored" : "missing") << " in the result");
        if (st[i * mp + j] && pv[i * mp + j] != mx[i * mp + j]) FAIL("pointwise_matrix: block (" << i << "," << j << ") = " << pv[i * mp + j] << " expected largest norm " << mx[i * mp + j]);
    }
    return 0;
}

static bool nodup(const Crs &A) {
    for (size_t i = 0; i < A.nrows; ++i) for (ptrdiff_t j = A.ptr[i]; j < A.ptr[i + 1]; ++j)
        for (ptrdiff_t k = j + 1; k < A.ptr[i + 1]; ++k) if (A.col[j] == A.col[k]) return false;
    return true;
}
static std::vector<int> pattern(const Crs &A) {
    std::vector<int> d(A.nrows * A.ncols, 0);
    for (size_t i = 0; i < A.nrows; ++i) for (ptrdiff_t j = A.ptr[i]; j < A.ptr[i + 1]; ++j) d[i * A.ncols + A.col[j]]++;
    return d;
}
static int r_sum(const Witness &w) {
    auto A = crs_from(w, "A"), B = crs_from(w, "B");
    double alpha = w.num("w_alpha"), beta = w.num("w_beta"); bool sort = w.num("w_sort") != 0;
    print_crs("A", *A); print_crs("B", *B);
    std::cout << "alpha=" << alpha << " beta=" << beta << " sort=" << sort << std::endl;
    std::shared_ptr<Crs> C;
    try { C = backend::sum(alpha, *A, beta, *B, sort); } catch (const std::exception &e) { FAIL("sum threw: " << e.what()); }
    print_crs("sum", *C);
    std::string why;
    if (C->nrows != A->nrows || C->ncols != A->ncols) FAIL("sum: wrong shape");
    if (!wf(*C, why)) FAIL("sum: result not well-formed: " << why);
    if (C->nrows && C->nnz != (size_t)C->ptr[C->nrows]) FAIL("sum: nnz != ptr[n]");
    std::vector<double> dA = dense(*A), dB = dense(*B), dC = dense(*C);
    std::vector<int> pA = pattern(*A), pB = pattern(*B), pC = pattern(*C);
    for (size_t k = 0; k < dC.size(); ++k) {
        if (dC[k] != alpha * dA[k] + beta * dB[k]) FAIL("sum: entry (" << k / C->ncols << "," << k % C->ncols << ") = " << dC[k] << " expected " << alpha * dA[k] + beta * dB[k]);
        if ((pC[k] > 0) != (pA[k] > 0 || pB[k] > 0)) FAIL("sum: pattern differs from the union at (" << k / C->ncols << "," << k % C->ncols << ")");
    }
    if (((nodup(*A) && nodup(*B)) || (rows_sorted(*A, false) && rows_sorted(*B, false))) && !nodup(*C)) FAIL("sum: duplicate column in a row of the result");
    if (sort && !rows_sorted(*C, false)) FAIL("sum: rows not ascending although sort=true");
    return 0;
}

static int r_spgemm_saad(const Witness &w) {
    auto A = crs_from(w, "A"), B = crs_from(w, "B");
    bool sort = w.num("w_sort") != 0;
    print_crs("A", *A); print_crs("B", *B); std::cout << "sort=" << sort << std::endl;
    if (A->ncols != B->nrows) { std::cout << "incompatible witness" << std::endl; return 3; }
    Crs C;
    try { backend::spgemm_saad(*A, *B, C, sort); } catch (const std::exception &e) { FAIL("spgemm_saad threw: " << e.what()); }
    print_crs("A*B", C);
    std::string why;
    if (C.nrows != A->nrows || C.ncols != B->ncols) FAIL("spgemm_saad: wrong shape");
    if (!wf(C, why)) FAIL("spgemm_saad: result not well-formed: " << why);
    if (C.nrows && C.nnz != (size_t)C.ptr[C.nrows]) FAIL("spgemm_saad: nnz != ptr[n]");
    std::vector<double> dA = dense(*A), dB = dense(*B), dC = dense(C);
    std::vector<int> pA = pattern(*A), pB = pattern(*B), pC = pattern(C);
    size_t n = A->nrows, m = A->ncols, k = B->ncols;
    for (size_t i = 0; i < n; ++i) for (size_t j = 0; j < k; ++j) {
        double e = 0; int cnt = 0;
        for (size_t l = 0; l < m; ++l) { e += dA[i * m + l] * dB[l * k + j]; cnt += pA[i * m + l] * pB[l * k + j]; }
        if (dC[i * k + j] != e) FAIL("spgemm_saad: entry (" << i << "," << j << ") = " << dC[i * k + j] << " expected " << e);
        if ((pC[i * k + j] > 0) != (cnt > 0)) FAIL("spgemm_saad: pattern differs from the structural product at (" << i << "," << j << ")");
    }
    if (((nodup(*A) && nodup(*B)) || (rows_sorted(*A, false) && rows_sorted(*B, false))) && !nodup(C)) FAIL("spgemm_saad: duplicate column in a row of the result");
    if (sort && !rows_sorted(C, false)) FAIL("spgemm_saad: rows not ascending although sort=true");
    return 0;
}

static int r_scale(const Witness &w) {
    auto A = crs_from(w, "A");
    double sc = w.num("w_s");
    print_crs("A", *A); std::cout << "s=" << sc << std::endl;
    Crs A0(*A);
    backend::scale(*A, sc);
    print_crs("scale(A,s)", *A);
    if (A->nrows != A0.nrows || A->ncols != A0.ncols || A->nnz != A0.nnz) FAIL("scale: sizes changed");
    for (size_t i = 0; i <= A0.nrows; ++i) if (A->ptr[i] != A0.ptr[i]) FAIL("scale: ptr changed");
    for (ptrdiff_t j = 0; j < A0.ptr[A0.nrows]; ++j) {
        if (A->col[j] != A0.col[j]) FAIL("scale: col changed");
        if (A->val[j] != A0.val[j] * sc) FAIL("scale: val[" << j << "] = " << A->val[j] << " expected " << A0.val[j] * sc);
    }
    return 0;
}

static int r_sort_rows(const Witness &w) {
    auto A = crs_from(w, "A");
    print_crs("A", *A);
    Crs A0(*A);
    backend::sort_rows(*A);
    print_crs("sort_rows(A)", *A);
    if (A->nrows != A0.nrows || A->ncols != A0.ncols || A->nnz != A0.nnz) FAIL("sort_rows: sizes changed");
    for (size_t i = 0; i <= A0.nrows; ++i) if (A->ptr[i] != A0.ptr[i]) FAIL("sort_rows: ptr changed");
    if (!rows_sorted(*A, false)) FAIL("sort_rows: a row is not ascending");
    for (size_t i = 0; i < A0.nrows; ++i) for (ptrdiff_t k = A0.ptr[i]; k < A0.ptr[i + 1]; ++k) {
        int a = 0, b = 0;
        for (ptrdiff_t l = A0.ptr[i]; l < A0.ptr[i + 1]; ++l) { if (A0.col[l] == A0.col[k] && A0.val[l] == A0.val[k]) ++a; if (A->col[l] == A0.col[k] && A->val[l] == A0.val[k]) ++b; }
        if (a != b) FAIL("sort_rows: row " << i << " pair (" << A0.col[k] << "," << A0.val[k] << ") occurs " << a << " times before, " << b << " times after");
    }
    return 0;
}

int main(int argc, char **argv) {
    if (argc < 3) return 2;
    std::signal(SIGSEGV, on_crash); std::signal(SIGABRT, on_crash);
    std::string unit = argv[1];
    Witness w;
    if (!w.load(std::string(argv[2]) + ".in")) { std::cout << "no witness input" << std::endl; return 3; }
    if (unit == "builtin_transpose") return r_transpose(w);
    if (unit == "sort_row" || unit == "sort_row_safety") return r_sort_row(w);
    if (unit == "builtin_pointwise_matrix") return r_pointwise(w);
    if (unit == "builtin_sum") return r_sum(w);
    if (unit == "spgemm_saad") return r_spgemm_saad(w);
    if (unit == "builtin_scale") return r_scale(w);
    if (unit == "builtin_sort_rows") return r_sort_rows(w);
    std::cout << "no replay for unit " << unit << std::endl;
    return 3;
}
