// replay of kernel-unit witnesses against the real amgcl templates
#include "witness.hpp"
#include <amgcl/detail/sort_row.hpp>
#include <amgcl/detail/spgemm.hpp>
#include <amgcl/value_type/static_matrix.hpp>
#include <amgcl/adapter/crs_tuple.hpp>
#include <csignal>
#include <unistd.h>
using namespace amgcl;

// a crash of the real code on a witness input (heap corruption detected by glibc, segfault) is a
// reproduction: report it as such instead of dying with a signal
static void on_crash(int sig) {
    const char msg[] = "\nREPRODUCED on the real code: the call crashed (SIGSEGV/SIGABRT: memory corruption)\n";
    if (write(1, msg, sizeof(msg) - 1)) {}
    (void)sig;
    _exit(1);
}

static int r_transpose(const Witness &w) {
    auto A = crs_from(w, "A");
    print_crs("A", *A);
    auto T = backend::transpose(*A);
    print_crs("transpose(A)", *T);
    std::string why;
    if (T->nrows != A->ncols || T->ncols != A->nrows) FAIL("transpose: dimensions not swapped");
    if (!wf(*T, why)) FAIL("transpose: result not well-formed: " << why);
    if ((size_t)T->ptr[T->nrows] != (size_t)A->ptr[A->nrows]) FAIL("transpose: nnz differs");
    std::vector<double> dA = dense(*A), dT = dense(*T);
    for (size_t i = 0; i < T->nrows; ++i) for (size_t j = 0; j < T->ncols; ++j)
        if (dT[i * T->ncols + j] != dA[j * A->ncols + i]) FAIL("transpose: entry (" << i << "," << j << ") = " << dT[i * T->ncols + j] << " expected " << dA[j * A->ncols + i]);
    if (!rows_sorted(*T, false)) FAIL("transpose: rows not ascending");
    return 0;
}

static int r_sort_row(const Witness &w) {
    if (!w.has("w_n")) { std::cout << "no witness input (inductive unit: no concrete trace)" << std::endl; return 3; }
    int n = (int)w.num("w_n");
    std::vector<double> c = w.arr("w_col"), v = w.arr("w_val");
    size_t len = n > 0 ? (size_t)n : 0;
    if (c.size() < len || v.size() < len) { std::cout << "witness too short" << std::endl; return 3; }
    std::vector<ptrdiff_t> col(len + 1, 0), col0; std::vector<double> val(len + 1, 0.0), val0;
    for (size_t k = 0; k < len; ++k) { col[k] = (ptrdiff_t)c[k]; val[k] = v[k]; }
    col[len] = 424242; val[len] = 424242.0;   // guard cell after the row
    col0 = col; val0 = val;
    std::cout << "sort_row input n=" << n << ":"; for (size_t k = 0; k < len; ++k) std::cout << " " << col[k] << ":" << val[k]; std::cout << std::endl;
    amgcl::detail::sort_row(col.data(), val.data(), n);
    std::cout << "sort_row output:"; for (size_t k = 0; k < len; ++k) std::cout << " " << col[k] << ":" << val[k]; std::cout << std::endl;
    for (size_t k = 0; k + 1 < len; ++k) if (!(col[k] <= col[k + 1])) FAIL("sort_row: columns not ascending at position " << k);
    for (size_t k = 0; k < len; ++k) {
        int a = 0, b = 0;
        for (size_t l = 0; l < len; ++l) { if (col0[l] == col0[k] && val0[l] == val0[k]) ++a; if (col[l] == col0[k] && val[l] == val0[k]) ++b; }
        if (a != b) FAIL("sort_row: pair (" << col0[k] << "," << val0[k] << ") occurs " << a << " times in the input, " << b << " times in the output");
    }
    if (col[len] != 424242 || val[len] != 424242.0) FAIL("sort_row: cell after the row modified");
    return 0;
}

static int r_pointwise(const Witness &w) {
    auto A = crs_from(w, "A");
    unsigned bs = (unsigned)w.num("w_bs", 0);
    if (bs == 0) { std::cout << "no block size in witness" << std::endl; return 3; }
    print_crs("A", *A);
    std::cout << "block_size = " << bs << std::endl;
    std::shared_ptr<Crs> P;
    try { P = backend::pointwise_matrix(*A, bs); } catch (const std::exception &e) { FAIL("pointwise_matrix threw: " << e.what()); }
    print_crs("pointwise_matrix(A)", *P);
    std::string why;
    size_t np = A->nrows / bs, mp = A->ncols / bs;
    if (P->nrows != np || P->ncols != mp) FAIL("pointwise_matrix: wrong dimensions");
    if (!wf(*P, why)) FAIL("pointwise_matrix: result not well-formed: " << why);
    if (P->nrows && P->nnz != (size_t)P->ptr[P->nrows]) FAIL("pointwise_matrix: nnz != ptr[n]");
    if (!rows_sorted(*P, true)) FAIL("pointwise_matrix: rows not strictly ascending");
    // independent oracle: dense presence / max-norm per block
    std::vector<int> cnt(np * mp, 0); std::vector<double> mx(np * mp, 0.0);
    for (size_t i = 0; i < A->nrows; ++i) for (ptrdiff_t j = A->ptr[i]; j < A->ptr[i + 1]; ++j) {
        size_t b = (i / bs) * mp + (size_t)A->col[j] / bs;
        cnt[b]++; mx[b] = std::max(mx[b], std::fabs(A->val[j]));
    }
    std::vector<int> st(np * mp, 0); std::vector<double> pv(np * mp, 0.0);
    for (size_t i = 0; i < np; ++i) for (ptrdiff_t j = P->ptr[i]; j < P->ptr[i + 1]; ++j) { st[i * mp + P->col[j]]++; pv[i * mp + P->col[j]] = P->val[j]; }
    for (size_t i = 0; i < np; ++i) for (size_t j = 0; j < mp; ++j) {
        if ((cnt[i * mp + j] > 0) != (st[i * mp + j] > 0)) FAIL("pointwise_matrix: block (" << i << "," << j << ") has " << cnt[i * mp + j] << " entries in A but is " << (st[i * mp + j] ? "stored" : "missing") << " in the result");
        if (st[i * mp + j] && pv[i * mp + j] != mx[i * mp + j]) FAIL("pointwise_matrix: block (" << i << "," << j << ") = " << pv[i * mp + j] << " expected largest norm " << mx[i * mp + j]);
    }
    return 0;
}

static bool nodup(const Crs &A) {
    for (size_t i = 0; i < A.nrows; ++i) for (ptrdiff_t j = A.ptr[i]; j < A.ptr[i + 1]; ++j)
        for (ptrdiff_t k = j + 1; k < A.ptr[i + 1]; ++k) if (A.col[j] == A.col[k]) return false;
    return true;
}
static std::vector<int> pattern(const Crs &A) {
    std::vector<int> d(A.nrows * A.ncols, 0);
    for (size_t i = 0; i < A.nrows; ++i) for (ptrdiff_t j = A.ptr[i]; j < A.ptr[i + 1]; ++j) d[i * A.ncols + A.col[j]]++;
    return d;
}
static int r_sum(const Witness &w) {
    auto A = crs_from(w, "A"), B = crs_from(w, "B");
    double alpha = w.num("w_alpha"), beta = w.num("w_beta"); bool sort = w.num("w_sort") != 0;
    print_crs("A", *A); print_crs("B", *B);
    std::cout << "alpha=" << alpha << " beta=" << beta << " sort=" << sort << std::endl;
    std::shared_ptr<Crs> C;
    try { C = backend::sum(alpha, *A, beta, *B, sort); } catch (const std::exception &e) { FAIL("sum threw: " << e.what()); }
    print_crs("sum", *C);
    std::string why;
    if (C->nrows != A->nrows || C->ncols != A->ncols) FAIL("sum: wrong shape");
    if (!wf(*C, why)) FAIL("sum: result not well-formed: " << why);
    if (C->nrows && C->nnz != (size_t)C->ptr[C->nrows]) FAIL("sum: nnz != ptr[n]");
    std::vector<double> dA = dense(*A), dB = dense(*B), dC = dense(*C);
    std::vector<int> pA = pattern(*A), pB = pattern(*B), pC = pattern(*C);
    for (size_t k = 0; k < dC.size(); ++k) {
        if (dC[k] != alpha * dA[k] + beta * dB[k]) FAIL("sum: entry (" << k / C->ncols << "," << k % C->ncols << ") = " << dC[k] << " expected " << alpha * dA[k] + beta * dB[k]);
        if ((pC[k] > 0) != (pA[k] > 0 || pB[k] > 0)) FAIL("sum: pattern differs from the union at (" << k / C->ncols << "," << k % C->ncols << ")");
    }
    if (((nodup(*A) && nodup(*B)) || (rows_sorted(*A, false) && rows_sorted(*B, false))) && !nodup(*C)) FAIL("sum: duplicate column in a row of the result");
    if (sort && !rows_sorted(*C, false)) FAIL("sum: rows not ascending although sort=true");
    return 0;
}

static int r_spgemm_saad(const Witness &w) {
    auto A = crs_from(w, "A"), B = crs_from(w, "B");
    bool sort = w.num("w_sort") != 0;
    print_crs("A", *A); print_crs("B", *B); std::cout << "sort=" << sort << std::endl;
    if (A->ncols != B->nrows) { std::cout << "incompatible witness" << std::endl; return 3; }
    Crs C;
    try { backend::spgemm_saad(*A, *B, C, sort); } catch (const std::exception &e) { FAIL("spgemm_saad threw: " << e.what()); }
    print_crs("A*B", C);
    std::string why;
    if (C.nrows != A->nrows || C.ncols != B->ncols) FAIL("spgemm_saad: wrong shape");
    if (!wf(C, why)) FAIL("spgemm_saad: result not well-formed: " << why);
    if (C.nrows && C.nnz != (size_t)C.ptr[C.nrows]) FAIL("spgemm_saad: nnz != ptr[n]");
    std::vector<double> dA = dense(*A), dB = dense(*B), dC = dense(C);
    std::vector<int> pA = pattern(*A), pB = pattern(*B), pC = pattern(C);
    size_t n = A->nrows, m = A->ncols, k = B->ncols;
    for (size_t i = 0; i < n; ++i) for (size_t j = 0; j < k; ++j) {
        double e = 0; int cnt = 0;
        for (size_t l = 0; l < m; ++l) { e += dA[i * m + l] * dB[l * k + j]; cnt += pA[i * m + l] * pB[l * k + j]; }
        if (dC[i * k + j] != e) FAIL("spgemm_saad: entry (" << i << "," << j << ") = " << dC[i * k + j] << " expected " << e);
        if ((pC[i * k + j] > 0) != (cnt > 0)) FAIL("spgemm_saad: pattern differs from the structural product at (" << i << "," << j << ")");
    }
    if (((nodup(*A) && nodup(*B)) || (rows_sorted(*A, false) && rows_sorted(*B, false))) && !nodup(C)) FAIL("spgemm_saad: duplicate column in a row of the result");
    if (sort && !rows_sorted(C, false)) FAIL("spgemm_saad: rows not ascending although sort=true");
    return 0;
}

static int r_scale(const Witness &w) {
    auto A = crs_from(w, "A");
    double sc = w.num("w_s");
    print_crs("A", *A); std::cout << "s=" << sc << std::endl;
    Crs A0(*A);
    backend::scale(*A, sc);
    print_crs("scale(A,s)", *A);
    if (A->nrows != A0.nrows || A->ncols != A0.ncols || A->nnz != A0.nnz) FAIL("scale: sizes changed");
    for (size_t i = 0; i <= A0.nrows; ++i) if (A->ptr[i] != A0.ptr[i]) FAIL("scale: ptr changed");
    for (ptrdiff_t j = 0; j < A0.ptr[A0.nrows]; ++j) {
        if (A->col[j] != A0.col[j]) FAIL("scale: col changed");
        if (A->val[j] != A0.val[j] * sc) FAIL("scale: val[" << j << "] = " << A->val[j] << " expected " << A0.val[j] * sc);
    }
    return 0;
}

static int r_sort_rows(const Witness &w) {
    auto A = crs_from(w, "A");
    print_crs("A", *A);
    Crs A0(*A);
    backend::sort_rows(*A);
    print_crs("sort_rows(A)", *A);
    if (A->nrows != A0.nrows || A->ncols != A0.ncols || A->nnz != A0.nnz) FAIL("sort_rows: sizes changed");
    for (size_t i = 0; i <= A0.nrows; ++i) if (A->ptr[i] != A0.ptr[i]) FAIL("sort_rows: ptr changed");
    if (!rows_sorted(*A, false)) FAIL("sort_rows: a row is not ascending");
    for (size_t i = 0; i < A0.nrows; ++i) for (ptrdiff_t k = A0.ptr[i]; k < A0.ptr[i + 1]; ++k) {
        int a = 0, b = 0;
        for (ptrdiff_t l = A0.ptr[i]; l < A0.ptr[i + 1]; ++l) { if (A0.col[l] == A0.col[k] && A0.val[l] == A0.val[k]) ++a; if (A->col[l] == A0.col[k] && A->val[l] == A0.val[k]) ++b; }
        if (a != b) FAIL("sort_rows: row " << i << " pair (" << A0.col[k] << "," << A0.val[k] << ") occurs " << a << " times before, " << b << " times after");
    }
    return 0;
}


// ------------------------------------------------------------------------------------------------
// units of c08_kernels2.py
// ------------------------------------------------------------------------------------------------
// witness values of UF units are opaque tokens: map them to generic non-zero doubles (token + 1.5, alternating sign)
static void tokens_to_values(Crs &A) {
    for (ptrdiff_t j = 0; j < (A.nrows ? A.ptr[A.nrows] : 0); ++j) A.val[j] = (j % 2 ? 1.0 : -1.0) * (A.val[j] + 1.5);
}
static int r_inductive_only(const char *what) {
    std::cout << what << ": inductive / loop-free unit, a failed proof obligation has no concrete input trace" << std::endl;
    return 3;
}
static bool close_to(double a, double b) { return std::fabs(a - b) <= 1e-12 * (std::fabs(a) + std::fabs(b)) || a == b; }


// the same pattern with 2x2 block values (the unit is proved in the UF model, i.e. for every value type): for blocks
// norm(inverse(d)) != 1 / norm(d), non-commuting products -- oracle with hand-written Frobenius norm and 2x2 inverse
static int gershgorin_blocks(const Crs &A, bool scale, int pi) {
    typedef amgcl::static_matrix<double, 2, 2> B;
    size_t n = A.nrows;
    std::vector<ptrdiff_t> ptr(A.ptr, A.ptr + n + 1), col(A.col, A.col + A.ptr[n]);
    std::vector<B> val(A.ptr[n]);
    for (size_t i = 0; i < n; ++i) for (ptrdiff_t j = A.ptr[i]; j < A.ptr[i + 1]; ++j) {
        double v = A.val[j];
        val[j](0, 0) = v; val[j](0, 1) = 0.25 * (j + 1); val[j](1, 0) = -0.5; val[j](1, 1) = 3 * v + ((size_t)A.col[j] == i ? 4.0 : 0.0);
    }
    auto fro = [](const B &b) { return std::sqrt(b(0,0)*b(0,0) + b(0,1)*b(0,1) + b(1,0)*b(1,0) + b(1,1)*b(1,1)); };
    double expect = 0;
    for (size_t i = 0; i < n; ++i) {
        double s = 0, dn = 1;
        for (ptrdiff_t j = ptr[i]; j < ptr[i + 1]; ++j) {
            s += fro(val[j]);
            if ((size_t)col[j] == i) {
                const B &d = val[j]; double det = d(0,0) * d(1,1) - d(0,1) * d(1,0);
                if (std::fabs(det) < 1e-9) { std::cout << "block lift: singular diagonal block, skipped" << std::endl; return 0; }
                B inv; inv(0,0) = d(1,1) / det; inv(0,1) = -d(0,1) / det; inv(1,0) = -d(1,0) / det; inv(1,1) = d(0,0) / det;
                dn = fro(inv);
            }
        }
        if (scale) s *= dn;
        expect = std::max(expect, s);
    }
    backend::crs<B> Ab(std::make_tuple(n, ptr, col, val));
    double got = scale ? backend::spectral_radius<true>(Ab, pi) : backend::spectral_radius<false>(Ab, pi);
    std::cout << "2x2 block lift: spectral_radius = " << got << " expected (Gershgorin, Frobenius block norm, norm of the INVERSE diagonal block) " << expect << std::endl;
    if (std::fabs(got - expect) > 1e-9 * (1 + std::fabs(expect))) FAIL("spectral_radius<" << (scale ? "true" : "false") << "> on 2x2 block values = " << got << " but max_i sum_j norm(a_ij) * norm(inverse(a_ii)) = " << expect);
    return 0;
}

static int r_gershgorin(const Witness &w) {
    if (!w.has("w_A_nrows")) {
        // inductive unit: a failed proof obligation has no concrete input; run the block lift of a fixed sample (both scalings)
        Crs S; S.set_size(2, 2, true); S.ptr[0] = 0; S.ptr[1] = 2; S.ptr[2] = 4; S.set_nonzeros(4);
        S.col[0] = 0; S.col[1] = 1; S.col[2] = 1; S.col[3] = 0; S.val[0] = 2; S.val[1] = -1; S.val[2] = 3; S.val[3] = -1;
        int rc = gershgorin_blocks(S, true, 0); if (!rc) rc = gershgorin_blocks(S, false, 0);
        return rc ? rc : 3;
    }
    auto A = crs_from(w, "A");
    bool scale = w.num("w_scale") != 0; int pi = (int)w.num("w_power_iters");
    tokens_to_values(*A);
    print_crs("A", *A); std::cout << "scale=" << scale << " power_iters=" << pi << std::endl;
    if (A->nrows != A->ncols || pi > 0) { std::cout << "witness outside the precondition" << std::endl; return 3; }
    // independent oracle: max_i sum_j |a_ij| [ / |a_ii| ]
    double expect = 0;
    for (size_t i = 0; i < A->nrows; ++i) {
        double s = 0, d = 1; int nd = 0;
        for (ptrdiff_t j = A->ptr[i]; j < A->ptr[i + 1]; ++j) { s += std::fabs(A->val[j]); if ((size_t)A->col[j] == i) { d = A->val[j]; ++nd; } }
        if (scale) { if (nd != 1) { std::cout << "witness outside the precondition (diagonal)" << std::endl; return 3; } s *= std::fabs(1 / d); }
        expect = std::max(expect, s);
    }
    double got = scale ? backend::spectral_radius<true>(*A, pi) : backend::spectral_radius<false>(*A, pi);
    std::cout << "spectral_radius = " << got << " expected (Gershgorin) " << expect << std::endl;
    if (!close_to(got, expect)) FAIL("spectral_radius<" << (scale ? "true" : "false") << ">(A, " << pi << ") = " << got << " but max row sum = " << expect);
    return gershgorin_blocks(*A, scale, pi);
}


// ---- members of backend::crs.  The dfcc units have no concrete trace; the native side runs a fixed battery of small
// scenarios on the REAL class (plus the witness matrix when there is one) and evaluates the same contract.
static std::shared_ptr<Crs> sample_matrix() {        // 3x3, unsorted row, empty row
    std::shared_ptr<Crs> A = std::make_shared<Crs>();
    A->set_size(3, 3, true);
    A->ptr[1] = 2; A->ptr[2] = 0; A->ptr[3] = 1; A->scan_row_sizes(); A->set_nonzeros();
    A->col[0] = 2; A->val[0] = 5; A->col[1] = 0; A->val[1] = -7; A->col[2] = 1; A->val[2] = 11;
    return A;
}
static bool same_content(const Crs &X, const Crs &Y, std::string &why) {
    if (X.nrows != Y.nrows || X.ncols != Y.ncols || X.nnz != Y.nnz) { why = "sizes differ"; return false; }
    if (!Y.ptr || !Y.col || !Y.val) { if (X.ptr || X.col || X.val) { why = "arrays allocated for an incomplete source"; return false; } return true; }
    if (!X.ptr || !X.col || !X.val) { why = "null array in the copy"; return false; }
    for (size_t i = 0; i <= Y.nrows; ++i) if (X.ptr[i] != Y.ptr[i]) { why = "ptr differs"; return false; }
    for (ptrdiff_t j = Y.ptr[0]; j < Y.ptr[Y.nrows]; ++j) if (X.col[j] != Y.col[j] || X.val[j] != Y.val[j]) { why = "entry differs"; return false; }
    if (X.ptr == Y.ptr || X.col == Y.col || X.val == Y.val) { why = "copy shares an array with the source"; return false; }
    return true;
}
static int r_crs_members(const std::string &unit, const Witness &w) {
    std::shared_ptr<Crs> S = w.has("w_A_nrows") ? crs_from(w, "A") : sample_matrix();
    std::string why;
    if (unit == "crs_copy_ctor") {
        Crs C(*S);
        if (!same_content(C, *S, why)) FAIL("copy constructor: " << why);
        if (!C.own_data) FAIL("copy constructor: the copy does not own its arrays");
        Crs E; E.nrows = 2; E.ncols = 2; E.nnz = 5;                       // incomplete source (null arrays)
        Crs F(E);
        if (F.ptr || F.col || F.val || F.nrows != 2 || F.nnz != 5 || !F.own_data) FAIL("copy constructor: incomplete source not copied as an empty owning matrix");
        E.nrows = E.ncols = E.nnz = 0;
        return 0;
    }
    if (unit == "crs_copy_assign") {
        {   // owning target with old content
            Crs T(*sample_matrix());
            T = *S;
            if (!same_content(T, *S, why)) FAIL("copy assignment (owning target): " << why);
            if (!T.own_data) FAIL("copy assignment: the result does not own its arrays");
        }
        {   // target that borrows the user's arrays (zero-copy view)
            ptrdiff_t up[] = {0, 1, 2}, uc[] = {0, 1}; double uv[] = {1, 2};
            Crs T; T.own_data = false; T.nrows = T.ncols = 2; T.nnz = 2; T.ptr = up; T.col = uc; T.val = uv;
            T = *S;
            bool ok = same_content(T, *S, why);
            bool owns = T.own_data, stale = (T.ptr == up || T.col == uc || T.val == uv);
            bool user_ok = up[0] == 0 && up[1] == 1 && up[2] == 2 && uc[0] == 0 && uc[1] == 1 && uv[0] == 1 && uv[1] == 2;
            if (!owns) { T.own_data = true; }     // let the destructor release what the assignment allocated
            if (!ok) FAIL("copy assignment (borrowing target): " << why);
            if (stale) FAIL("copy assignment (borrowing target): a borrowed array is still referenced");
            if (!user_ok) FAIL("copy assignment (borrowing target): the user's arrays were modified");
            if (!owns) FAIL("copy assignment (borrowing target): own_data is still false although the matrix now holds arrays it allocated itself (they are never freed)");
        }
        {   // self-assignment
            Crs T(*S); Crs K(*S);
            Crs &alias = T;
            T = alias;
            if (T.nrows != K.nrows || T.nnz != K.nnz || (K.ptr && !T.ptr) || (K.col && !T.col) || (K.val && !T.val))
                FAIL("self-assignment destroyed the matrix: nrows=" << T.nrows << " nnz=" << T.nnz << " ptr=" << (void*)T.ptr << " col=" << (void*)T.col << " val=" << (void*)T.val);
            for (size_t i = 0; T.ptr && i <= K.nrows; ++i) if (T.ptr[i] != K.ptr[i]) FAIL("self-assignment changed ptr");
            for (ptrdiff_t j = 0; T.ptr && j < K.ptr[K.nrows]; ++j) if (T.col[j] != K.col[j] || T.val[j] != K.val[j]) FAIL("self-assignment changed an entry");
        }
        return 0;
    }
    if (unit == "crs_move_ctor" || unit == "crs_move_assign") {
        Crs B(*S);
        size_t n = B.nrows, m = B.ncols, z = B.nnz; ptrdiff_t *p = B.ptr, *c = B.col; double *v = B.val; bool o = B.own_data;
        if (unit == "crs_move_ctor") {
            Crs M(std::move(B));
            if (M.nrows != n || M.ncols != m || M.nnz != z || M.ptr != p || M.col != c || M.val != v || M.own_data != o) FAIL("move constructor: the new matrix is not the old source");
            if (B.nrows || B.ncols || B.nnz || B.ptr || B.col || B.val) FAIL("move constructor: the source still holds data (two owners)");
        } else {
            Crs M(*sample_matrix());
            size_t n2 = M.nrows, z2 = M.nnz; ptrdiff_t *p2 = M.ptr, *c2 = M.col; double *v2 = M.val; bool o2 = M.own_data;
            M = std::move(B);
            if (M.nrows != n || M.ncols != m || M.nnz != z || M.ptr != p || M.col != c || M.val != v || M.own_data != o) FAIL("move assignment: the target is not the old source");
            if (B.nrows != n2 || B.nnz != z2 || B.ptr != p2 || B.col != c2 || B.val != v2 || B.own_data != o2) FAIL("move assignment: the old content of the target was not handed to the source object (leak or double owner)");
        }
        return 0;
    }
    if (unit == "crs_set_size") {
        Crs A; A.set_size(4, 7, true);
        if (A.nrows != 4 || A.ncols != 7 || !A.ptr) FAIL("set_size: sizes / ptr not set");
        for (int i = 0; i <= 4; ++i) if (A.ptr[i] != 0) FAIL("set_size(clean_ptr): ptr[" << i << "] != 0");
        if (A.col || A.val || A.nnz != 0 || !A.own_data) FAIL("set_size: touched col / val / nnz / own_data");
        bool thrown = false; try { A.set_size(2, 2); } catch (const std::exception&) { thrown = true; }
        if (!thrown) FAIL("set_size on an allocated matrix does not throw");
        if (A.nrows != 4 || A.ncols != 7) FAIL("set_size: throwing call changed the sizes");
        Crs Z; Z.set_size(0, 0, true); if (!Z.ptr || Z.ptr[0] != 0) FAIL("set_size(0,0,true): ptr[0] != 0");
        return 0;
    }
    if (unit == "crs_set_nonzeros_n") {
        Crs A; A.set_nonzeros(5, false);
        if (A.nnz != 5 || !A.col || A.val) FAIL("set_nonzeros(n, false): col must be allocated, val must stay null");
        bool thrown = false; try { A.set_nonzeros(3); } catch (const std::exception&) { thrown = true; }
        if (!thrown || A.nnz != 5) FAIL("set_nonzeros on allocated col does not throw / changes nnz");
        Crs B; B.set_nonzeros(4);
        if (B.nnz != 4 || !B.col || !B.val) FAIL("set_nonzeros(n): col and val must be allocated");
        B.col[3] = 1; B.val[3] = 1;      // ASan-visible if the arrays are too short
        return 0;
    }
    if (unit == "crs_set_nonzeros") {
        Crs A; A.set_size(S->nrows, S->ncols, true);
        for (size_t i = 0; i <= S->nrows; ++i) A.ptr[i] = S->ptr[i];
        A.set_nonzeros();
        if (A.nnz != (size_t)S->ptr[S->nrows] || (A.nnz && (!A.col || !A.val))) FAIL("set_nonzeros(): nnz != ptr[nrows] or arrays missing");
        for (ptrdiff_t j = 0; j < S->ptr[S->nrows]; ++j) if (A.col[j] != 0 || A.val[j] != 0.0) FAIL("set_nonzeros(): cell " << j << " not zero-initialised");
        bool thrown = false; try { A.set_nonzeros(); } catch (const std::exception&) { thrown = true; }
        if (!thrown) FAIL("set_nonzeros() on an allocated matrix does not throw");
        return 0;
    }
    if (unit == "crs_scan_row_sizes") {
        if (!w.has("w_n")) { std::cout << "no witness" << std::endl; return 3; }
        size_t n = (size_t)w.num("w_n"); std::vector<double> p = w.arr("w_ptr");
        if (p.size() < n + 2) p.resize(n + 2, 0.0);
        Crs A; A.set_size(n + 1, 1, true);          // one guard cell beyond ptr[n]
        for (size_t i = 0; i <= n + 1; ++i) A.ptr[i] = (ptrdiff_t)p[i];
        A.nrows = n;
        ptrdiff_t r = A.scan_row_sizes();
        ptrdiff_t acc = 0;
        std::cout << "scan_row_sizes n=" << n << " ->"; for (size_t i = 0; i <= n; ++i) std::cout << " " << A.ptr[i]; std::cout << " returns " << r << std::endl;
        for (size_t i = 0; i <= n; ++i) { acc += (ptrdiff_t)p[i]; if (A.ptr[i] != acc) FAIL("scan_row_sizes: ptr[" << i << "] = " << A.ptr[i] << " expected prefix sum " << acc); }
        if (r != acc) FAIL("scan_row_sizes: returned " << r << " expected " << acc);
        if (A.ptr[n + 1] != (ptrdiff_t)p[n + 1]) FAIL("scan_row_sizes: cell beyond nrows modified");
        A.nrows = n + 1;
        return 0;
    }
    return 3;
}


// ---- row-merge SpGEMM (amgcl/detail/spgemm.hpp)
static std::vector<ptrdiff_t> idx_arr(const Witness &w, const char *k, size_t n) {
    std::vector<double> a = w.arr(k); std::vector<ptrdiff_t> r(n, 0);
    for (size_t i = 0; i < n && i < a.size(); ++i) r[i] = (ptrdiff_t)a[i];
    return r;
}
static bool strictly_ascending(const std::vector<ptrdiff_t> &c) { for (size_t k = 0; k + 1 < c.size(); ++k) if (!(c[k] < c[k + 1])) return false; return true; }
static int r_merge_rows(const Witness &w, bool with_values) {
    if (!w.has("w_n1")) { std::cout << "no witness" << std::endl; return 3; }
    size_t n1 = (size_t)w.num("w_n1"), n2 = (size_t)w.num("w_n2");
    std::vector<ptrdiff_t> c1 = idx_arr(w, "w_col1", n1), c2 = idx_arr(w, "w_col2", n2);
    if (!strictly_ascending(c1) || !strictly_ascending(c2)) { std::cout << "witness outside the precondition" << std::endl; return 3; }
    std::vector<double> v1 = w.arr("w_val1"), v2 = w.arr("w_val2"); v1.resize(n1 + 1, 0.0); v2.resize(n2 + 1, 0.0);
    double a1 = w.num("w_alpha1"), a2 = w.num("w_alpha2"); bool need_out = with_values || w.num("w_need_out") != 0;
    const ptrdiff_t G = 424242;
    std::vector<ptrdiff_t> c3(n1 + n2 + 2, G); std::vector<double> v3(n1 + n2 + 2, 424242.0);
    c1.push_back(0); c2.push_back(0);
    ptrdiff_t *e;
    if (with_values) e = backend::merge_rows(a1, c1.data(), c1.data() + n1, v1.data(), a2, c2.data(), c2.data() + n2, v2.data(), c3.data(), v3.data());
    else if (need_out) e = backend::merge_rows<true>(c1.data(), c1.data() + n1, c2.data(), c2.data() + n2, c3.data());
    else e = backend::merge_rows<false>(c1.data(), c1.data() + n1, c2.data(), c2.data() + n2, c3.data());
    size_t n3 = (size_t)(e - c3.data());
    std::map<ptrdiff_t, double> expect;
    for (size_t k = 0; k < n1; ++k) expect[c1[k]] += a1 * v1[k];
    for (size_t k = 0; k < n2; ++k) expect[c2[k]] += a2 * v2[k];
    std::cout << "merge_rows: n1=" << n1 << " n2=" << n2 << " -> " << n3 << " columns:"; for (size_t k = 0; k < n3 && k < c3.size(); ++k) std::cout << " " << c3[k]; std::cout << std::endl;
    if (n3 != expect.size()) FAIL("merge_rows: returned length " << n3 << " but the union has " << expect.size() << " columns");
    for (size_t k = need_out ? n3 : 0; k < c3.size(); ++k) if (c3[k] != G || v3[k] != 424242.0) FAIL("merge_rows: cell " << k << " beyond the result was written");
    if (need_out) {
        size_t k = 0;
        for (std::map<ptrdiff_t, double>::iterator it = expect.begin(); it != expect.end(); ++it, ++k) {
            if (c3[k] != it->first) FAIL("merge_rows: output column " << k << " is " << c3[k] << " expected " << it->first);
            if (with_values && v3[k] != it->second) FAIL("merge_rows: value at column " << c3[k] << " is " << v3[k] << " expected " << it->second);
        }
    }
    return 0;
}
static int r_prod_row(const Witness &w, bool with_values) {
    if (!w.has("w_na")) { std::cout << "no witness" << std::endl; return 3; }
    auto B = crs_from(w, "B");
    size_t na = (size_t)w.num("w_na");
    std::vector<ptrdiff_t> acol = idx_arr(w, "w_acol", na); std::vector<double> aval = w.arr("w_aval"); aval.resize(na + 1, 0.0);
    print_crs("B", *B); std::cout << "row of A:"; for (size_t k = 0; k < na; ++k) std::cout << " " << acol[k] << ":" << aval[k]; std::cout << std::endl;
    std::string why;
    if (!wf(*B, why) || !rows_sorted(*B, true)) { std::cout << "witness outside the precondition" << std::endl; return 3; }
    size_t W = 0; std::map<ptrdiff_t, double> expect;
    for (size_t k = 0; k < na; ++k) {
        if (acol[k] < 0 || (size_t)acol[k] >= B->nrows) { std::cout << "witness outside the precondition" << std::endl; return 3; }
        W += B->ptr[acol[k] + 1] - B->ptr[acol[k]];
        for (ptrdiff_t j = B->ptr[acol[k]]; j < B->ptr[acol[k] + 1]; ++j) expect[B->col[j]] += aval[k] * B->val[j];
    }
    acol.push_back(0);
    const ptrdiff_t G = 424242;
    if (!with_values) {
        std::vector<ptrdiff_t> T(3 * W + 1, G);         // exactly what spgemm_rmerge hands out (+ one guard cell); ASan-visible otherwise
        ptrdiff_t r = backend::prod_row_width(acol.data(), acol.data() + na, B->ptr, B->col, T.data(), T.data() + W, T.data() + 2 * W);
        std::cout << "prod_row_width = " << r << " expected " << expect.size() << std::endl;
        if ((size_t)r != expect.size()) FAIL("prod_row_width: returned " << r << " but the union of the selected rows has " << expect.size() << " columns");
        if (T[3 * W] != G) FAIL("prod_row_width: wrote beyond the scratch");
        return 0;
    }
    size_t U = expect.size();
    std::vector<ptrdiff_t> TC(2 * W + 1, G), OC(U + 1, G); std::vector<double> TV(2 * W + 1, 424242.0), OV(U + 1, 424242.0);
    backend::prod_row(acol.data(), acol.data() + na, aval.data(), B->ptr, B->col, B->val, OC.data(), OV.data(), TC.data(), TV.data(), TC.data() + W, TV.data() + W);
    std::cout << "prod_row ->"; for (size_t k = 0; k < U; ++k) std::cout << " " << OC[k] << ":" << OV[k]; std::cout << std::endl;
    if (OC[U] != G || OV[U] != 424242.0 || TC[2 * W] != G || TV[2 * W] != 424242.0) FAIL("prod_row: wrote beyond the output row / the scratch");
    size_t k = 0;
    for (std::map<ptrdiff_t, double>::iterator it = expect.begin(); it != expect.end(); ++it, ++k) {
        if (OC[k] != it->first) FAIL("prod_row: output column " << k << " is " << OC[k] << " expected " << it->first);
        if (OV[k] != it->second) FAIL("prod_row: value at column " << OC[k] << " is " << OV[k] << " expected " << it->second);
    }
    return 0;
}
static int r_spgemm_rmerge(const Witness &w) {
    if (!w.has("w_A_nrows")) { std::cout << "no witness" << std::endl; return 3; }
    auto A = crs_from(w, "A"), B = crs_from(w, "B");
    print_crs("A", *A); print_crs("B", *B);
    std::string why;
    if (A->ncols != B->nrows || !wf(*A, why) || !wf(*B, why) || !rows_sorted(*B, true)) { std::cout << "witness outside the precondition" << std::endl; return 3; }
    Crs C;
    try { backend::spgemm_rmerge(*A, *B, C); } catch (const std::exception &e) { FAIL("spgemm_rmerge threw: " << e.what()); }
    print_crs("A*B (rmerge)", C);
    if (C.nrows != A->nrows || C.ncols != B->ncols) FAIL("spgemm_rmerge: wrong shape");
    if (!wf(C, why)) FAIL("spgemm_rmerge: result not well-formed: " << why);
    if (C.nrows && C.nnz != (size_t)C.ptr[C.nrows]) FAIL("spgemm_rmerge: nnz != ptr[n]");
    std::vector<double> dA = dense(*A), dB = dense(*B), dC = dense(C);
    std::vector<int> pA = pattern(*A), pB = pattern(*B), pC = pattern(C);
    size_t n = A->nrows, m = A->ncols, k = B->ncols;
    for (size_t i = 0; i < n; ++i) for (size_t j = 0; j < k; ++j) {
        double e = 0; int cnt = 0;
        for (size_t l = 0; l < m; ++l) { e += dA[i * m + l] * dB[l * k + j]; cnt += pA[i * m + l] * pB[l * k + j]; }
        if (dC[i * k + j] != e) FAIL("spgemm_rmerge: entry (" << i << "," << j << ") = " << dC[i * k + j] << " expected " << e);
        if ((pC[i * k + j] > 0) != (cnt > 0)) FAIL("spgemm_rmerge: pattern differs from the structural product at (" << i << "," << j << ")");
    }
    if (!rows_sorted(C, true)) FAIL("spgemm_rmerge: a row of the result is not strictly ascending (unsorted or duplicate column)");
    return 0;
}

int main(int argc, char **argv) {
    if (argc < 3) return 2;
    std::signal(SIGSEGV, on_crash); std::signal(SIGABRT, on_crash);
    std::string unit = argv[1];
    Witness w;
    if (!w.load(std::string(argv[2]) + ".in")) { std::cout << "no witness input" << std::endl; return 3; }
    if (unit == "builtin_transpose") return r_transpose(w);
    if (unit == "sort_row" || unit == "sort_row_safety") return r_sort_row(w);
    if (unit == "builtin_pointwise_matrix") return r_pointwise(w);
    if (unit == "builtin_sum") return r_sum(w);
    if (unit == "spgemm_saad") return r_spgemm_saad(w);
    if (unit == "builtin_scale") return r_scale(w);
    if (unit == "builtin_sort_rows") return r_sort_rows(w);
    if (unit == "builtin_diagonal") return r_inductive_only("diagonal");
    if (unit == "builtin_scale_inductive") return r_inductive_only("scale");
    if (unit == "builtin_spectral_radius_gershgorin" || unit == "builtin_spectral_radius_gershgorin_inductive") return r_gershgorin(w);
    if (unit == "builtin_product_dispatch") return r_inductive_only("product dispatch");
    if (unit == "spgemm_merge_rows_cols") return r_merge_rows(w, false);
    if (unit == "spgemm_merge_rows_vals") return r_merge_rows(w, true);
    if (unit == "spgemm_prod_row_width") return r_prod_row(w, false);
    if (unit == "spgemm_prod_row") return r_prod_row(w, true);
    if (unit == "spgemm_rmerge") return r_spgemm_rmerge(w);
    if (unit.compare(0, 4, "crs_") == 0) return r_crs_members(unit, w);
    std::cout << "no replay for unit " << unit << std::endl;
    return 3;
}
