// replay of C16 witnesses (cuthill_mckee, skyline_lu) against the real amgcl templates.
// Out-of-bounds std::vector subscripts in the real code are made visible by libstdc++'s
// checked operator[] (_GLIBCXX_ASSERTIONS -> abort -> reported as REPRODUCED).
#define _GLIBCXX_ASSERTIONS 1
#include <csignal>
#include <unistd.h>
#include <algorithm>
#include <vector>
#include <cstdio>
#include <cstdlib>
#include <fstream>
#include <iostream>
#include <map>
#include <sstream>
#include <string>
#include <cmath>
#include <memory>
#include <numeric>
#include <complex>
#include <type_traits>
#include <stdexcept>
#include <array>
#include <tuple>
#include <set>
#include <iterator>
#include <limits>
#include <omp.h>
// the structure contract speaks about the private members perm / ptr / L / U / D of skyline_lu
// (builtin.hpp includes skyline_lu.hpp, so the switch has to precede every amgcl header)
#define private public
#include <amgcl/solver/skyline_lu.hpp>
#undef private
#include "witness.hpp"
#include <amgcl/reorder/cuthill_mckee.hpp>
using namespace amgcl;

static void on_abort(int) {
    const char m[] = "REPRODUCED on the real code: abort (libstdc++ assertion: std::vector subscript out of range)\n";
    if (write(1, m, sizeof(m) - 1)) {}
    _exit(1);
}
static void on_alarm(int) {
    const char m[] = "REPRODUCED on the real code: no termination within 20 s\n";
    if (write(1, m, sizeof(m) - 1)) {}
    _exit(1);
}

static void arm() {
    signal(SIGABRT, on_abort);
    signal(SIGALRM, on_alarm);
    alarm(20);
}

template <class P>
static bool is_permutation_of_0n(const std::vector<P> &perm, size_t n, std::string &why) {
    std::vector<int> seen(n, 0);
    if (perm.size() != n) { why = "wrong length"; return false; }
    for (size_t i = 0; i < n; ++i) {
        if (perm[i] < 0 || (size_t)perm[i] >= n) { std::ostringstream s; s << "perm[" << i << "] = " << perm[i] << " not in 0.." << n - 1; why = s.str(); return false; }
        if (seen[perm[i]]++) { std::ostringstream s; s << "value " << perm[i] << " occurs twice (second time at perm[" << i << "])"; why = s.str(); return false; }
    }
    return true;
}

template <bool reverse>
static int r_cuthill_mckee(const Witness &w) {
    std::shared_ptr<Crs> A;
    try { A = crs_from(w, "A"); } catch (...) { std::cout << "witness does not describe a matrix" << std::endl; return 3; }
    print_crs("A", *A);
    size_t n = A->nrows;
    std::vector<ptrdiff_t> perm(n, -1);   // -1: a cell that is never written is out of range
    arm();
    try {
        reorder::cuthill_mckee<reverse>::get(*A, perm);
    } catch (const std::exception &e) {
        FAIL("cuthill_mckee<" << reverse << ">::get threw on a valid matrix: " << e.what());
    }
    std::cout << "perm:";
    for (size_t i = 0; i < n; ++i) std::cout << " " << perm[i];
    std::cout << std::endl;
    std::string why;
    if (!is_permutation_of_0n(perm, n, why)) FAIL("cuthill_mckee<" << reverse << ">: perm is not a permutation of 0..n-1: " << why);
    return 0;
}


// ---------------------------------------------------------------- skyline_lu
// the ordering policy is a template parameter of the real class: the witness permutation
// (any permutation, as the unit assumes of the callee) is fed through it
static std::vector<int> g_wperm;
struct witness_ordering {
    template <class Matrix, class Vector>
    static void get(const Matrix &, Vector &perm) { for (size_t i = 0; i < g_wperm.size() && i < perm.size(); ++i) perm[i] = g_wperm[i]; }
};
typedef solver::skyline_lu<double, witness_ordering> Sky;

static bool load_perm(const Witness &w, size_t n, std::vector<int> &p) {
    std::vector<double> a = w.arr("w_perm");
    if (a.size() < n) return false;
    p.resize(n);
    for (size_t i = 0; i < n; ++i) p[i] = (int)a[i];
    std::string why;
    return is_permutation_of_0n(p, n, why);
}

// dense LU without pivoting of P A P^T in long double: independent oracle for "needs no pivoting"
// and for the solution
static bool dense_solve(const std::vector<double> &A, size_t n, const std::vector<int> &perm,
                        const std::vector<double> &b, std::vector<double> &x, bool &zero_pivot) {
    std::vector<long double> M(n * n), y(n);
    for (size_t i = 0; i < n; ++i) { y[i] = b[perm[i]]; for (size_t j = 0; j < n; ++j) M[i * n + j] = A[perm[i] * n + perm[j]]; }
    zero_pivot = false;
    for (size_t k = 0; k < n; ++k) {
        if (std::fabs((double)M[k * n + k]) < 1e-13) { zero_pivot = true; return false; }
        for (size_t i = k + 1; i < n; ++i) {
            long double f = M[i * n + k] / M[k * n + k];
            for (size_t j = k; j < n; ++j) M[i * n + j] -= f * M[k * n + j];
            y[i] -= f * y[k];
        }
    }
    for (size_t k = n; k-- > 0; ) { for (size_t j = k + 1; j < n; ++j) y[k] -= M[k * n + j] * y[j]; y[k] /= M[k * n + k]; }
    x.assign(n, 0.0);
    for (size_t i = 0; i < n; ++i) x[perm[i]] = (double)y[i];
    return true;
}

// constructor witness: pattern of A + which values are zero + the permutation
static int sky_ctor_on(const std::shared_ptr<Crs> &A) {
    size_t n = A->nrows;
    print_crs("A", *A);
    std::cout << "perm:"; for (size_t i = 0; i < n; ++i) std::cout << " " << g_wperm[i]; std::cout << std::endl;
    std::vector<double> dA = dense(*A), b(n), x(n, NAN), xr;
    for (size_t i = 0; i < n; ++i) b[i] = 1.0 + i;
    bool zero_pivot = false, ok = dense_solve(dA, n, g_wperm, b, xr, zero_pivot), thrown = false;
    arm();
    try {
        Sky S(*A);
        // structure contract on the private members (after factorize the structure is unchanged)
        for (size_t i = 0; i < n; ++i) if (S.perm[i] != g_wperm[i]) FAIL("skyline_lu: perm changed after ordering::get");
        if (S.ptr.size() != n + 1 || S.ptr[0] != 0) FAIL("skyline_lu: ptr does not start at 0");
        for (size_t i = 0; i < n; ++i) if (S.ptr[i + 1] < S.ptr[i] || S.ptr[i + 1] - S.ptr[i] > (int)i) FAIL("skyline_lu: profile row/column " << i << " has " << S.ptr[i + 1] - S.ptr[i] << " cells (must be 0.." << i << ")");
        if (S.L.size() != (size_t)S.ptr[n] || S.U.size() != (size_t)S.ptr[n]) FAIL("skyline_lu: L/U do not have ptr[n] cells");
        std::vector<int> pos(n);
        for (size_t i = 0; i < n; ++i) pos[g_wperm[i]] = (int)i;
        for (size_t i = 0; i < n; ++i) for (ptrdiff_t j = A->ptr[i]; j < A->ptr[i + 1]; ++j) if (A->val[j] != 0) {
            int r = pos[i], c = pos[A->col[j]], d = r < c ? c - r : r - c, o = r < c ? c : r;
            if (d > S.ptr[o + 1] - S.ptr[o]) FAIL("skyline_lu: non-zero A(" << i << "," << A->col[j] << ") lies outside the profile");
        }
        S(b, x);
    } catch (const std::exception &e) { thrown = true; std::cout << "exception: " << e.what() << std::endl; }
    if (!ok && zero_pivot) { if (!thrown) FAIL("skyline_lu: zero pivot (dense LU without pivoting of P A P^T) not reported by an exception"); return 0; }
    if (thrown) FAIL("skyline_lu threw on a matrix that needs no pivoting");
    for (size_t i = 0; i < n; ++i) if (!(std::fabs(x[i] - xr[i]) <= 1e-9 * (1 + std::fabs(xr[i])))) FAIL("skyline_lu: x[" << i << "] = " << x[i] << " but the dense solution is " << xr[i]);
    return 0;
}
static int r_sky_ctor(const Witness &w) {
    std::shared_ptr<Crs> A;
    try { A = crs_from(w, "A"); } catch (...) { std::cout << "witness does not describe a matrix" << std::endl; return 3; }
    size_t n = A->nrows;
    std::vector<double> nz = w.arr("w_A_nz");
    if (n == 0 || A->ncols != n || !load_perm(w, n, g_wperm)) { std::cout << "witness has no usable permutation" << std::endl; return 3; }
    // (1) the witness itself: zero where the witness says is_zero, otherwise generic values, dominant diagonal
    for (size_t i = 0; i < n; ++i) for (ptrdiff_t j = A->ptr[i]; j < A->ptr[i + 1]; ++j) {
        bool z = (size_t)j < nz.size() && nz[j] == 0;
        A->val[j] = z ? 0.0 : ((size_t)A->col[j] == i ? 10.0 + j : 0.25 + 0.125 * j);
    }
    int rc = sky_ctor_on(A);
    if (rc != 0) return rc;
    // (2) the witness often has a zero pivot (is_zero is uninterpreted in the model), which hides a wrong
    // profile behind the exception: retry on the same off-diagonal pattern with every stored value non-zero
    // and a dominant diagonal added where it is missing (a concrete input of the real code derived from the witness)
    std::cout << "-- retry on the regularised witness (same off-diagonal pattern, all values non-zero, diagonal added)" << std::endl;
    std::vector<ptrdiff_t> ptr(1, 0), col; std::vector<double> val;
    for (size_t i = 0; i < n; ++i) {
        bool diag = false;
        for (ptrdiff_t j = A->ptr[i]; j < A->ptr[i + 1]; ++j) {
            bool d = (size_t)A->col[j] == i; diag = diag || d;
            col.push_back(A->col[j]); val.push_back(d ? 10.0 + j : 0.25 + 0.125 * j);
        }
        if (!diag) { col.push_back((ptrdiff_t)i); val.push_back(20.0 + i); }
        ptr.push_back((ptrdiff_t)col.size());
    }
    std::shared_ptr<Crs> B = std::make_shared<Crs>();
    B->set_size(n, n, true);
    for (size_t i = 0; i <= n; ++i) B->ptr[i] = ptr[i];
    B->set_nonzeros(col.size());
    for (size_t j = 0; j < col.size(); ++j) { B->col[j] = col[j]; B->val[j] = val[j]; }
    return sky_ctor_on(B);
}

// factorize / solve witness: an arbitrary well-formed object (n, perm, ptr); it is built by the real
// constructor from a 1x1 matrix and then given the witness structure and generic values
static bool sky_from(const Witness &w, std::unique_ptr<Sky> &S, size_t &n) {
    n = (size_t)w.num("w_n");
    std::vector<double> pt = w.arr("w_ptr");
    if (n == 0 || pt.size() < n + 1 || !load_perm(w, n, g_wperm)) return false;
    if (pt[0] != 0) return false;
    for (size_t i = 0; i < n; ++i) if (pt[i + 1] < pt[i] || pt[i + 1] - pt[i] > (double)i) return false;
    Crs one; one.set_size(1, 1, true); one.ptr[1] = 1; one.set_nonzeros(1); one.col[0] = 0; one.val[0] = 1.0;
    std::vector<int> keep = g_wperm; g_wperm.assign(1, 0);
    S.reset(new Sky(one));
    g_wperm = keep;
    S->n = (int)n; S->perm = g_wperm; S->ptr.resize(n + 1);
    for (size_t i = 0; i <= n; ++i) S->ptr[i] = (int)pt[i];
    size_t m = (size_t)S->ptr[n];
    S->L.resize(m); S->U.resize(m); S->D.resize(n); S->y.assign(n, 0.0);
    for (size_t k = 0; k < m; ++k) { S->L[k] = 0.5 + 0.125 * k; S->U[k] = 0.25 + 0.0625 * k; }
    for (size_t i = 0; i < n; ++i) S->D[i] = 8.0 + i;
    std::cout << "n=" << n << " perm:"; for (size_t i = 0; i < n; ++i) std::cout << " " << g_wperm[i];
    std::cout << " ptr:"; for (size_t i = 0; i <= n; ++i) std::cout << " " << S->ptr[i]; std::cout << std::endl;
    return true;
}
static int r_sky_factorize(const Witness &w) {
    std::unique_ptr<Sky> S; size_t n;
    if (!sky_from(w, S, n)) { std::cout << "witness does not describe a well-formed skyline object" << std::endl; return 3; }
    Sky S0 = *S;
    arm();
    try { S->factorize(); } catch (const std::exception &e) { FAIL("factorize threw although every pivot is non-zero: " << e.what()); }
    if (S->n != S0.n || S->perm != S0.perm || S->ptr != S0.ptr || S->L.size() != S0.L.size() || S->U.size() != S0.U.size()) FAIL("factorize modified the structure");
    if (n <= 2) {   // closed form (Crout, unit upper triangle, D = inverse pivots)
        double d0 = 1.0 / S0.D[0];
        if (S->D[0] != d0) FAIL("factorize: D[0] = " << S->D[0] << " expected " << d0);
        if (n == 2) {
            double piv = S0.D[1];
            if (S0.ptr[2] == 1) {
                double u = d0 * S0.U[0];
                if (S->U[0] != u) FAIL("factorize: U[0] = " << S->U[0] << " expected " << u);
                if (S->L[0] != S0.L[0]) FAIL("factorize: L[0] modified");
                piv = S0.D[1] - S0.L[0] * u;
            }
            if (std::fabs(S->D[1] - 1.0 / piv) > 1e-12 * std::fabs(1.0 / piv)) FAIL("factorize: D[1] = " << S->D[1] << " expected " << 1.0 / piv);
        }
    }
    return 0;
}
static int r_sky_solve(const Witness &w) {
    std::unique_ptr<Sky> S; size_t n;
    if (!sky_from(w, S, n)) { std::cout << "witness does not describe a well-formed skyline object" << std::endl; return 3; }
    Sky S0 = *S;
    std::vector<double> b(n), x1(n, NAN), x2(n, -7.0);
    for (size_t i = 0; i < n; ++i) b[i] = 1.0 + i;
    arm();
    try {
        (*S)(b, x1);
        for (size_t i = 0; i < n; ++i) S->y[i] = NAN;     // second call: different old workspace, different old x
        (*S)(b, x2);
    } catch (const std::exception &e) { FAIL("solve threw: " << e.what()); }
    for (size_t i = 0; i < n; ++i) if (!(x1[i] == x2[i])) FAIL("solve: x[" << i << "] depends on the previous content of y / x or is not written: " << x1[i] << " vs " << x2[i]);
    if (S->perm != S0.perm || S->ptr != S0.ptr || S->L != S0.L || S->U != S0.U || S->D != S0.D) FAIL("solve modified the factors");
    if (n <= 2) {
        std::vector<double> e(n);
        double y0 = S0.D[0] * b[S0.perm[0]];
        if (n == 1) e[S0.perm[0]] = y0;
        else {
            double y1 = S0.ptr[2] == 1 ? S0.D[1] * (b[S0.perm[1]] - S0.L[0] * y0) : S0.D[1] * b[S0.perm[1]];
            if (S0.ptr[2] == 1) y0 = y0 - S0.U[0] * y1;
            e[S0.perm[0]] = y0; e[S0.perm[1]] = y1;
        }
        for (size_t i = 0; i < n; ++i) if (std::fabs(x1[i] - e[i]) > 1e-12 * (1 + std::fabs(e[i]))) FAIL("solve: x[" << i << "] = " << x1[i] << " expected " << e[i]);
    }
    return 0;
}

int main(int argc, char **argv) {
    if (argc < 3) return 2;
    std::string unit = argv[1];
    Witness w;
    if (!w.load(std::string(argv[2]) + ".in")) { std::cout << "no witness input" << std::endl; return 3; }
    if (unit == "cuthill_mckee_fwd") return r_cuthill_mckee<false>(w);
    if (unit == "cuthill_mckee_rev") return r_cuthill_mckee<true>(w);
    if (unit == "skyline_lu_ctor") return r_sky_ctor(w);
    if (unit == "skyline_lu_factorize") return r_sky_factorize(w);
    if (unit == "skyline_lu_solve") return r_sky_solve(w);
    std::cout << "no replay for unit " << unit << std::endl;
    return 3;
}
