// replay of witnesses of the second adapter family (units/c17_adapters2.py) against the real amgcl templates:
// block_matrix_adapter row iterator, unblock_matrix, reorder views, crs_builder, amg / as_preconditioner constructors.
// Every function calls the REAL template on the witness input and evaluates the property with an independent
// dense oracle.  Compiled with AddressSanitizer/UBSan by the framework (a sanitizer report counts as reproduced).
#include "witness.hpp"
#include <amgcl/value_type/static_matrix.hpp>
#include <amgcl/adapter/crs_tuple.hpp>
#include <amgcl/adapter/block_matrix.hpp>
#include <amgcl/adapter/reorder.hpp>
#include <amgcl/adapter/crs_builder.hpp>
#include <amgcl/amg.hpp>
#include <amgcl/coarsening/smoothed_aggregation.hpp>
#include <amgcl/relaxation/ilu0.hpp>
#include <amgcl/relaxation/as_preconditioner.hpp>
#include <amgcl/profiler.hpp>
namespace amgcl { profiler<> prof; }
#include <algorithm>
#include <set>
using namespace amgcl;

// ------------------------------------------------------------------------ block_matrix_adapter::row_iterator
// oracle: dense copy of the scalar matrix; block entry (r,c) of block column J in block row ip == dense(B*ip+r, B*J+c)
template <int B>
static int block_rows_check(const Crs &A, size_t ip_lo, size_t ip_hi) {
    typedef static_matrix<double, B, B> Block;
    std::vector<double> D = dense(A);
    auto Ab = adapter::block_matrix<Block>(A);
    const size_t nb = A.nrows / B, mb = A.ncols / B;
    if (Ab.rows() != nb || Ab.cols() != mb) FAIL("block adapter: rows()/cols() are not the scalar sizes divided by the block size");
    for (size_t ip = ip_lo; ip < ip_hi; ++ip) {
        std::vector<int> emitted(mb, 0);
        ptrdiff_t prev = -1; size_t k = 0;
        std::cout << "block row " << ip << ":";
        for (auto it = Ab.row_begin(ip); it; ++it, ++k) {
            ptrdiff_t J = it.col(); Block v = it.value();
            std::cout << " (J=" << J << ": [";
            for (int r = 0; r < B; ++r) for (int c = 0; c < B; ++c) std::cout << (r + c ? " " : "") << v(r, c);
            std::cout << "])";
            if (k > mb) FAIL("block adapter: the block row does not end after cols/b entries");
            if (J < 0 || (size_t)J >= mb) FAIL("block adapter: block column " << J << " out of range");
            if (J <= prev) FAIL("block adapter: block columns not ascending / emitted twice (" << prev << " then " << J << ")");
            prev = J; emitted[J] = 1;
            for (int r = 0; r < B; ++r) for (int c = 0; c < B; ++c) {
                double want = D[(B * ip + r) * A.ncols + B * J + c];
                if (v(r, c) != want)
                    FAIL("block adapter: block row " << ip << ", block column " << J << ", entry (" << r << "," << c << ") = " << v(r, c)
                         << " but the scalar matrix has " << want << " at (" << B * ip + r << "," << B * J + c << ")");
            }
        }
        std::cout << std::endl;
        for (size_t J = 0; J < mb; ++J) {
            bool stored = false;
            for (int r = 0; r < B; ++r) for (ptrdiff_t j = A.ptr[B * ip + r]; j < A.ptr[B * ip + r + 1]; ++j) if ((size_t)A.col[j] / B == J) stored = true;
            if (stored != (emitted[J] != 0)) FAIL("block adapter: block column " << J << " of block row " << ip << (stored ? " has stored scalar entries but is not emitted" : " is emitted without a stored scalar entry"));
        }
    }
    return 0;
}

static int r_block_row_iterator(const Witness &w) {
    if (!w.has("w_A_ptr")) { std::cout << "no witness" << std::endl; return 3; }
    std::shared_ptr<Crs> A = crs_from(w, "A");
    print_crs("A", *A);
    std::string why;
    if (!wf(*A, why) || A->nrows % 2 || A->ncols % 2) { std::cout << "witness is not a valid input: " << why << std::endl; return 3; }
    std::cout << "rows " << (rows_sorted(*A, true) ? "strictly sorted" : "NOT sorted") << std::endl;
    size_t ip = (size_t)w.num("w_ip");
    if (ip >= A->nrows / 2) return 3;
    // the watched block row first (the witness), then every block row of the witness matrix
    const bool sorted = rows_sorted(*A, true);
    int rc = block_rows_check<2>(*A, ip, ip + 1);
    if (!rc) rc = block_rows_check<2>(*A, 0, A->nrows / 2);
    if (rc) {
        if (!sorted) std::cout << "block_matrix_adapter loses entries of unsorted rows (the merge of the base row iterators assumes sorted rows)" << std::endl;
        return rc;
    }
    std::cout << "property holds on this input" << std::endl;
    return 0;
}


// ------------------------------------------------------------------------ adapter::reorder (canned input)
// the units are inductive / loop free (no concrete witness): the real templates are run on a canned non-symmetric matrix with
// distinct values; oracle: perm recomputed with the ordering class itself, dense copy of A
static int r_reorder() {
    const size_t n = 5;
    // 0-2, 0-3, 1-4, 2-3 graph (+ diagonal), values distinct; structurally symmetric pattern, non-symmetric values
    std::vector<ptrdiff_t> ptr = {0, 3, 5, 8, 11, 13};
    std::vector<ptrdiff_t> col = {0, 2, 3,  1, 4,  0, 2, 3,  0, 2, 3,  1, 4};
    std::vector<double>    val = {10, 11, 12,  20, 21,  30, 31, 32,  40, 41, 42,  50, 51};
    auto T = std::make_tuple(n, ptr, col, val);
    Crs A(T);
    std::vector<double> D = dense(A);
    std::vector<ptrdiff_t> perm(n);
    amgcl::reorder::cuthill_mckee<false>::get(A, perm);
    std::cout << "perm:"; for (size_t i = 0; i < n; ++i) std::cout << " " << perm[i]; std::cout << std::endl;
    { std::vector<int> seen(n, 0); for (size_t i = 0; i < n; ++i) { if (perm[i] < 0 || (size_t)perm[i] >= n || seen[perm[i]]++) { std::cout << "ordering did not return a permutation" << std::endl; return 3; } } }
    bool ident = true; for (size_t i = 0; i < n; ++i) if ((size_t)perm[i] != i) ident = false;
    if (ident) { std::cout << "canned ordering is the identity: not a usable input" << std::endl; return 3; }
    adapter::reorder<> R(A);
    // matrix view
    auto V = R(A);
    if (backend::rows(V) != n || backend::cols(V) != n || backend::nonzeros(V) != val.size()) FAIL("reorder: view dimensions / nonzeros differ from the matrix");
    for (size_t i = 0; i < n; ++i) {
        std::vector<double> row(n, 0.0); std::vector<int> cnt(n, 0); size_t k = 0;
        for (auto it = backend::row_begin(V, i); it; ++it, ++k) {
            if (k > n) FAIL("reorder: view row does not end");
            if (it.col() < 0 || (size_t)it.col() >= n) FAIL("reorder: view column out of range");
            row[it.col()] += it.value(); cnt[it.col()]++;
        }
        if (k != (size_t)(ptr[perm[i] + 1] - ptr[perm[i]])) FAIL("reorder: view row " << i << " has " << k << " entries, row perm[i] = " << perm[i] << " of A has " << ptr[perm[i] + 1] - ptr[perm[i]]);
        for (size_t j = 0; j < n; ++j)
            if (cnt[j] > 1 || row[j] != D[perm[i] * n + perm[j]])
                FAIL("reorder: view(" << i << "," << j << ") = " << row[j] << " but A(perm[i],perm[j]) = A(" << perm[i] << "," << perm[j] << ") = " << D[perm[i] * n + perm[j]]);
    }
    // vector permutations
    std::vector<double> x(n), y(n, -1.0), z(n, -1.0), x0;
    for (size_t i = 0; i < n; ++i) x[i] = 100.0 + i;
    x0 = x;
    R.forward(x, y);
    for (size_t i = 0; i < n; ++i) if (y[i] != x0[perm[i]]) FAIL("reorder::forward: y[" << i << "] = " << y[i] << " but x[perm[i]] = " << x0[perm[i]]);
    if (x != x0) FAIL("reorder::forward modified its input");
    R.inverse(y, z);
    for (size_t i = 0; i < n; ++i) if (z[i] != x0[i]) FAIL("reorder: inverse(forward(x)) != x at " << i << ": " << z[i] << " vs " << x0[i]);
    std::fill(y.begin(), y.end(), -1.0); std::fill(z.begin(), z.end(), -1.0);
    R.inverse(x, y);
    for (size_t i = 0; i < n; ++i) if (y[perm[i]] != x0[i]) FAIL("reorder::inverse: y[perm[" << i << "]] = " << y[perm[i]] << " but x[i] = " << x0[i]);
    if (x != x0) FAIL("reorder::inverse modified its input");
    R.forward(y, z);
    for (size_t i = 0; i < n; ++i) if (z[i] != x0[i]) FAIL("reorder: forward(inverse(x)) != x at " << i);
    // vector view
    auto xv = R(x);
    if (xv.size() != n) FAIL("reorder: vector view has the wrong size");
    for (size_t i = 0; i < n; ++i) if (&xv[i] != &x[perm[i]]) FAIL("reorder: vector view element " << i << " is not x[perm[i]]");
    std::cout << "property holds on the canned input" << std::endl;
    return 0;
}


// ------------------------------------------------------------------------ unblock_matrix (witness)
static int r_unblock(const Witness &w) {
    if (!w.has("w_B_ptr")) { std::cout << "no witness" << std::endl; return 3; }
    typedef static_matrix<double, 2, 2> Block;
    typedef backend::crs<Block, ptrdiff_t, ptrdiff_t> BCrs;
    size_t n = (size_t)w.num("w_B_nrows"), m = (size_t)w.num("w_B_ncols");
    std::vector<double> p = w.arr("w_B_ptr"), c = w.arr("w_B_col"), v = w.arr("w_B_val");
    if (p.size() < n + 1) return 3;
    BCrs B; B.set_size(n, m, true);
    for (size_t i = 0; i <= n; ++i) B.ptr[i] = (ptrdiff_t)p[i];
    if (B.ptr[0] != 0) return 3;
    for (size_t i = 0; i < n; ++i) if (B.ptr[i] > B.ptr[i + 1]) return 3;
    B.set_nonzeros(B.ptr[n]);
    std::cout << "B: " << n << "x" << m << " block rows:";
    for (size_t i = 0; i < n; ++i) {
        std::cout << " {";
        for (ptrdiff_t j = B.ptr[i]; j < B.ptr[i + 1]; ++j) {
            B.col[j] = (ptrdiff_t)c.at(j);
            if (B.col[j] < 0 || (size_t)B.col[j] >= m) return 3;
            for (int r = 0; r < 2; ++r) for (int q = 0; q < 2; ++q) B.val[j](r, q) = (size_t)(4 * j + 2 * r + q) < v.size() ? v[4 * j + 2 * r + q] : 0.0;
            std::cout << (j > B.ptr[i] ? "," : "") << B.col[j] << ":[" << B.val[j](0,0) << " " << B.val[j](0,1) << " " << B.val[j](1,0) << " " << B.val[j](1,1) << "]";
        }
        std::cout << "}";
    }
    std::cout << std::endl;
    auto A = adapter::unblock_matrix(B);
    if (A->nrows != 2 * n || A->ncols != 2 * m || !A->own_data) FAIL("unblock_matrix: scalar dimensions are not b*rows x b*cols");
    if (A->ptr[0] != 0 || A->nnz != 4 * (size_t)B.ptr[n] || (size_t)A->ptr[A->nrows] != A->nnz) FAIL("unblock_matrix: ptr[0] / nnz / ptr[nrows] inconsistent with 4 scalar entries per block entry");
    for (size_t i = 0; i < A->nrows; ++i) if (A->ptr[i] > A->ptr[i + 1]) FAIL("unblock_matrix: ptr not monotone at scalar row " << i);
    for (size_t I = 0; I < n; ++I) for (int r = 0; r < 2; ++r) {
        size_t ia = 2 * I + r;
        if ((size_t)(A->ptr[ia + 1] - A->ptr[ia]) != 2 * (size_t)(B.ptr[I + 1] - B.ptr[I])) FAIL("unblock_matrix: scalar row " << ia << " has " << A->ptr[ia + 1] - A->ptr[ia] << " entries, expected " << 2 * (B.ptr[I + 1] - B.ptr[I]));
        for (ptrdiff_t j = B.ptr[I]; j < B.ptr[I + 1]; ++j) for (int q = 0; q < 2; ++q) {
            size_t pos = (size_t)A->ptr[ia] + 2 * (size_t)(j - B.ptr[I]) + q;
            if (pos >= A->nnz) FAIL("unblock_matrix: position outside the scalar matrix");
            if (A->col[pos] != 2 * B.col[j] + q || A->val[pos] != B.val[j](r, q))
                FAIL("unblock_matrix: scalar row " << ia << " position " << pos - A->ptr[ia] << " holds (" << A->col[pos] << "," << A->val[pos] << "), expected (" << 2 * B.col[j] + q << "," << B.val[j](r, q) << ")");
        }
    }
    std::cout << "property holds on this input" << std::endl;
    return 0;
}

// ------------------------------------------------------------------------ crs_builder (canned functor)
struct CannedRows {
    typedef double    val_type;
    typedef ptrdiff_t col_type;
    mutable std::vector<int> calls;
    CannedRows() : calls(4, 0) {}
    size_t rows() const { return 4; }
    size_t nonzeros() const { return 7; }
    void operator()(size_t row, std::vector<col_type> &col, std::vector<val_type> &val) const {
        if (row < calls.size()) calls[row]++;
        if (!col.empty() || !val.empty()) calls[0] += 1000;       // must be called on empty vectors
        static const int len[4] = {3, 0, 1, 3};
        for (int k = 0; k < len[row]; ++k) { col.push_back((col_type)((row + 2 * k) % 4)); val.push_back(10.0 * row + k + 1); }
    }
};
static int r_crs_builder() {
    CannedRows F;
    auto M = adapter::make_matrix(F);
    if (backend::rows(M) != 4 || backend::cols(M) != 4 || backend::nonzeros(M) != 7) FAIL("crs_builder: rows/cols/nonzeros differ from the functor's");
    static const int len[4] = {3, 0, 1, 3};
    for (size_t i = 0; i < 4; ++i) {
        int before = M.build_row.calls[i];
        int k = 0;
        std::cout << "row " << i << ":";
        for (auto it = backend::row_begin(M, i); it; ++it, ++k) {
            if (k >= len[i]) FAIL("crs_builder: row " << i << " emits more entries than the functor produced");
            std::cout << " (" << it.col() << "," << it.value() << ")";
            if (it.col() != (ptrdiff_t)((i + 2 * k) % 4) || it.value() != 10.0 * i + k + 1) FAIL("crs_builder: row " << i << " entry " << k << " = (" << it.col() << "," << it.value() << ") differs from what the functor produced");
        }
        std::cout << std::endl;
        if (k != len[i]) FAIL("crs_builder: row " << i << " emits " << k << " entries, the functor produced " << len[i]);
        if (M.build_row.calls[i] != before + 1) FAIL("crs_builder: row_begin(" << i << ") called the functor " << M.build_row.calls[i] - before << " times (or on non-empty vectors / for another row)");
    }
    std::cout << "property holds on the canned input" << std::endl;
    return 0;
}

// ------------------------------------------------------------------------ constructors that accept a user matrix (canned input)
// non-symmetric tridiagonal-plus matrix, rows listed sorted and in a shuffled (rotated/reversed) order; ilu0 as the smoother makes the
// result sensitive to the within-row order of whatever it is built from
struct CannedSys {
    size_t n; std::vector<ptrdiff_t> ptr, cs, cu; std::vector<double> vs, vu, f;
    CannedSys(size_t n = 40) : n(n), f(n) {
        ptr.push_back(0);
        for (size_t i = 0; i < n; ++i) {
            std::vector<ptrdiff_t> c; std::vector<double> v;
            if (i > 1)     { c.push_back(i - 2); v.push_back(-0.25 - 0.001 * i); }
            if (i > 0)     { c.push_back(i - 1); v.push_back(-1.0 - 0.01 * i); }
            c.push_back(i); v.push_back(4.0 + 0.1 * i);
            if (i + 1 < n) { c.push_back(i + 1); v.push_back(-1.5 + 0.01 * i); }
            for (size_t k = 0; k < c.size(); ++k) { cs.push_back(c[k]); vs.push_back(v[k]); }
            // shuffled: rotate by one (odd rows) / reverse (even rows)
            if (i % 2) { std::rotate(c.begin(), c.begin() + 1, c.end()); std::rotate(v.begin(), v.begin() + 1, v.end()); }
            else       { std::reverse(c.begin(), c.end()); std::reverse(v.begin(), v.end()); }
            for (size_t k = 0; k < c.size(); ++k) { cu.push_back(c[k]); vu.push_back(v[k]); }
            ptr.push_back((ptrdiff_t)cs.size());
            f[i] = 1.0 + 0.5 * (i % 7);
        }
    }
};
typedef backend::builtin<double> BB;
typedef amg<BB, coarsening::smoothed_aggregation, relaxation::ilu0> AMG;
static AMG::params amg_prm() { AMG::params p; p.coarse_enough = 8; p.allow_rebuild = true; return p; }
template <class P> static std::vector<double> applied(const P &pre, const std::vector<double> &f) { std::vector<double> x(f.size(), 0.0); pre.apply(f, x); return x; }
static int r_ctor_sorts(const std::string &unit) {
    CannedSys S;
    std::vector<ptrdiff_t> p0 = S.ptr, c0 = S.cu; std::vector<double> v0 = S.vu;
    std::vector<double> xs, xu;
    const char *who = unit == "asprecond_ctor_sorts" ? "as_preconditioner" : unit == "amg_rebuild_sorts" ? "amg::rebuild" : "amg::amg";
    try {
        if (unit == "asprecond_ctor_sorts") {
            relaxation::as_preconditioner<BB, relaxation::ilu0> Ps(std::tie(S.n, S.ptr, S.cs, S.vs)); xs = applied(Ps, S.f);
            relaxation::as_preconditioner<BB, relaxation::ilu0> Pu(std::tie(S.n, S.ptr, S.cu, S.vu)); xu = applied(Pu, S.f);
        } else if (unit == "amg_rebuild_sorts") {
            AMG Ps(std::tie(S.n, S.ptr, S.cs, S.vs), amg_prm()); Ps.rebuild(std::tie(S.n, S.ptr, S.cs, S.vs)); xs = applied(Ps, S.f);
            AMG Pu(std::tie(S.n, S.ptr, S.cs, S.vs), amg_prm()); Pu.rebuild(std::tie(S.n, S.ptr, S.cu, S.vu)); xu = applied(Pu, S.f);
        } else {
            AMG Ps(std::tie(S.n, S.ptr, S.cs, S.vs), amg_prm()); xs = applied(Ps, S.f);
            AMG Pu(std::tie(S.n, S.ptr, S.cu, S.vu), amg_prm()); xu = applied(Pu, S.f);
        }
    } catch (const std::exception &e) {
        std::cout << who << " on the shuffled matrix threw: " << e.what() << std::endl;
        if (unit == "asprecond_ctor_sorts") std::cout << "as_preconditioner does not sort the rows of its private copy" << std::endl;
        FAIL(who << ": a valid matrix with shuffled rows is rejected although the sorted one is accepted");
    }
    if (S.ptr != p0 || S.cu != c0 || S.vu != v0) FAIL(who << ": the user's matrix was modified");
    for (size_t i = 0; i < S.n; ++i) if (xs[i] != xu[i]) {
        if (unit == "asprecond_ctor_sorts") std::cout << "as_preconditioner does not sort the rows of its private copy" << std::endl;
        FAIL(who << ": preconditioner built from the shuffled matrix differs from the one built from the sorted matrix: apply(f)[" << i << "] = " << xu[i] << " vs " << xs[i]);
    }
    std::cout << "property holds on the canned input (apply(f)[0], [n/2] = " << xs[0] << ", " << xs[S.n / 2] << ")" << std::endl;
    return 0;
}

int main(int argc, char **argv) {
    if (argc < 3) return 2;
    std::string unit = argv[1];
    Witness w;
    if (!w.load(std::string(argv[2]) + ".in")) { std::cout << "no witness input" << std::endl; return 3; }
    if (unit == "adapt_block_row_iterator" || unit == "adapt_block_row_iterator_unsorted") return r_block_row_iterator(w);
    if (unit.compare(0, 14, "adapt_reorder_") == 0) return r_reorder();
    if (unit == "adapt_unblock_matrix") return r_unblock(w);
    if (unit == "adapt_crs_builder") return r_crs_builder();
    if (unit == "amg_ctor_sorts" || unit == "amg_rebuild_sorts" || unit == "asprecond_ctor_sorts") return r_ctor_sorts(unit);
    std::cout << "no replay for unit " << unit << std::endl;
    return 3;
}
