// Native replay for the orchestration units (solver bodies, amg cycle/apply/rebuild, relaxation apply).
// The verifier's counterexample for an inductive / typestate unit is an abstract state, not an input, so this
// driver runs the REAL amgcl templates on a fixed battery of concrete systems and configurations and evaluates
// the clauses of the property the unit serves with independent dense oracles:
//   C01  reported residual == ||f - A x|| / ||f|| of the returned x; iterations <= maxiter
//   C15  a reused object gives bitwise the result of a fresh object (also after a call with a NaN right-hand side);
//        zero rhs -> zero x, 0 iterations; converged guess returned unchanged; rhs not modified
//   C02  amg apply: independent of earlier applications and of the content of x; linear
//   C03  rebuild(A') acts like a fresh hierarchy built from A' (same transfer operators for a scaled matrix)
//   C06  one relaxation sweep == x + M^-1 (f - A x) for the documented splitting
// exit 1 + "REPRODUCED ..." if the real code violates a clause on some configuration, 0 if not, 3 if the unit is unknown.
#include <cmath>
#include <cstring>
#include <iostream>
#include <limits>
#include <string>
#include <tuple>
#include <vector>

#include <amgcl/backend/builtin.hpp>
#include <amgcl/adapter/crs_tuple.hpp>
#include <amgcl/make_solver.hpp>
#include <amgcl/amg.hpp>
#include <amgcl/coarsening/smoothed_aggregation.hpp>
#include <amgcl/coarsening/aggregation.hpp>
#include <amgcl/relaxation/spai0.hpp>
#include <amgcl/relaxation/damped_jacobi.hpp>
#include <amgcl/relaxation/gauss_seidel.hpp>
#include <amgcl/relaxation/ilu0.hpp>
#include <amgcl/relaxation/as_preconditioner.hpp>
#include <amgcl/preconditioner/dummy.hpp>
#include <amgcl/solver/cg.hpp>
#include <amgcl/solver/richardson.hpp>
#include <amgcl/solver/preonly.hpp>

typedef amgcl::backend::builtin<double> Backend;
typedef std::vector<double> vec;
static int bad = 0;
#define CHECK(c, msg) do { if (!(c)) { ++bad; std::cout << "MISMATCH: " << msg << std::endl; } } while (0)

struct System {
    int n; std::vector<ptrdiff_t> ptr, col; vec val, rhs;
    // 2D Poisson on an m x m grid with a mildly varying coefficient; rhs = 1 + small variation
    explicit System(int m, double scale = 1.0) : n(m * m) {
        ptr.push_back(0);
        for (int j = 0; j < m; ++j) for (int i = 0; i < m; ++i) {
            int k = j * m + i; double d = 0;
            double w[4] = {1.0 + 0.1 * (i % 3), 1.0 + 0.1 * ((i + 1) % 3), 1.0 + 0.05 * (j % 4), 1.0 + 0.05 * ((j + 1) % 4)};
            if (j > 0) { col.push_back(k - m); val.push_back(-w[2] * scale); d += w[2]; }
            if (i > 0) { col.push_back(k - 1); val.push_back(-w[0] * scale); d += w[0]; }
            size_t dpos = col.size(); col.push_back(k); val.push_back(0);
            if (i + 1 < m) { col.push_back(k + 1); val.push_back(-w[1] * scale); d += w[1]; }
            if (j + 1 < m) { col.push_back(k + m); val.push_back(-w[3] * scale); d += w[3]; }
            val[dpos] = (d + 0.05) * scale;
            ptr.push_back((ptrdiff_t)col.size());
            rhs.push_back(1.0 + 0.01 * (k % 7));
        }
    }
    std::shared_ptr<amgcl::backend::crs<double> > crs() const { return std::make_shared<amgcl::backend::crs<double> >(std::tie(n, ptr, col, val)); }
    vec mul(const vec &x) const { vec y(n, 0.0); for (int i = 0; i < n; ++i) for (ptrdiff_t j = ptr[i]; j < ptr[i + 1]; ++j) y[i] += val[j] * x[col[j]]; return y; }
    double relres(const vec &f, const vec &x) const {
        long double rr = 0, ff = 0; vec ax = mul(x);
        for (int i = 0; i < n; ++i) { long double s = f[i] - ax[i]; rr += s * s; ff += (long double)f[i] * f[i]; }
        return (double)std::sqrt(rr / ff);
    }
};
static bool same_bits(const vec &a, const vec &b) { return a.size() == b.size() && std::memcmp(a.data(), b.data(), a.size() * sizeof(double)) == 0; }
static double maxdiff(const vec &a, const vec &b) { double d = 0; for (size_t i = 0; i < a.size(); ++i) d = std::max(d, std::fabs(a[i] - b[i])); return d; }

// ------------------------------------------------------------------------------------------------ solvers
template <class Solver>
static void solver_battery(const char *name) {
    System S(6);
    auto A = S.crs();
    typedef amgcl::relaxation::as_preconditioner<Backend, amgcl::relaxation::spai0> P_t;
    P_t P(*A);
    for (int cfg = 0; cfg < 4; ++cfg) {
        typename Solver::params prm;
        if (cfg == 1) prm.maxiter = 3;
        if (cfg == 2) { prm.tol = 0; prm.abstol = 0; prm.maxiter = 7; }
        if (cfg == 3) prm.maxiter = 0;
        Solver reused(S.n, prm);
        vec x0(S.n, 0.0), x1(S.n);
        for (int i = 0; i < S.n; ++i) x1[i] = 0.3 + 0.01 * i;
        const vec *starts[2] = {&x0, &x1};
        for (int s = 0; s < 2; ++s) {
            // a poisoning call on the reused object: NaN right-hand side
            { vec fn(S.n, std::numeric_limits<double>::quiet_NaN()), xn(S.n, 0.0); try { reused(*A, P, fn, xn); } catch (...) {} }
            vec f = S.rhs, f_copy = f, xa = *starts[s], xb = *starts[s];
            size_t ia, ib; double ra, rb;
            std::tie(ia, ra) = reused(*A, P, f, xa);
            Solver fresh(S.n, prm);
            std::tie(ib, rb) = fresh(*A, P, f, xb);
            std::string w = std::string(name) + " cfg " + std::to_string(cfg) + " start " + std::to_string(s);
            CHECK(ia <= prm.maxiter, w << ": iterations " << ia << " > maxiter " << prm.maxiter);
            double t = S.relres(f, xa);
            CHECK((!std::isfinite(ra) && !std::isfinite(t)) || std::fabs(ra - t) <= 1e-8 * std::max(1.0, t), w << ": reported residual " << ra << " but ||f - A x||/||f|| = " << t);
            CHECK(ia == ib && same_bits(xa, xb) && (ra == rb || (ra != ra && rb != rb)), w << ": reused object differs from a fresh object (iters " << ia << " vs " << ib << ", max |dx| " << maxdiff(xa, xb) << ")");
            CHECK(same_bits(f, f_copy), w << ": right-hand side was modified");
            if (ia < prm.maxiter) CHECK(!(ra > std::max(prm.tol, 0.0) + 1e-300) || prm.tol == 0, w << ": stopped before the budget with residual " << ra << " above tol " << prm.tol);
        }
        {   // zero right-hand side
            vec f(S.n, 0.0), x(S.n, 0.7); size_t it; double r;
            std::tie(it, r) = reused(*A, P, f, x);
            bool zero = true; for (double v : x) if (v != 0.0) zero = false;
            CHECK(it == 0 && zero, name << " cfg " << cfg << ": zero rhs must give the zero vector in zero iterations (iters " << it << ")");
        }
        if (cfg == 0) {   // converged initial guess returned unchanged
            vec x(S.n, 0.0); size_t it; double r;
            typename Solver::params tight = prm; tight.tol = 1e-12; tight.maxiter = 500;
            Solver s1(S.n, tight); std::tie(it, r) = s1(*A, P, S.rhs, x);
            if (!(r <= 1e-10)) goto skip_converged;   // this solver / preconditioner did not get there: nothing to check
            { vec keep = x; Solver s2(S.n, prm); std::tie(it, r) = s2(*A, P, S.rhs, x);
            CHECK(it == 0 && same_bits(x, keep), name << ": an initial guess within tolerance must be returned unchanged in zero iterations (iters " << it << ", max |dx| " << maxdiff(x, keep) << ")"); }
            skip_converged: ;
        }
    }
}

// ------------------------------------------------------------------------------------------------ amg
template <template <class> class Coarsening, template <class> class Relax>
static void amg_battery(const char *name) {
    typedef amgcl::amg<Backend, Coarsening, Relax> AMG;
    System S(12);
    for (int cfg = 0; cfg < 6; ++cfg) {
        typename AMG::params prm;
        prm.coarse_enough = 10;
        prm.ncycle = (cfg & 1) ? 2 : 1; prm.npre = cfg % 3; prm.npost = (cfg + 1) % 3; prm.pre_cycles = (cfg == 4) ? 0 : (cfg == 5 ? 2 : 1);
        if (cfg == 2) prm.max_levels = 2;
        if (cfg == 3) prm.direct_coarse = false;
        if (prm.npre + prm.npost == 0) prm.npost = 1;
        AMG amg(std::tie(S.n, S.ptr, S.col, S.val), prm);
        auto apply = [&](AMG &M, const vec &f, double fill) { Backend::vector ff(f), x(S.n); for (int i = 0; i < S.n; ++i) x[i] = fill; M.apply(ff, x); return vec(&x[0], &x[0] + S.n); };
        vec f = S.rhs, g(S.n); for (int i = 0; i < S.n; ++i) g[i] = std::sin(0.3 * i);
        vec b1 = apply(amg, f, 0.0);
        vec nanf(S.n, std::numeric_limits<double>::quiet_NaN()); apply(amg, nanf, 0.0);       // poison the scratch vectors
        vec b2 = apply(amg, f, std::numeric_limits<double>::quiet_NaN());                      // x holds NaN on entry
        AMG fresh(std::tie(S.n, S.ptr, S.col, S.val), prm);
        vec b3 = apply(fresh, f, 0.0);
        std::string w = std::string(name) + " cfg " + std::to_string(cfg);
        CHECK(same_bits(b1, b2), w << ": apply depends on earlier applications / on the content of x (max diff " << maxdiff(b1, b2) << ")");
        CHECK(same_bits(b1, b3), w << ": apply on a used object differs from a fresh hierarchy (max diff " << maxdiff(b1, b3) << ")");
        vec comb(S.n); for (int i = 0; i < S.n; ++i) comb[i] = 2.0 * f[i] - 0.5 * g[i];
        vec bg = apply(amg, g, 0.0), bc = apply(amg, comb, 0.0); double d = 0, sc = 0;
        for (int i = 0; i < S.n; ++i) { d = std::max(d, std::fabs(bc[i] - (2.0 * b1[i] - 0.5 * bg[i]))); sc = std::max(sc, std::fabs(bc[i])); }
        CHECK(d <= 1e-10 * std::max(1.0, sc), w << ": apply is not linear (deviation " << d << ")");
    }
}
template <template <class> class Coarsening>
static void rebuild_battery(const char *name) {
    typedef amgcl::amg<Backend, Coarsening, amgcl::relaxation::spai0> AMG;
    for (int small = 0; small < 2; ++small) {
        System S(small ? 3 : 12), S2(small ? 3 : 12, 2.5);
        typename AMG::params prm; prm.allow_rebuild = true; if (!small) prm.coarse_enough = 10;
        AMG amg(std::tie(S.n, S.ptr, S.col, S.val), prm);
        auto apply = [&](AMG &M, const vec &f) { Backend::vector ff(f), x(S.n); M.apply(ff, x); return vec(&x[0], &x[0] + S.n); };
        vec b0 = apply(amg, S.rhs);
        amg.rebuild(std::tie(S2.n, S2.ptr, S2.col, S2.val));
        AMG fresh(std::tie(S2.n, S2.ptr, S2.col, S2.val), prm);
        vec b1 = apply(amg, S.rhs), b2 = apply(fresh, S.rhs);
        double sc = 0; for (double v : b2) sc = std::max(sc, std::fabs(v));
        CHECK(maxdiff(b1, b2) <= 1e-9 * std::max(1.0, sc), name << (small ? " (single level)" : "") << ": after rebuild(A') the action differs from a fresh hierarchy built from A' (max diff " << maxdiff(b1, b2) << ")");
        amg.rebuild(std::tie(S.n, S.ptr, S.col, S.val));
        vec b3 = apply(amg, S.rhs);
        CHECK(maxdiff(b3, b0) <= 1e-9 * std::max(1.0, sc), name << ": rebuilding with the original matrix does not restore the original action (max diff " << maxdiff(b3, b0) << ")");
    }
}

// ------------------------------------------------------------------------------------------------ relaxation
static void relax_battery(const std::string &unit) {
    System S(4);
    auto A = S.crs();
    vec f = S.rhs, x0(S.n); for (int i = 0; i < S.n; ++i) x0[i] = 0.2 * std::cos(0.7 * i);
    vec r(S.n); { vec ax = S.mul(x0); for (int i = 0; i < S.n; ++i) r[i] = f[i] - ax[i]; }
    auto diag = [&](int i) { for (ptrdiff_t j = S.ptr[i]; j < S.ptr[i + 1]; ++j) if (S.col[j] == i) return S.val[j]; return 0.0; };
    Backend::vector F(f), X(S.n), T(S.n);
    auto run = [&](int which, const char *nm, const vec &expect, std::function<void()> call) {
        for (int i = 0; i < S.n; ++i) { X[i] = x0[i]; T[i] = std::numeric_limits<double>::quiet_NaN(); }
        call(); vec got(&X[0], &X[0] + S.n);
        CHECK(maxdiff(got, expect) <= 1e-12, nm << " (" << (which == 0 ? "apply_pre" : "apply_post") << "): x + M^-1 (f - A x) differs by " << maxdiff(got, expect));
    };
    if (unit.find("damped_jacobi") == 0) {
        typedef amgcl::relaxation::damped_jacobi<Backend> R; R::params p; p.damping = 0.6; R rl(*A, p, Backend::params());
        vec e(S.n); for (int i = 0; i < S.n; ++i) e[i] = x0[i] + 0.6 * r[i] / diag(i);
        run(0, "damped_jacobi", e, [&] { rl.apply_pre(*A, F, X, T); }); run(1, "damped_jacobi", e, [&] { rl.apply_post(*A, F, X, T); });
    } else if (unit.find("spai0") == 0) {
        typedef amgcl::relaxation::spai0<Backend> R; R rl(*A, R::params(), Backend::params());
        vec e(S.n); for (int i = 0; i < S.n; ++i) { double s = 0; for (ptrdiff_t j = S.ptr[i]; j < S.ptr[i + 1]; ++j) s += S.val[j] * S.val[j]; e[i] = x0[i] + diag(i) / s * r[i]; }
        run(0, "spai0", e, [&] { rl.apply_pre(*A, F, X, T); }); run(1, "spai0", e, [&] { rl.apply_post(*A, F, X, T); });
    } else if (unit.find("gauss_seidel") == 0) {
        typedef amgcl::relaxation::gauss_seidel<Backend> R; R::params p; p.serial = true; R rl(*A, p, Backend::params());
        vec ef = x0, eb = x0;
        for (int i = 0; i < S.n; ++i) { double s = f[i]; for (ptrdiff_t j = S.ptr[i]; j < S.ptr[i + 1]; ++j) if (S.col[j] != i) s -= S.val[j] * ef[S.col[j]]; ef[i] = s / diag(i); }
        for (int i = S.n - 1; i >= 0; --i) { double s = f[i]; for (ptrdiff_t j = S.ptr[i]; j < S.ptr[i + 1]; ++j) if (S.col[j] != i) s -= S.val[j] * eb[S.col[j]]; eb[i] = s / diag(i); }
        run(0, "gauss_seidel (forward sweep as pre-smoother)", ef, [&] { rl.apply_pre(*A, F, X, T); });
        run(1, "gauss_seidel (backward sweep as post-smoother)", eb, [&] { rl.apply_post(*A, F, X, T); });
    } else if (unit.find("ilu0") == 0 || unit.find("iluk") == 0 || unit.find("ilut") == 0) {
        // on a tridiagonal matrix every ILU is the exact factorisation: one sweep with damping 1 gives the exact solution
        int n = 9; std::vector<ptrdiff_t> ptr(1, 0), col; vec val, ff(n, 1.0);
        for (int i = 0; i < n; ++i) { if (i) { col.push_back(i - 1); val.push_back(-1.0); } col.push_back(i); val.push_back(2.5); if (i + 1 < n) { col.push_back(i + 1); val.push_back(-1.2); } ptr.push_back(col.size()); }
        auto T3 = std::make_shared<amgcl::backend::crs<double> >(std::tie(n, ptr, col, val));
        typedef amgcl::relaxation::ilu0<Backend> R; R rl(*T3, R::params(), Backend::params());
        Backend::vector F3(ff), X3(n), W3(n); for (int i = 0; i < n; ++i) { X3[i] = 0.1 * i; W3[i] = 7; }
        rl.apply_pre(*T3, F3, X3, W3);
        double res = 0; for (int i = 0; i < n; ++i) { double s = ff[i]; for (ptrdiff_t j = ptr[i]; j < ptr[i + 1]; ++j) s -= val[j] * X3[col[j]]; res = std::max(res, std::fabs(s)); }
        CHECK(res <= 1e-12, "ilu0 on a tridiagonal matrix: x + (LU)^-1 (f - A x) is not the exact solution (residual " << res << ")");
    }
}

int main(int argc, char **argv) {
    if (argc < 2) return 2;
    std::string unit = argv[1];
    std::cout.precision(12);
    using namespace amgcl;
    if (unit == "solver_cg") solver_battery<solver::cg<Backend> >("cg");
    else if (unit == "solver_richardson") solver_battery<solver::richardson<Backend> >("richardson");
    else if (unit == "amg_cycle" || unit == "amg_apply") {
        amg_battery<coarsening::smoothed_aggregation, relaxation::spai0>("amg<smoothed_aggregation, spai0>");
        amg_battery<coarsening::aggregation, relaxation::damped_jacobi>("amg<aggregation, damped_jacobi>");
        amg_battery<coarsening::smoothed_aggregation, relaxation::gauss_seidel>("amg<smoothed_aggregation, gauss_seidel>");
    } else if (unit == "level_rebuild" || unit == "amg_rebuild" || unit == "level_step_down" || unit == "galerkin" || unit == "scaled_galerkin"
               || unit.find("coarse_operator") != std::string::npos || unit == "amg_do_init") {
        rebuild_battery<coarsening::smoothed_aggregation>("amg<smoothed_aggregation> rebuild");
        rebuild_battery<coarsening::aggregation>("amg<aggregation> rebuild");
        amg_battery<coarsening::aggregation, relaxation::spai0>("amg<aggregation, spai0>");
    } else if (unit.find("_apply") != std::string::npos) relax_battery(unit);
    else { std::cout << "unit " << unit << " has no native battery" << std::endl; return 3; }
    if (bad) { std::cout << "REPRODUCED on the real code: " << bad << " clause(s) of the property violated by the battery above" << std::endl; return 1; }
    std::cout << "battery passed on the real code (no failing input found)" << std::endl;
    return 0;
}
