// replay of coarsening-unit witnesses (C04) against the real amgcl templates
#include "witness.hpp"
#include <amgcl/util.hpp>
#include <amgcl/coarsening/plain_aggregates.hpp>
#include <amgcl/coarsening/pointwise_aggregates.hpp>
#include <amgcl/coarsening/tentative_prolongation.hpp>
using namespace amgcl;
typedef coarsening::plain_aggregates PA;
typedef coarsening::pointwise_aggregates PWA;

static std::shared_ptr<Crs> crs_checked(const Witness &w, const std::string &X) {
    if (!w.has("w_" + X + "_ptr")) return std::shared_ptr<Crs>();
    return crs_from(w, X);
}
template <class Vec> static void print_vec(const char *name, const Vec &v) {
    std::cout << name << ":";
    for (size_t i = 0; i < v.size(); ++i) std::cout << " " << (long)v[i];
    std::cout << std::endl;
}
// independent oracle for an aggregate numbering
static int check_numbering(const std::vector<ptrdiff_t> &id, size_t count, const std::vector<char> &has_strong) {
    size_t n = id.size();
    for (size_t i = 0; i < n; ++i) {
        if ((id[i] == -2) != !has_strong[i]) FAIL("aggregates: row " << i << " has " << (has_strong[i] ? "a" : "no") << " strong neighbour but id = " << id[i]);
        if (id[i] != -2 && !(id[i] >= 0 && (size_t)id[i] < count)) FAIL("aggregates: id[" << i << "] = " << id[i] << " outside [0," << count << ")");
    }
    for (size_t k = 0; k < count; ++k) {
        bool has = false;
        for (size_t i = 0; i < n; ++i) if (id[i] == (ptrdiff_t)k) has = true;
        if (!has) FAIL("aggregates: aggregate " << k << " < count = " << count << " has no member");
    }
    return 0;
}

// ---------------------------------------------------------------- plain_aggregates, part 1
static int r_plain_strong(const Witness &w) {
    auto A = crs_checked(w, "A"); if (!A) return 3;
    print_crs("A", *A);
    PA::params prm; prm.eps_strong = (float)w.num("w_eps");
    std::cout << "eps_strong = " << prm.eps_strong << std::endl;
    size_t n = A->nrows;
    std::vector<double> d(n, 0.0);
    for (size_t i = 0; i < n; ++i) for (ptrdiff_t j = A->ptr[i]; j < A->ptr[i + 1]; ++j) if ((size_t)A->col[j] == i) d[i] = A->val[j];
    std::vector<char> expect(A->ptr[n], 0);
    bool any = false;
    for (size_t i = 0; i < n; ++i) for (ptrdiff_t j = A->ptr[i]; j < A->ptr[i + 1]; ++j) {
        size_t c = A->col[j]; double v = A->val[j];
        expect[j] = (c != i) && ((double)prm.eps_strong * prm.eps_strong * d[i] * d[c] < v * v);
        any = any || expect[j];
    }
    try {
        PA aggr(*A, prm);
        print_vec("strong_connection", aggr.strong_connection); print_vec("expected         ", expect);
        if (aggr.strong_connection.size() != expect.size()) FAIL("strong_connection has wrong size");
        for (size_t j = 0; j < expect.size(); ++j)
            if ((aggr.strong_connection[j] != 0) != (expect[j] != 0)) FAIL("strong_connection[" << j << "] = " << (int)aggr.strong_connection[j] << ", documented criterion gives " << (int)expect[j]);
    } catch (const error::empty_level &) {
        std::cout << "empty_level thrown" << std::endl;
        if (any) FAIL("empty_level thrown although the documented criterion marks a strong connection");
    }
    return 0;
}

// ---------------------------------------------------------------- plain_aggregates, part 2
// the flags of the witness are realised through values: eps_strong = 0, v = 1 on flagged off-diagonals, 0 otherwise
static int r_plain_ids(const Witness &w) {
    auto A = crs_checked(w, "A"); if (!A) return 3;
    std::vector<double> f = w.arr("w_strong");
    size_t n = A->nrows;
    std::vector<char> has(n, 0);
    for (size_t i = 0; i < n; ++i) for (ptrdiff_t j = A->ptr[i]; j < A->ptr[i + 1]; ++j) {
        bool st = j < (ptrdiff_t)f.size() && f[j] != 0 && (size_t)A->col[j] != i;
        A->val[j] = ((size_t)A->col[j] == i || st) ? 1.0 : 0.0;
        if (st) has[i] = 1;
    }
    print_crs("A (values realise the witness flags, eps_strong = 0)", *A);
    PA::params prm; prm.eps_strong = 0.0f;
    bool any = false; for (size_t i = 0; i < n; ++i) any = any || has[i];
    try {
        PA aggr(*A, prm);
        print_vec("strong_connection", aggr.strong_connection); print_vec("id", aggr.id); std::cout << "count = " << aggr.count << std::endl;
        for (size_t i = 0; i < n; ++i) for (ptrdiff_t j = A->ptr[i]; j < A->ptr[i + 1]; ++j)
            if ((aggr.strong_connection[j] != 0) != (A->val[j] != 0 && (size_t)A->col[j] != i)) { std::cout << "flags of the witness not realised natively (part 1 differs)" << std::endl; return 3; }
        if (aggr.id.size() != n) FAIL("id has wrong size");
        if (aggr.count < 1) FAIL("count == 0 without empty_level");
        return check_numbering(aggr.id, aggr.count, has);
    } catch (const error::empty_level &) {
        std::cout << "empty_level thrown" << std::endl;
        if (any) FAIL("empty_level thrown although a variable has a strong neighbour");
    }
    return 0;
}

// ---------------------------------------------------------------- pointwise_aggregates, block path
static bool correct_pointwise_pattern(const Crs &A, const Crs &Ap, unsigned b) {
    size_t np = A.nrows / b;
    if (Ap.nrows != np) return false;
    for (size_t ip = 0; ip < np; ++ip) {
        std::vector<char> want(np, 0), got(np, 0);
        for (ptrdiff_t q = A.ptr[ip * b]; q < A.ptr[ip * b + b]; ++q) want[A.col[q] / b] = 1;
        for (ptrdiff_t jp = Ap.ptr[ip]; jp < Ap.ptr[ip + 1]; ++jp) { if (got[Ap.col[jp]]) return false; got[Ap.col[jp]] = 1; }
        if (want != got) return false;
    }
    return true;
}
static int pw_block_once(Crs &A, unsigned b, bool &usable) {
    usable = false;
    PWA::params prm; prm.eps_strong = 0.0f; prm.block_size = b;
    print_crs("A", A);
    std::cout << "block_size = " << b << ", eps_strong = 0, min_aggregate = 1" << std::endl;
    // the given inputs of the unit, computed by the real callees
    auto Ap = backend::pointwise_matrix(A, b);
    print_crs("pointwise_matrix(A)", *Ap);
    if (!correct_pointwise_pattern(A, *Ap, b)) { std::cout << "pointwise_matrix does not return the block pattern of A (precondition of this unit; see finding F1)" << std::endl; return 3; }
    std::unique_ptr<PA> pw; std::unique_ptr<PWA> aggr;
    try { pw.reset(new PA(*Ap, prm)); aggr.reset(new PWA(A, prm, 1)); }
    catch (const error::empty_level &) { std::cout << "empty_level thrown (no strong pointwise connection)" << std::endl; return 3; }
    usable = true;
    print_vec("pointwise id", pw->id); print_vec("pointwise strong", pw->strong_connection);
    print_vec("id", aggr->id); print_vec("strong_connection", aggr->strong_connection); std::cout << "count = " << aggr->count << std::endl;
    size_t n = A.nrows;
    if (aggr->count != b * pw->count) FAIL("pointwise: count = " << aggr->count << ", expected block_size * pointwise count = " << b * pw->count);
    if (aggr->id.size() != n || aggr->strong_connection.size() != (size_t)A.ptr[n]) FAIL("pointwise: wrong size of id / strong_connection");
    for (size_t i = 0; i < n; ++i) {
        ptrdiff_t pid = pw->id[i / b];
        if (pid >= 0 ? aggr->id[i] != (ptrdiff_t)b * pid + (ptrdiff_t)(i % b) : aggr->id[i] >= 0)
            FAIL("pointwise: id[" << i << "] = " << aggr->id[i] << " but pointwise id of point " << i / b << " is " << pid);
    }
    std::vector<char> expect(A.ptr[n], 0);
    for (size_t i = 0; i < n; ++i) for (ptrdiff_t q = A.ptr[i]; q < A.ptr[i + 1]; ++q) {
        size_t c = A.col[q], ip = i / b, cp = c / b;
        bool ps = false;
        for (ptrdiff_t jp = Ap->ptr[ip]; jp < Ap->ptr[ip + 1]; ++jp) if ((size_t)Ap->col[jp] == cp && pw->strong_connection[jp]) ps = true;
        expect[q] = (cp == ip || ps) && c != i;
    }
    print_vec("expected strong  ", expect);
    for (size_t i = 0; i < n; ++i) for (ptrdiff_t q = A.ptr[i]; q < A.ptr[i + 1]; ++q)
        if ((aggr->strong_connection[q] != 0) != (expect[q] != 0))
            FAIL("pointwise: strong_connection of scalar entry (" << i << "," << A.col[q] << ") = " << (int)aggr->strong_connection[q]
                 << ", expected " << (int)expect[q] << " = ((c/b == ip || pointwise-strong) && c != row)");
    return 0;
}
static int r_pw_block(const Witness &w) {
    auto A = crs_checked(w, "A"); auto Wp = crs_checked(w, "Ap"); if (!A) return 3;
    unsigned b = (unsigned)w.num("w_bs", 2);
    std::vector<double> ps = w.arr("w_pstrong");
    // attempt 1: values realise the pointwise flags of the witness (block value = max |v|; eps = 0: strong <=> value != 0)
    for (size_t i = 0; i < A->nrows; ++i) for (ptrdiff_t q = A->ptr[i]; q < A->ptr[i + 1]; ++q) {
        size_t ip = i / b, cp = A->col[q] / b; bool st = (ip == cp);
        if (Wp && ip < Wp->nrows) for (ptrdiff_t jp = Wp->ptr[ip]; jp < Wp->ptr[ip + 1]; ++jp)
            if ((size_t)Wp->col[jp] == cp && jp < (ptrdiff_t)ps.size() && ps[jp] != 0) st = true;
        A->val[q] = st ? 1.0 : 0.0;
    }
    bool usable; int rc = pw_block_once(*A, b, usable);
    if (usable || rc == 1) return rc;
    // attempt 2: every stored entry 1 (every pointwise coupling strong)
    std::cout << "-- retry with all values 1" << std::endl;
    for (ptrdiff_t q = 0; q < A->ptr[A->nrows]; ++q) A->val[q] = 1.0;
    return pw_block_once(*A, b, usable);
}

// ---------------------------------------------------------------- remove_small_aggregates
static int r_remove_small(const Witness &w) {
    std::vector<double> id0 = w.arr("w_id");
    size_t n = (size_t)w.num("w_n"), count0 = (size_t)w.num("w_count");
    unsigned b = (unsigned)w.num("w_bs", 1), min_aggregate = (unsigned)w.num("w_min");
    if (id0.size() < n) return 3;
    std::shared_ptr<Crs> E = std::make_shared<Crs>(); E->set_size(n, n, true); E->set_nonzeros(0);
    // a plain_aggregates object with the witness content (public members)
    Crs one; one.set_size(2, 2, true); one.ptr[0] = 0; one.ptr[1] = 2; one.ptr[2] = 4; one.set_nonzeros(4);
    one.col[0] = 0; one.col[1] = 1; one.col[2] = 0; one.col[3] = 1; for (int k = 0; k < 4; ++k) one.val[k] = 1.0;
    PA::params p0; PA aggr(one, p0);
    aggr.id.assign(n, 0); for (size_t i = 0; i < n; ++i) aggr.id[i] = (ptrdiff_t)id0[i];
    aggr.count = count0; aggr.strong_connection.clear();
    std::vector<ptrdiff_t> before = aggr.id;
    print_vec("id before", before); std::cout << "count = " << count0 << " block_size = " << b << " min_aggregate = " << min_aggregate << std::endl;
    PWA::remove_small_aggregates(n, b, min_aggregate, aggr);
    print_vec("id after ", aggr.id); std::cout << "count = " << aggr.count << std::endl;
    std::vector<size_t> size(count0, 0);
    for (size_t i = 0; i < n; ++i) if (before[i] >= 0) ++size[before[i]];
    std::vector<ptrdiff_t> newid(count0, -2); size_t m = 0;
    for (size_t k = 0; k < count0; ++k) if (min_aggregate <= 1 || (size_t)b * size[k] >= min_aggregate) newid[k] = m++;
    if (aggr.count != m) FAIL("remove_small_aggregates: count = " << aggr.count << ", expected " << m << " aggregates of at least " << min_aggregate << " unknowns");
    for (size_t i = 0; i < n; ++i) {
        ptrdiff_t e = before[i] < 0 ? before[i] : newid[before[i]];
        if (aggr.id[i] != e) FAIL("remove_small_aggregates: id[" << i << "] = " << aggr.id[i] << ", expected " << e);
    }
    return 0;
}

// ---------------------------------------------------------------- tentative_prolongation (no null space)
static int r_tentative(const Witness &w) {
    std::vector<double> a = w.arr("w_aggr");
    size_t n = (size_t)w.num("w_n"), naggr = (size_t)w.num("w_naggr");
    if (a.size() < n) return 3;
    std::vector<ptrdiff_t> aggr(n); for (size_t i = 0; i < n; ++i) aggr[i] = (ptrdiff_t)a[i];
    print_vec("aggr", aggr); std::cout << "n = " << n << " naggr = " << naggr << std::endl;
    coarsening::nullspace_params ns;
    auto P = coarsening::tentative_prolongation<Crs>(n, naggr, aggr, ns, 1);
    print_crs("P_tent", *P);
    std::string why;
    if (P->nrows != n || P->ncols != naggr) FAIL("tentative: wrong dimensions");
    if (!wf(*P, why)) FAIL("tentative: result not well-formed: " << why);
    for (size_t i = 0; i < n; ++i) {
        ptrdiff_t len = P->ptr[i + 1] - P->ptr[i];
        if (aggr[i] >= 0) {
            if (len != 1) FAIL("tentative: aggregated row " << i << " has " << len << " entries, expected 1");
            if (P->col[P->ptr[i]] != aggr[i]) FAIL("tentative: row " << i << " column " << P->col[P->ptr[i]] << ", expected aggr[i] = " << aggr[i]);
            if (P->val[P->ptr[i]] != 1.0) FAIL("tentative: row " << i << " value " << P->val[P->ptr[i]] << ", expected 1 (P * 1 = 1)");
        } else if (len != 0) FAIL("tentative: removed row " << i << " has " << len << " entries, expected none");
    }
    return 0;
}

int main(int argc, char **argv) {
    if (argc < 3) return 2;
    std::string unit = argv[1];
    Witness w;
    if (!w.load(std::string(argv[2]) + ".in")) { std::cout << "no witness input" << std::endl; return 3; }
    if (unit == "plain_aggregates_strong") return r_plain_strong(w);
    if (unit == "plain_aggregates_ids") return r_plain_ids(w);
    if (unit == "pointwise_aggregates_block") return r_pw_block(w);
    if (unit == "pointwise_remove_small_aggregates") return r_remove_small(w);
    if (unit == "tentative_prolongation_const") return r_tentative(w);
    std::cout << "no replay for unit " << unit << std::endl;
    return 3;
}
