// replay of coarsening-unit witnesses (C04) against the real amgcl templates
#include "witness.hpp"
#include <amgcl/util.hpp>
#include <amgcl/coarsening/plain_aggregates.hpp>
#include <amgcl/coarsening/pointwise_aggregates.hpp>
#include <amgcl/coarsening/tentative_prolongation.hpp>
using namespace amgcl;
typedef coarsening::plain_aggregates PA;
typedef coarsening::pointwise_aggregates PWA;

static std::shared_ptr<Crs> crs_checked(const Witness &w, const std::string &X) {
    if (!w.has("w_" + X + "_ptr")) return std::shared_ptr<Crs>();
    return crs_from(w, X);
}
template <class Vec> static void print_vec(const char *name, const Vec &v) {
    std::cout << name << ":";
    for (size_t i = 0; i < v.size(); ++i) std::cout << " " << (long)v[i];
    std::cout << std::endl;
}
// independent oracle for an aggregate numbering
static int check_numbering(const std::vector<ptrdiff_t> &id, size_t count, const std::vector<char> &has_strong) {
    size_t n = id.size();
    for (size_t i = 0; i < n; ++i) {
        if ((id[i] == -2) != !has_strong[i]) FAIL("aggregates: row " << i << " has " << (has_strong[i] ? "a" : "no") << " strong neighbour but id = " << id[i]);
        if (id[i] != -2 && !(id[i] >= 0 && (size_t)id[i] < count)) FAIL("aggregates: id[" << i << "] = " << id[i] << " outside [0," << count << ")");
    }
    for (size_t k = 0; k < count; ++k) {
        bool has = false;
        for (size_t i = 0; i < n; ++i) if (id[i] == (ptrdiff_t)k) has = true;
        if (!has) FAIL("aggregates: aggregate " << k << " < count = " << count << " has no member");
    }
    return 0;
}

// ---------------------------------------------------------------- plain_aggregates, part 1
static int r_plain_strong(const Witness &w) {
    auto A = crs_checked(w, "A"); if (!A) return 3;
    print_crs("A", *A);
    PA::params prm; prm.eps_strong = (float)w.num("w_eps");
    std::cout << "eps_strong = " << prm.eps_strong << std::endl;
    size_t n = A->nrows;
    std::vector<double> d(n, 0.0);
    for (size_t i = 0; i < n; ++i) for (ptrdiff_t j = A->ptr[i]; j < A->ptr[i + 1]; ++j) if ((size_t)A->col[j] == i) d[i] = A->val[j];
    std::vector<char> expect(A->ptr[n], 0);
    bool any = false;
    for (size_t i = 0; i < n; ++i) for (ptrdiff_t j = A->ptr[i]; j < A->ptr[i + 1]; ++j) {
        size_t c = A->col[j]; double v = A->val[j];
        expect[j] = (c != i) && ((double)prm.eps_strong * prm.eps_strong * d[i] * d[c] < v * v);
        any = any || expect[j];
    }
    try {
        PA aggr(*A, prm);
        print_vec("strong_connection", aggr.strong_connection); print_vec("expected         ", expect);
        if (aggr.strong_connection.size() != expect.size()) FAIL("strong_connection has wrong size");
        for (size_t j = 0; j < expect.size(); ++j)
            if ((aggr.strong_connection[j] != 0) != (expect[j] != 0)) FAIL("strong_connection[" << j << "] = " << (int)aggr.strong_connection[j] << ", documented criterion gives " << (int)expect[j]);
    } catch (const error::empty_level &) {
        std::cout << "empty_level thrown" << std::endl;
        if (any) FAIL("empty_level thrown although the documented criterion marks a strong connection");
    }
    return 0;
}

// ---------------------------------------------------------------- plain_aggregates, part 2
// the flags of the witness are realised through values: eps_strong = 0, v = 1 on flagged off-diagonals, 0 otherwise
static int r_plain_ids(const Witness &w) {
    auto A = crs_checked(w, "A"); if (!A) return 3;
    std::vector<double> f = w.arr("w_strong");
    size_t n = A->nrows;
    std::vector<char> has(n, 0);
    for (size_t i = 0; i < n; ++i) for (ptrdiff_t j = A->ptr[i]; j < A->ptr[i + 1]; ++j) {
        bool st = j < (ptrdiff_t)f.size() && f[j] != 0 && (size_t)A->col[j] != i;
        A->val[j] = ((size_t)A->col[j] == i || st) ? 1.0 : 0.0;
        if (st) has[i] = 1;
    }
    print_crs("A (values realise the witness flags, eps_strong = 0)", *A);
    PA::params prm; prm.eps_strong = 0.0f;
    bool any = false; for (size_t i = 0; i < n; ++i) any = any || has[i];
    try {
        PA aggr(*A, prm);
        print_vec("strong_connection", aggr.strong_connection); print_vec("id", aggr.id); std::cout << "count = " << aggr.count << std::endl;
        for (size_t i = 0; i < n; ++i) for (ptrdiff_t j = A->ptr[i]; j < A->ptr[i + 1]; ++j)
            if ((aggr.strong_connection[j] != 0) != (A->val[j] != 0 && (size_t)A->col[j] != i)) { std::cout << "flags of the witness not realised natively (part 1 differs)" << std::endl; return 3; }
        if (aggr.id.size() != n) FAIL("id has wrong size");
        if (aggr.count < 1) FAIL("count == 0 without empty_level");
        return check_numbering(aggr.id, aggr.count, has);
    } catch (const error::empty_level &) {
        std::cout << "empty_level thrown" << std::endl;
        if (any) FAIL("empty_level thrown although a variable has a strong neighbour");
    }
    return 0;
}

// ---------------------------------------------------------------- pointwise_aggregates, block path
static bool correct_pointwise_pattern(const Crs &A, const Crs &Ap, unsigned b) {
    size_t np = A.nrows / b;
    if (Ap.nrows != np) return false;
    for (size_t ip = 0; ip < np; ++ip) {
        std::vector<char> want(np, 0), got(np, 0);
        for (ptrdiff_t q = A.ptr[ip * b]; q < A.ptr[ip * b + b]; ++q) want[A.col[q] / b] = 1;
        for (ptrdiff_t jp = Ap.ptr[ip]; jp < Ap.ptr[ip + 1]; ++jp) { if (got[Ap.col[jp]]) return false; got[Ap.col[jp]] = 1; }
        if (want != got) return false;
    }
    return true;
}
static int pw_block_once(Crs &A, unsigned b, bool &usable) {
    usable = false;
    PWA::params prm; prm.eps_strong = 0.0f; prm.block_size = b;
    print_crs("A", A);
    std::cout << "block_size = " << b << ", eps_strong = 0, min_aggregate = 1" << std::endl;
    // the given inputs of the unit, computed by the real callees
    auto Ap = backend::pointwise_matrix(A, b);
    print_crs("pointwise_matrix(A)", *Ap);
    if (!correct_pointwise_pattern(A, *Ap, b)) { std::cout << "pointwise_matrix does not return the block pattern of A (precondition of this unit; see finding F1)" << std::endl; return 3; }
    std::unique_ptr<PA> pw; std::unique_ptr<PWA> aggr;
    try { pw.reset(new PA(*Ap, prm)); aggr.reset(new PWA(A, prm, 1)); }
    catch (const error::empty_level &) { std::cout << "empty_level thrown (no strong pointwise connection)" << std::endl; return 3; }
    usable = true;
    print_vec("pointwise id", pw->id); print_vec("pointwise strong", pw->strong_connection);
    print_vec("id", aggr->id); print_vec("strong_connection", aggr->strong_connection); std::cout << "count = " << aggr->count << std::endl;
    size_t n = A.nrows;
    if (aggr->count != b * pw->count) FAIL("pointwise: count = " << aggr->count << ", expected block_size * pointwise count = " << b * pw->count);
    if (aggr->id.size() != n || aggr->strong_connection.size() != (size_t)A.ptr[n]) FAIL("pointwise: wrong size of id / strong_connection");
    for (size_t i = 0; i < n; ++i) {
        ptrdiff_t pid = pw->id[i / b];
        if (pid >= 0 ? aggr->id[i] != (ptrdiff_t)b * pid + (ptrdiff_t)(i % b) : aggr->id[i] >= 0)
            FAIL("pointwise: id[" << i << "] = " << aggr->id[i] << " but pointwise id of point " << i / b << " is " << pid);
    }
    std::vector<char> expect(A.ptr[n], 0);
    for (size_t i = 0; i < n; ++i) for (ptrdiff_t q = A.ptr[i]; q < A.ptr[i + 1]; ++q) {
        size_t c = A.col[q], ip = i / b, cp = c / b;
        bool ps = false;
        for (ptrdiff_t jp = Ap->ptr[ip]; jp < Ap->ptr[ip + 1]; ++jp) if ((size_t)Ap->col[jp] == cp && pw->strong_connection[jp]) ps = true;
        expect[q] = (cp == ip || ps) && c != i;
    }
    print_vec("expected strong  ", expect);
    for (size_t i = 0; i < n; ++i) for (ptrdiff_t q = A.ptr[i]; q < A.ptr[i + 1]; ++q)
        if ((aggr->strong_connection[q] != 0) != (expect[q] != 0))
            FAIL("pointwise: strong_connection of scalar entry (" << i << "," << A.col[q] << ") = " << (int)aggr->strong_connection[q]
                 << ", expected " << (int)expect[q] << " = ((c/b == ip || pointwise-strong) && c != row)");
    return 0;
}
static int r_pw_block(const Witness &w) {
    auto A = crs_checked(w, "A"); auto Wp = crs_checked(w, "Ap"); if (!A) return 3;
    unsigned b = (unsigned)w.num("w_bs", 2);
    std::vector<double> ps = w.arr("w_pstrong");
    // attempt 1: values realise the pointwise flags of the witness (block value = max |v|; eps = 0: strong <=> value != 0)
    for (size_t i = 0; i < A->nrows; ++i) for (ptrdiff_t q = A->ptr[i]; q < A->ptr[i + 1]; ++q) {
        size_t ip = i / b, cp = A->col[q] / b; bool st = (ip == cp);
        if (Wp && ip < Wp->nrows) for (ptrdiff_t jp = Wp->ptr[ip]; jp < Wp->ptr[ip + 1]; ++jp)
            if ((size_t)Wp->col[jp] == cp && jp < (ptrdiff_t)ps.size() && ps[jp] != 0) st = true;
        A->val[q] = st ? 1.0 : 0.0;
    }
    bool usable; int rc = pw_block_once(*A, b, usable);
    if (usable || rc == 1) return rc;
    // attempt 2: every stored entry 1 (every pointwise coupling strong)
    std::cout << "-- retry with all values 1" << std::endl;
    for (ptrdiff_t q = 0; q < A->ptr[A->nrows]; ++q) A->val[q] = 1.0;
    return pw_block_once(*A, b, usable);
}

// ---------------------------------------------------------------- remove_small_aggregates
static int r_remove_small(const Witness &w) {
    std::vector<double> id0 = w.arr("w_id");
    size_t n = (size_t)w.num("w_n"), count0 = (size_t)w.num("w_count");
    unsigned b = (unsigned)w.num("w_bs", 1), min_aggregate = (unsigned)w.num("w_min");
    if (id0.size() < n) return 3;
    std::shared_ptr<Crs> E = std::make_shared<Crs>(); E->set_size(n, n, true); E->set_nonzeros(0);
    // a plain_aggregates object with the witness content (public members)
    Crs one; one.set_size(2, 2, true); one.ptr[0] = 0; one.ptr[1] = 2; one.ptr[2] = 4; one.set_nonzeros(4);
    one.col[0] = 0; one.col[1] = 1; one.col[2] = 0; one.col[3] = 1; for (int k = 0; k < 4; ++k) one.val[k] = 1.0;
    PA::params p0; PA aggr(one, p0);
    aggr.id.assign(n, 0); for (size_t i = 0; i < n; ++i) aggr.id[i] = (ptrdiff_t)id0[i];
    aggr.count = count0; aggr.strong_connection.clear();
    std::vector<ptrdiff_t> before = aggr.id;
    print_vec("id before", before); std::cout << "count = " << count0 << " block_size = " << b << " min_aggregate = " << min_aggregate << std::endl;
    PWA::remove_small_aggregates(n, b, min_aggregate, aggr);
    print_vec("id after ", aggr.id); std::cout << "count = " << aggr.count << std::endl;
    std::vector<size_t> size(count0, 0);
    for (size_t i = 0; i < n; ++i) if (before[i] >= 0) ++size[before[i]];
    std::vector<ptrdiff_t> newid(count0, -2); size_t m = 0;
    for (size_t k = 0; k < count0; ++k) if (min_aggregate <= 1 || (size_t)b * size[k] >= min_aggregate) newid[k] = m++;
    if (aggr.count != m) FAIL("remove_small_aggregates: count = " << aggr.count << ", expected " << m << " aggregates of at least " << min_aggregate << " unknowns");
    for (size_t i = 0; i < n; ++i) {
        ptrdiff_t e = before[i] < 0 ? before[i] : newid[before[i]];
        if (aggr.id[i] != e) FAIL("remove_small_aggregates: id[" << i << "] = " << aggr.id[i] << ", expected " << e);
    }
    return 0;
}

// ---------------------------------------------------------------- tentative_prolongation (no null space)
static int r_tentative(const Witness &w) {
    std::vector<double> a = w.arr("w_aggr");
    size_t n = (size_t)w.num("w_n"), naggr = (size_t)w.num("w_naggr");
    if (a.size() < n) return 3;
    std::vector<ptrdiff_t> aggr(n); for (size_t i = 0; i < n; ++i) aggr[i] = (ptrdiff_t)a[i];
    print_vec("aggr", aggr); std::cout << "n = " << n << " naggr = " << naggr << std::endl;
    coarsening::nullspace_params ns;
    auto P = coarsening::tentative_prolongation<Crs>(n, naggr, aggr, ns, 1);
    print_crs("P_tent", *P);
    std::string why;
    if (P->nrows != n || P->ncols != naggr) FAIL("tentative: wrong dimensions");
    if (!wf(*P, why)) FAIL("tentative: result not well-formed: " << why);
    for (size_t i = 0; i < n; ++i) {
        ptrdiff_t len = P->ptr[i + 1] - P->ptr[i];
        if (aggr[i] >= 0) {
            if (len != 1) FAIL("tentative: aggregated row " << i << " has " << len << " entries, expected 1");
            if (P->col[P->ptr[i]] != aggr[i]) FAIL("tentative: row " << i << " column " << P->col[P->ptr[i]] << ", expected aggr[i] = " << aggr[i]);
            if (P->val[P->ptr[i]] != 1.0) FAIL("tentative: row " << i << " value " << P->val[P->ptr[i]] << ", expected 1 (P * 1 = 1)");
        } else if (len != 0) FAIL("tentative: removed row " << i << " has " << len << " entries, expected none");
    }
    return 0;
}

// ================================================================ appended: interpolation units (units/c04_interp.py)
// ---------------------------------------------------------------- ruge_stuben::transfer_operators, interpolation region
// connect() / cfsplit() are private static members: the driver reads the REAL strong-connection flags and the REAL
// C/F splitting through them (the only purpose of the access hack below) and evaluates the documented direct
// interpolation formula with truncation on the P returned by the real transfer_operators().
#include <amgcl/coarsening/detail/scaled_galerkin.hpp>
#include <set>
#define private public
#include <amgcl/coarsening/ruge_stuben.hpp>
#undef private
typedef coarsening::ruge_stuben< backend::builtin<double> > RS;
typedef backend::crs<char, ptrdiff_t, ptrdiff_t> CrsFlags;
#include <sys/wait.h>
#include <unistd.h>
#include <omp.h>
// run f in a child process: a crash of the real library (e.g. an uninitialised column index used by transpose) is a
// reproduction, not a failure of the driver.  Callers switch OpenMP to one thread first (no thread pool to inherit).
template <class F> static int run_in_child(F f, const char *what) {
    std::cout.flush();
    pid_t pid = fork();
    if (pid == 0) { int rc = f(); std::cout.flush(); _exit(rc); }
    int st = 0; waitpid(pid, &st, 0);
    if (WIFEXITED(st)) return WEXITSTATUS(st);
    std::cout << "REPRODUCED on the real code: " << what << " crashed (signal " << WTERMSIG(st) << "): memory corruption" << std::endl;
    return 1;
}

static bool rs_close(double a, double b) { return std::fabs(a - b) <= 1e-9 * (1 + std::fabs(a) + std::fabs(b)); }

// returns 1 (REPRODUCED) when P violates the documented formula for the real S / cf of this run
static int rs_check_once(const Crs &A, float eps_strong, bool do_trunc, float eps_trunc, bool verbose) {
    size_t n = A.nrows;
    RS::params prm; prm.eps_strong = eps_strong; prm.do_trunc = do_trunc; prm.eps_trunc = eps_trunc;
    std::vector<char> cf(n, 'U'); CrsFlags S;
    RS::connect(A, prm.eps_strong, S, cf);
    RS::cfsplit(A, S, cf);
    std::shared_ptr<Crs> P, R;
    try { std::tie(P, R) = RS(prm).transfer_operators(A); }
    catch (const error::empty_level &) {
        for (size_t i = 0; i < n; ++i) if (cf[i] == 'C') FAIL("interpolation: empty_level thrown although point " << i << " is C");
        return 0;
    }
    if (verbose) {
        std::cout << "eps_strong = " << eps_strong << " do_trunc = " << do_trunc << " eps_trunc = " << eps_trunc << "  cf = ";
        for (size_t i = 0; i < n; ++i) std::cout << cf[i];
        std::cout << std::endl; print_crs("P", *P);
    }
    std::vector<ptrdiff_t> cidx(n, -1); size_t nc = 0;
    for (size_t i = 0; i < n; ++i) if (cf[i] == 'C') cidx[i] = (ptrdiff_t)nc++;
    std::string why;
    if (P->nrows != n || P->ncols != nc) FAIL("interpolation: P is " << P->nrows << "x" << P->ncols << ", expected " << n << "x" << nc);
    if (!wf(*P, why)) FAIL("interpolation: P is not well-formed (an unwritten slot?): " << why);
    for (size_t i = 0; i < n; ++i) {
        ptrdiff_t b = P->ptr[i], e = P->ptr[i + 1];
        if (cf[i] == 'C') {
            if (!(e - b == 1 && P->col[b] == cidx[i] && P->val[b] == 1.0)) FAIL("interpolation: C row " << i << " is not the single entry (i, cidx[i]) = 1");
            continue;
        }
        double amin = 0, amax = 0, dia = 0, a_num = 0, b_num = 0, a_den = 0, b_den = 0, kneg = 0, kpos = 0;
        for (ptrdiff_t j = A.ptr[i]; j < A.ptr[i + 1]; ++j) if (S.val[j] && cf[A.col[j]] == 'C') { amin = std::min(amin, A.val[j]); amax = std::max(amax, A.val[j]); }
        double thr_min = amin * eps_trunc, thr_max = amax * eps_trunc;     // double * float, as documented: eps_tr * extremum
        ptrdiff_t k = b; std::vector<std::pair<ptrdiff_t, ptrdiff_t> > kept;   // (entry of A, slot of P)
        for (ptrdiff_t j = A.ptr[i]; j < A.ptr[i + 1]; ++j) {
            ptrdiff_t c = A.col[j]; double v = A.val[j];
            if ((size_t)c == i) { dia = v; continue; }
            if (v < 0) a_num += v; else b_num += v;
            if (!(S.val[j] && cf[c] == 'C')) continue;
            if (v < 0) a_den += v; else b_den += v;
            bool must_keep = !do_trunc || (v < 0 ? v < thr_min : v > thr_max);
            bool must_drop = do_trunc && (v < 0 ? v > thr_min : v < thr_max);
            bool present = k < e && P->col[k] == cidx[c];
            if (must_keep && !present) FAIL("interpolation: row " << i << ": strong C coupling a(" << i << "," << c << ") = " << v << " is beyond the truncation threshold but is not the next entry of P");
            if (must_drop && present) FAIL("interpolation: row " << i << ": strong C coupling a(" << i << "," << c << ") = " << v << " is inside the truncation threshold but is an entry of P");
            if (present) { kept.push_back(std::make_pair(j, k)); ++k; if (v < 0) kneg += v; else kpos += v; }
        }
        if (k != e) FAIL("interpolation: row " << i << " of P has " << e - b << " slots but only " << k - b << " hold a kept strong C coupling (unwritten / extra slot)");
        double dia2 = (b_num > 0 && b_den == 0) ? dia + b_num : dia;
        double cfn = (do_trunc && kneg != 0) ? std::fabs(a_den) / std::fabs(kneg) : 1;
        double cfp = (do_trunc && kpos != 0) ? std::fabs(b_den) / std::fabs(kpos) : 1;
        double alpha = a_den != 0 ? -cfn * std::fabs(a_num) / (std::fabs(dia2) * std::fabs(a_den)) : 0;
        double beta  = b_den != 0 ? -cfp * std::fabs(b_num) / (std::fabs(dia2) * std::fabs(b_den)) : 0;
        for (size_t q = 0; q < kept.size(); ++q) {
            double v = A.val[kept[q].first], w = P->val[kept[q].second], ex = (v < 0 ? alpha : beta) * v;
            if (!rs_close(w, ex))
                FAIL("interpolation: row " << i << ": weight of a(" << i << "," << A.col[kept[q].first] << ") = " << v << " is " << w
                     << ", the documented formula (rescaled so that truncation keeps the total weight) gives " << ex
                     << " [eps_strong = " << eps_strong << ", eps_trunc = " << eps_trunc << ", do_trunc = " << do_trunc << "]");
        }
    }
    return 0;
}
// anisotropic Neumann Laplacian (x couplings -2, y couplings -1): with eps_trunc = 0.5 every y coupling of an F point with
// an x neighbour in C lies EXACTLY at the truncation threshold (finding F6: ties were dropped but not compensated)
static std::shared_ptr<Crs> rs_tie_scenario(int nx, int ny) {
    int n = nx * ny; std::vector<double> D(n * n, 0.0);
    for (int j = 0; j < ny; ++j) for (int i = 0; i < nx; ++i) { int p = j * nx + i;
        if (i + 1 < nx) D[p * n + p + 1] = D[(p + 1) * n + p] = -2;
        if (j + 1 < ny) D[p * n + p + nx] = D[(p + nx) * n + p] = -1; }
    for (int p = 0; p < n; ++p) { double s = 0; for (int q = 0; q < n; ++q) if (q != p) s += D[p * n + q]; D[p * n + p] = -s; }
    std::shared_ptr<Crs> A = std::make_shared<Crs>(); A->set_size(n, n, true);
    for (int i = 0; i < n; ++i) for (int j = 0; j < n; ++j) if (D[i * n + j] != 0) ++A->ptr[i + 1];
    A->set_nonzeros(A->scan_row_sizes());
    for (int i = 0, h = 0; i < n; ++i) for (int j = 0; j < n; ++j) if (D[i * n + j] != 0) { A->col[h] = j; A->val[h] = D[i * n + j]; ++h; }
    return A;
}
static int r_rs_interp(const Witness &w) {
    auto A = crs_checked(w, "A"); if (!A) return 3;
    omp_set_num_threads(1);
    print_crs("A", *A);
    std::set<float> et, es;
    const float es0[] = {0.25f, 0.5f, 0.1f, 0.9f, 0.01f}; es.insert(es0, es0 + 5);
    const float et0[] = {0.5f, 0.2f, 0.25f, 0.75f, 1.0f}; et.insert(et0, et0 + 5);
    // thresholds of the witness, where they are a scaling of the row extremum by one factor
    std::vector<double> amin = w.arr("w_amin"), amax = w.arr("w_amax"), tmin = w.arr("w_thr_min"), tmax = w.arr("w_thr_max");
    for (size_t i = 0; i < amin.size() && i < tmin.size(); ++i) if (amin[i] != 0 && tmin[i] / amin[i] >= 0 && tmin[i] / amin[i] <= 4) et.insert((float)(tmin[i] / amin[i]));
    for (size_t i = 0; i < amax.size() && i < tmax.size(); ++i) if (amax[i] != 0 && tmax[i] / amax[i] >= 0 && tmax[i] / amax[i] <= 4) et.insert((float)(tmax[i] / amax[i]));
    bool wdt = w.num("w_do_trunc") != 0;
    std::cout << "S / cf of the witness are inputs of the region; natively they come from the real connect() / cfsplit(): scanning "
              << es.size() << " eps_strong x " << et.size() << " eps_trunc values on the witness matrix" << std::endl;
    for (int pass = 0; pass < 2; ++pass) {
        bool dt = pass == 0 ? wdt : !wdt;
        for (std::set<float>::iterator s = es.begin(); s != es.end(); ++s)
            for (std::set<float>::iterator t = et.begin(); t != et.end(); ++t) {
                const Crs &Ar = *A; const float sv = *s, tv = *t;
                int rc = run_in_child([&]() { int r = rs_check_once(Ar, sv, dt, tv, false); if (r) rs_check_once(Ar, sv, dt, tv, true); return r; },
                                      "ruge_stuben::transfer_operators on the witness matrix");
                if (rc) { std::cout << "[eps_strong = " << sv << ", eps_trunc = " << tv << ", do_trunc = " << dt << "]" << std::endl; return rc; }
                if (!dt) break;
            }
    }
    std::cout << "not reproduced with the witness matrix; canned scenarios (exact ties at the truncation threshold):" << std::endl;
    const int shapes[][2] = {{5, 5}, {3, 2}, {4, 3}, {7, 6}};
    for (int k = 0; k < 4; ++k) {
        auto T = rs_tie_scenario(shapes[k][0], shapes[k][1]);
        const float ets[] = {0.5f, 0.25f, 1.0f};
        for (int q = 0; q < 3; ++q) {
            const Crs &Tr = *T; const float tv = ets[q];
            int rc = run_in_child([&]() { return rs_check_once(Tr, 0.25f, true, tv, false); }, "ruge_stuben::transfer_operators on the canned scenario");
            if (rc) { std::cout << "scenario: anisotropic Neumann Laplacian " << shapes[k][0] << "x" << shapes[k][1] << " (x: -2, y: -1)" << std::endl; return rc; }
        }
    }
    return 0;
}

// ---------------------------------------------------------------- heap pre-fill (C10: "for all prior heap contents")
// operator new[] is replaced for the whole driver; with g_fill < 0 (default, every other unit) it is plain malloc.
#include <new>
#include <cstring>
#include <sys/wait.h>
#include <unistd.h>
#include <omp.h>
static int g_fill = -1;
void* operator new[](std::size_t n) { void *p = std::malloc(n ? n : 1); if (!p) throw std::bad_alloc(); if (g_fill >= 0) std::memset(p, g_fill, n); return p; }
void operator delete[](void *p) noexcept { std::free(p); }
void operator delete[](void *p, std::size_t) noexcept { std::free(p); }

// ---------------------------------------------------------------- ruge_stuben::connect
static int cn_check_once(const Crs &A, float eps_strong, int fill, std::vector<char> &flags_out) {
    size_t n = A.nrows;
    std::vector<char> cf(n, 'U'); CrsFlags S;
    g_fill = fill;
    RS::connect(A, eps_strong, S, cf);
    g_fill = -1;
    flags_out.assign(S.val, S.val + A.ptr[n]);
    size_t nflag = 0;
    for (size_t i = 0; i < n; ++i) {
        double amin = 0;
        for (ptrdiff_t j = A.ptr[i]; j < A.ptr[i + 1]; ++j) if ((size_t)A.col[j] != i) amin = std::min(amin, A.val[j]);
        double thr = amin * eps_strong;
        if (amin == 0 && cf[i] != 'F') FAIL("connect: row " << i << " has no negative off-diagonal coupling but is not marked F");
        if (amin != 0 && cf[i] != 'U') FAIL("connect: row " << i << " has a negative off-diagonal coupling but cf = " << cf[i]);
        for (ptrdiff_t j = A.ptr[i]; j < A.ptr[i + 1]; ++j) {
            int f = S.val[j]; double v = A.val[j];
            if (f) ++nflag;
            if (amin == 0) { if (f != 0) FAIL("connect: row " << i << " has no negative off-diagonal coupling, but its strong-connection flag " << j - A.ptr[i] << " is " << f << " (heap pre-fill 0x" << std::hex << fill << std::dec << "): the flag is never written"); continue; }
            if (f != 0 && f != 1) FAIL("connect: flag (" << i << "," << A.col[j] << ") = " << f << " is neither 0 nor 1");
            if ((size_t)A.col[j] == i) { if (f) FAIL("connect: the diagonal entry of row " << i << " is flagged strong"); continue; }
            if (v < thr && !f) FAIL("connect: a(" << i << "," << A.col[j] << ") = " << v << " < eps_strong * min = " << thr << " is not flagged strong");
            if (v > thr && f) FAIL("connect: a(" << i << "," << A.col[j] << ") = " << v << " > eps_strong * min = " << thr << " is flagged strong");
        }
    }
    if (S.nrows != n || S.ncols != n || S.ptr[0] != 0 || (size_t)S.ptr[n] != nflag) FAIL("connect: transposed pattern has " << S.ptr[n] << " entries, " << nflag << " flags are set");
    for (size_t c = 0; c < n; ++c) {
        if (S.ptr[c] > S.ptr[c + 1]) FAIL("connect: transposed pattern: ptr not monotone");
        std::vector<ptrdiff_t> want, got(S.col + S.ptr[c], S.col + S.ptr[c + 1]);
        for (size_t i = 0; i < n; ++i) for (ptrdiff_t j = A.ptr[i]; j < A.ptr[i + 1]; ++j) if ((size_t)A.col[j] == c && S.val[j]) want.push_back(i);
        if (want != got) FAIL("connect: row " << c << " of the transposed pattern does not list exactly the rows strongly connected to " << c);
    }
    return 0;
}
// the whole setup in a child process: a corrupted heap must not take the driver down
static int rs_transfer_in_child(const Crs &A, float eps_strong, int fill, std::vector<double> &out) {
    int fd[2]; if (pipe(fd)) return -1;
    pid_t pid = fork();
    if (pid == 0) {
        close(fd[0]);
        RS::params prm; prm.eps_strong = eps_strong;
        g_fill = fill;
        std::vector<double> r;
        try { std::shared_ptr<Crs> P, R; std::tie(P, R) = RS(prm).transfer_operators(A);
              r.push_back((double)P->nrows); r.push_back((double)P->ncols);
              for (size_t i = 0; i <= P->nrows; ++i) r.push_back((double)P->ptr[i]);
              for (ptrdiff_t j = 0; j < P->ptr[P->nrows]; ++j) { r.push_back((double)P->col[j]); r.push_back(P->val[j]); } }
        catch (const error::empty_level &) { r.push_back(-1); }
        g_fill = -1;
        size_t m = r.size(); ssize_t wr = write(fd[1], &m, sizeof m); if (m) wr = write(fd[1], &r[0], m * sizeof(double)); (void)wr;
        _exit(0);
    }
    close(fd[1]);
    size_t m = 0; out.clear();
    if (read(fd[0], &m, sizeof m) == (ssize_t)sizeof m && m < (1u << 20)) { out.resize(m); size_t got = 0; while (got < m * sizeof(double)) { ssize_t k = read(fd[0], (char*)&out[0] + got, m * sizeof(double) - got); if (k <= 0) break; got += k; } }
    close(fd[0]);
    int st = 0; waitpid(pid, &st, 0);
    return (WIFEXITED(st) && WEXITSTATUS(st) == 0) ? 0 : 1;
}
static int cn_check_matrix(const Crs &A, const std::set<float> &es) {
    const int fills[] = {0x00, 0x01, 0xAA, 0xFF};
    for (std::set<float>::const_iterator s = es.begin(); s != es.end(); ++s) {
        std::vector<char> f0;
        for (int k = 0; k < 4; ++k) {
            std::vector<char> f;
            int rc = cn_check_once(A, *s, fills[k], f);
            if (rc) { std::cout << "[eps_strong = " << *s << "]" << std::endl; return rc; }
            if (k == 0) f0 = f; else if (f != f0) FAIL("connect: the strong-connection flags depend on the prior heap content (pre-fill 0x00 vs 0x" << std::hex << fills[k] << std::dec << "), eps_strong = " << *s);
        }
        std::vector<double> p0;
        for (int k = 0; k < 4; ++k) {
            std::vector<double> p;
            if (rs_transfer_in_child(A, *s, fills[k], p)) FAIL("ruge_stuben::transfer_operators crashed with heap pre-fill 0x" << std::hex << fills[k] << std::dec << " (eps_strong = " << *s << ")");
            if (k == 0) p0 = p; else if (p != p0) FAIL("ruge_stuben::transfer_operators: P depends on the prior heap content (pre-fill 0x00 vs 0x" << std::hex << fills[k] << std::dec << ")");
        }
    }
    return 0;
}
static int r_rs_connect(const Witness &w) {
    auto A = crs_checked(w, "A"); if (!A) return 3;
    omp_set_num_threads(1);      // no libgomp thread pool: the child processes forked below must be able to enter parallel regions
    print_crs("A", *A);
    std::set<float> es; const float es0[] = {0.25f, 0.5f, 0.1f, 1.0f}; es.insert(es0, es0 + 4);
    std::vector<double> thr = w.arr("w_thr");
    for (size_t i = 0; i < A->nrows && i < thr.size(); ++i) {
        double amin = 0; for (ptrdiff_t j = A->ptr[i]; j < A->ptr[i + 1]; ++j) if ((size_t)A->col[j] != i) amin = std::min(amin, A->val[j]);
        if (amin != 0 && thr[i] / amin >= 0 && thr[i] / amin <= 4) es.insert((float)(thr[i] / amin));
    }
    int rc = cn_check_matrix(*A, es);
    if (rc) return rc;
    std::cout << "not reproduced with the witness matrix; canned scenario (a row whose off-diagonal couplings are all positive):" << std::endl;
    Crs B; B.set_size(4, 4, true);
    const double D[4][4] = {{4, 1, 1, 0}, {1, 4, -2, -1}, {1, -2, 4, -1}, {0, -1, -1, 4}};
    for (int i = 0; i < 4; ++i) for (int j = 0; j < 4; ++j) if (D[i][j] != 0) ++B.ptr[i + 1];
    B.set_nonzeros(B.scan_row_sizes());
    for (int i = 0, h = 0; i < 4; ++i) for (int j = 0; j < 4; ++j) if (D[i][j] != 0) { B.col[h] = j; B.val[h] = D[i][j]; ++h; }
    print_crs("B", B);
    std::set<float> e1; e1.insert(0.25f);
    return cn_check_matrix(B, e1);
}

// ---------------------------------------------------------------- smoothed_aggregation::transfer_operators (smoothing)
#include <amgcl/coarsening/smoothed_aggregation.hpp>
typedef coarsening::smoothed_aggregation< backend::builtin<double> > SA;
static int sa_check_once(const Crs &A, float eps_strong, float relax, bool estimate, bool verbose) {
    size_t n = A.nrows;
    SA::params prm; prm.aggr.eps_strong = eps_strong; prm.relax = relax; prm.estimate_spectral_radius = estimate; prm.power_iters = 0;
    std::unique_ptr<PWA> aggr; std::shared_ptr<Crs> T, P, R;
    try {
        aggr.reset(new PWA(A, prm.aggr, prm.nullspace.cols));                                   // the given inputs of the unit,
        T = coarsening::tentative_prolongation<Crs>(n, aggr->count, aggr->id, prm.nullspace, prm.aggr.block_size);   // by the real callees
        SA sa(prm); std::tie(P, R) = sa.transfer_operators(A);
    } catch (const error::empty_level &) { return 0; }
    double omega = relax;
    if (estimate) omega *= (4.0 / 3) / backend::spectral_radius<true>(A, 0); else omega *= (2.0 / 3);
    if (verbose) { std::cout << "eps_strong = " << eps_strong << " relax = " << relax << " estimate_spectral_radius = " << estimate << " omega = " << omega << std::endl;
                   print_vec("strong_connection", aggr->strong_connection); print_crs("P_tent", *T); print_crs("P", *P); }
    std::string why; size_t m = T->ncols;
    if (P->nrows != n || P->ncols != m) FAIL("smoothing: P is " << P->nrows << "x" << P->ncols << ", expected " << n << "x" << m);
    if (!wf(*P, why)) FAIL("smoothing: P is not well-formed: " << why);
    std::vector<double> Td = dense(*T);
    for (size_t i = 0; i < n; ++i) {
        double d = 0; bool has_diag = false;
        for (ptrdiff_t j = A.ptr[i]; j < A.ptr[i + 1]; ++j) { if ((size_t)A.col[j] == i) has_diag = true; if ((size_t)A.col[j] == i || !aggr->strong_connection[j]) d += A.val[j]; }
        if (!has_diag || d == 0 || !std::isfinite(1 / d)) continue;       // outside the precondition / singular filtered diagonal
        std::vector<double> ex(m, 0.0); std::vector<char> pat(m, 0), got(m, 0);
        for (ptrdiff_t j = A.ptr[i]; j < A.ptr[i + 1]; ++j) {
            size_t c = A.col[j];
            if (c != i && !aggr->strong_connection[j]) continue;
            double mij = (c == i) ? (1 - omega) : (-omega / d) * A.val[j];
            for (ptrdiff_t q = T->ptr[c]; q < T->ptr[c + 1]; ++q) { ex[T->col[q]] += mij * T->val[q]; pat[T->col[q]] = 1; }
        }
        for (ptrdiff_t q = P->ptr[i]; q < P->ptr[i + 1]; ++q) {
            size_t c = P->col[q];
            if (got[c]) FAIL("smoothing: row " << i << " of P has column " << c << " twice");
            got[c] = 1;
            if (!pat[c]) FAIL("smoothing: row " << i << " of P has an entry in column " << c << " which is not in the pattern of (A_strong + diag) * P_tent");
            if (!rs_close(P->val[q], ex[c])) FAIL("smoothing: P(" << i << "," << c << ") = " << P->val[q] << ", (I - omega D^-1 A^F) P_tent gives " << ex[c]
                                                  << " [A^F: weak couplings lumped to the diagonal; omega = " << omega << ", eps_strong = " << eps_strong << "]");
        }
        if (got != pat) FAIL("smoothing: row " << i << " of P misses a column of the pattern of (A_strong + diag) * P_tent");
    }
    return 0;
}
static int r_sa_smooth(const Witness &w) {
    auto A = crs_checked(w, "A"); if (!A) return 3;
    // uninterpreted tokens carry no numeric meaning: small distinct numbers keep the witness pattern, diagonal dominant
    for (size_t i = 0; i < A->nrows; ++i) for (ptrdiff_t j = A->ptr[i]; j < A->ptr[i + 1]; ++j)
        A->val[j] = ((size_t)A->col[j] == i) ? 8.0 + i : -(1.0 + (j % 3));
    print_crs("A (witness pattern, numeric values chosen by the driver)", *A);
    std::vector<std::shared_ptr<Crs> > mats; mats.push_back(A); mats.push_back(rs_tie_scenario(4, 3)); mats.push_back(rs_tie_scenario(3, 1));
    const float es[] = {0.08f, 0.0f, 0.3f, 0.6f}; const float rl[] = {1.0f, 0.5f};
    for (size_t k = 0; k < mats.size(); ++k) {
        if (k == 1) std::cout << "not reproduced with the witness pattern; canned scenarios (anisotropic Laplacians: weak y couplings):" << std::endl;
        for (int a = 0; a < 4; ++a) for (int b = 0; b < 2; ++b) for (int e = 0; e < 2; ++e) {
            int rc = sa_check_once(*mats[k], es[a], rl[b], e != 0, false);
            if (rc) { sa_check_once(*mats[k], es[a], rl[b], e != 0, true); return rc; }
        }
    }
    return 0;
}

// ---------------------------------------------------------------- ruge_stuben::cfsplit
// S and cf come from the real connect(); the splitting runs in a child process (an out-of-range bucket index corrupts the heap)
static int cf_check_once(const Crs &A, float eps_strong) {
    size_t n = A.nrows;
    int fd[2]; if (pipe(fd)) return 3;
    pid_t pid = fork();
    if (pid == 0) {
        close(fd[0]);
        std::vector<char> cf(n, 'U'), r; CrsFlags S;
        RS::connect(A, eps_strong, S, cf);
        r = cf;
        RS::cfsplit(A, S, cf);
        r.insert(r.end(), cf.begin(), cf.end());
        ssize_t wr = write(fd[1], r.data(), r.size()); (void)wr;
        _exit(0);
    }
    close(fd[1]);
    std::vector<char> r(2 * n); size_t got = 0;
    while (got < 2 * n) { ssize_t k = read(fd[0], &r[0] + got, 2 * n - got); if (k <= 0) break; got += k; }
    close(fd[0]);
    int st = 0; waitpid(pid, &st, 0);
    if (!(WIFEXITED(st) && WEXITSTATUS(st) == 0) || got != 2 * n) FAIL("cfsplit crashed (eps_strong = " << eps_strong << "): memory corruption");
    std::cout << "eps_strong = " << eps_strong << "  cf after connect: " << std::string(r.begin(), r.begin() + n) << "  after cfsplit: " << std::string(r.begin() + n, r.end()) << std::endl;
    for (size_t i = 0; i < n; ++i) {
        if (r[n + i] != 'C' && r[n + i] != 'F') FAIL("cfsplit: variable " << i << " ends up '" << r[n + i] << "', neither C nor F");
        if (r[i] == 'F' && r[n + i] != 'F') FAIL("cfsplit: variable " << i << " was marked F by connect() but ends up " << r[n + i]);
    }
    return 0;
}
static int r_rs_cfsplit(const Witness &w) {
    auto A = crs_checked(w, "A"); if (!A) return 3;
    omp_set_num_threads(1);
    // the unit is about patterns: values realise a symmetric-looking M-matrix on the witness pattern
    for (size_t i = 0; i < A->nrows; ++i) for (ptrdiff_t j = A->ptr[i]; j < A->ptr[i + 1]; ++j) A->val[j] = ((size_t)A->col[j] == i) ? 8.0 : -(1.0 + (j % 2));
    print_crs("A (witness pattern, numeric values chosen by the driver)", *A);
    std::vector<std::shared_ptr<Crs> > mats; mats.push_back(A); mats.push_back(rs_tie_scenario(3, 3)); mats.push_back(rs_tie_scenario(5, 4));
    const float es[] = {0.25f, 0.0f, 0.6f, 1.0f};
    for (size_t k = 0; k < mats.size(); ++k) for (int a = 0; a < 4; ++a) { int rc = cf_check_once(*mats[k], es[a]); if (rc) return rc; }
    return 0;
}

int main(int argc, char **argv) {
    if (argc < 3) return 2;
    std::string unit = argv[1];
    Witness w;
    if (!w.load(std::string(argv[2]) + ".in")) { std::cout << "no witness input" << std::endl; return 3; }
    if (unit == "plain_aggregates_strong") return r_plain_strong(w);
    if (unit == "plain_aggregates_ids") return r_plain_ids(w);
    if (unit == "pointwise_aggregates_block") return r_pw_block(w);
    if (unit == "pointwise_remove_small_aggregates") return r_remove_small(w);
    if (unit == "tentative_prolongation_const") return r_tentative(w);
    if (unit == "ruge_stuben_interpolation") return r_rs_interp(w);
    if (unit == "ruge_stuben_connect") return r_rs_connect(w);
    if (unit == "ruge_stuben_cfsplit") return r_rs_cfsplit(w);
    if (unit == "smoothed_aggregation_smoothing") return r_sa_smooth(w);
    std::cout << "no replay for unit " << unit << std::endl;
    return 3;
}
