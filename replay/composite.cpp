// native replay of the setup-side units of the composite preconditioners (C18, units/c18_setup.py)
// against the REAL amgcl classes.  Fpp / App of cpr and the sub-blocks / gather-scatter matrices of
// schur_pressure_correction are private members: this test driver reads them through
// "#define private public" (no change to /repo).  Inner preconditioners are preconditioner::dummy
// (they only keep a copy of the matrix they are given, which is how App, Kuu and Kpp are observed).
#define NDEBUG 1          // cpr::invert asserts a non-zero pivot; a zero pivot is reported by the oracle below instead
#include "witness.hpp"
#include <algorithm>
#include <csignal>
#include <unistd.h>
#include <omp.h>
#include <amgcl/value_type/static_matrix.hpp>
#include <amgcl/adapter/crs_tuple.hpp>
#define private public
#include <amgcl/preconditioner/dummy.hpp>
#include <amgcl/preconditioner/cpr.hpp>
#include <amgcl/preconditioner/schur_pressure_correction.hpp>
#undef private
#include <amgcl/solver/bicgstab.hpp>
#include <amgcl/deflated_solver.hpp>
using namespace amgcl;

typedef backend::builtin<double, ptrdiff_t, ptrdiff_t> Backend;
typedef preconditioner::dummy<Backend> Dummy;
typedef preconditioner::cpr<Dummy, Dummy> CPR;
typedef preconditioner::schur_pressure_correction<Dummy, Dummy> Schur;

static void on_crash(int sig) {
    const char msg[] = "\nREPRODUCED on the real code: the call crashed (SIGSEGV/SIGABRT: memory corruption)\n";
    if (write(1, msg, sizeof(msg) - 1)) {}
    (void)sig;
    _exit(1);
}
static bool close_to(double a, double b) {
    if (a == b) return true;
    if (std::isnan(a) || std::isnan(b)) return std::isnan(a) && std::isnan(b);
    return std::fabs(a - b) <= 1e-10 * (std::fabs(a) + std::fabs(b));
}

// The contract of the units is about WHICH entries travel WHERE; the witness values are opaque tokens.
// The replay keeps the witness pattern and gives every stored entry a generic value of its own
// (diagonal entries dominant, all entries distinct and non-zero), so that a misplaced, missing or
// stale entry changes the numbers.
static void generic_values(Crs &A) {
    for (size_t i = 0; i < A.nrows; ++i)
        for (ptrdiff_t j = A.ptr[i]; j < A.ptr[i + 1]; ++j)
            A.val[j] = ((size_t)A.col[j] == i ? 4.0 + 0.25 * i : 0.5 + 0.0625 * (j + 1) + 0.03125 * i);
}

// ------------------------------------------------------------------------------------------------
// cpr::first_scalar_pass
// dense oracle: w = first row of inv(D), D = cell-diagonal block, i.e. D^T w = e0 (partial pivoting);
// usable = every leading principal minor of D^T is non-zero (domain of cpr::invert: LU without pivoting)
static bool cell_weights(const std::vector<double> &Kd, size_t n, size_t ip, int B, std::vector<double> &w) {
    std::vector<double> T(B * B), t;
    for (int r = 0; r < B; ++r) for (int c = 0; c < B; ++c) T[r * B + c] = Kd[(ip * B + c) * n + ip * B + r];
    t = T;
    for (int k = 0; k < B; ++k) {       // leading minors (no pivoting)
        if (std::fabs(t[k * B + k]) < 1e-12) return false;
        for (int i = k + 1; i < B; ++i) { double l = t[i * B + k] / t[k * B + k]; for (int j = k; j < B; ++j) t[i * B + j] -= l * t[k * B + j]; }
    }
    std::vector<double> b(B, 0.0); b[0] = 1;
    for (int k = 0; k < B; ++k) {       // solve with partial pivoting
        int p = k;
        for (int i = k + 1; i < B; ++i) if (std::fabs(T[i * B + k]) > std::fabs(T[p * B + k])) p = i;
        if (p != k) { for (int j = 0; j < B; ++j) std::swap(T[k * B + j], T[p * B + j]); std::swap(b[k], b[p]); }
        for (int i = k + 1; i < B; ++i) { double l = T[i * B + k] / T[k * B + k]; for (int j = k; j < B; ++j) T[i * B + j] -= l * T[k * B + j]; b[i] -= l * b[k]; }
    }
    w.assign(B, 0.0);
    for (int i = B; i-- > 0;) { double s = b[i]; for (int j = i + 1; j < B; ++j) s -= T[i * B + j] * w[j]; w[i] = s / T[i * B + i]; }
    return true;
}
static int check_fpp(const Crs &F, const std::vector<double> &Kd, size_t n, size_t N, int B, const char *what) {
    const size_t np = N / B;
    print_crs(what, F);
    if (F.nrows != np || F.ncols != N) FAIL(what << ": Fpp is " << F.nrows << "x" << F.ncols << ", expected " << np << "x" << N);
    for (size_t ip = 0; ip < np; ++ip) {
        if (F.ptr[ip] != (ptrdiff_t)(ip * B) || F.ptr[ip + 1] != (ptrdiff_t)((ip + 1) * B)) FAIL(what << ": row " << ip << " of Fpp does not hold B entries");
        for (int i = 0; i < B; ++i) if (F.col[ip * B + i] != (ptrdiff_t)(ip * B + i)) FAIL(what << ": Fpp row " << ip << " column " << F.col[ip * B + i] << " expected " << ip * B + i);
        std::vector<double> w;
        if (!cell_weights(Kd, n, ip, B, w)) { std::cout << "  cell " << ip << ": diagonal block has a zero leading minor (outside the domain of cpr::invert), not compared" << std::endl; continue; }
        for (int i = 0; i < B; ++i)
            if (!close_to(F.val[ip * B + i], w[i]))
                FAIL(what << ": Fpp(" << ip << "," << ip * B + i << ") = " << F.val[ip * B + i] << " but the first row of the inverse of the diagonal block of cell " << ip << " has " << w[i]);
    }
    return 0;
}
static int r_cpr(const Witness &w) {
    if (!w.has("w_K_nrows")) { std::cout << "no witness input" << std::endl; return 3; }
    auto K = crs_from(w, "K");
    const int B = (int)w.num("w_bs", 2);
    const size_t ar = (size_t)w.num("w_active_rows", 0), n = K->nrows;
    const bool get_app = w.num("w_get_app", 1) != 0;
    const size_t N = ar ? ar : n;
    if (K->nrows != K->ncols || N > n || B < 1 || N % B) { std::cout << "witness outside the precondition" << std::endl; return 3; }
    std::string why;
    if (!wf(*K, why) || !rows_sorted(*K, true)) { std::cout << "witness outside the precondition (" << why << " / rows not strictly ascending)" << std::endl; return 3; }
    generic_values(*K);
    print_crs("K (witness pattern, generic values)", *K);
    std::cout << "block_size=" << B << " active_rows=" << ar << " get_app=" << get_app << " (one OpenMP thread: all cells share one scratch block)" << std::endl;
    omp_set_dynamic(0); omp_set_num_threads(1);
    const std::vector<double> Kd = dense(*K);
    const size_t np = N / B;

    CPR::params prm; prm.block_size = B; prm.active_rows = ar;
    CPR P(K, prm);                                  // init(): first_scalar_pass(K, true) + second pass
    if (P.np != np) FAIL("np = " << P.np << " expected " << np);
    if (int rc = check_fpp(*P.Fpp, Kd, n, N, B, "Fpp after construction")) return rc;

    // pressure matrix: App(ip,jp) = sum_i w_ip[i] * K(ip*B+i, jp*B), stored for every block column jp < N/B of block row ip
    const Crs &App = P.P->system_matrix();
    print_crs("App", App);
    if (App.nrows != np || App.ncols != np) FAIL("App is " << App.nrows << "x" << App.ncols << ", expected " << np << "x" << np);
    if (!wf(App, why)) FAIL("App not well-formed: " << why);
    if (np && App.nnz != (size_t)App.ptr[np]) FAIL("App: nnz != ptr[np]");
    for (size_t ip = 0; ip < np; ++ip) {
        std::vector<int> has(np, 0), st(np, 0); std::vector<double> av(np, 0.0);
        for (int i = 0; i < B; ++i) for (ptrdiff_t j = K->ptr[ip * B + i]; j < K->ptr[ip * B + i + 1]; ++j) if ((size_t)K->col[j] < N) has[K->col[j] / B] = 1;
        for (ptrdiff_t j = App.ptr[ip]; j < App.ptr[ip + 1]; ++j) { st[App.col[j]]++; av[App.col[j]] = App.val[j]; }
        std::vector<double> wv; const bool usable = cell_weights(Kd, n, ip, B, wv);
        for (size_t jp = 0; jp < np; ++jp) {
            if (st[jp] != has[jp]) FAIL("App row " << ip << ": block column " << jp << " stored " << st[jp] << " times, block row of K " << (has[jp] ? "has" : "has no") << " entry there");
            if (!has[jp] || !usable) continue;
            double e = 0; for (int i = 0; i < B; ++i) e += wv[i] * Kd[(ip * B + i) * n + jp * B];
            if (!close_to(av[jp], e)) FAIL("App(" << ip << "," << jp << ") = " << av[jp] << " but the first-row-of-inverse-diagonal-block weighting of K gives " << e);
        }
    }
    // partial update with the unchanged matrix: first_scalar_pass(K, false)
    P.partial_update(*K, true);
    if (int rc = check_fpp(*P.Fpp, Kd, n, N, B, "Fpp after partial_update(K)")) return rc;
    return 0;
}

// ------------------------------------------------------------------------------------------------
// cpr::partial_update with an unchanged matrix (the unit is loop-free: no witness; a fixed matrix with structurally
// sparse cell-diagonal blocks, three cells, one trailing non-cell row, is used)
static int r_cpr_partial(const Witness &) {
    const int B = 2; const size_t n = 7, N = 6;
    const ptrdiff_t rows[7][4] = { {0, 1, 2, -1}, {1, 4, -1, -1}, {0, 2, 6, -1}, {2, 3, 5, -1}, {1, 4, 5, -1}, {4, 5, -1, -1}, {0, 3, 6, -1} };
    auto K = std::make_shared<Crs>(); K->set_size(n, n, true);
    for (size_t i = 0; i < n; ++i) { int c = 0; while (c < 4 && rows[i][c] >= 0) ++c; K->ptr[i + 1] = K->ptr[i] + c; }
    K->set_nonzeros(K->ptr[n]);
    for (size_t i = 0; i < n; ++i) for (ptrdiff_t j = K->ptr[i], c = 0; j < K->ptr[i + 1]; ++j, ++c) K->col[j] = rows[i][c];
    generic_values(*K);
    print_crs("K", *K);
    omp_set_dynamic(0); omp_set_num_threads(1);
    CPR::params prm; prm.block_size = B; prm.active_rows = N;
    CPR P(K, prm);
    backend::numa_vector<double> f(n), x1(n), x2(n), x3(n);
    for (size_t i = 0; i < n; ++i) f[i] = 1.0 + 0.37 * i;
    P.apply(f, x1);
    const Crs Fpp0(*P.Fpp);
    const void *P0 = P.P.get(), *Sc0 = P.Scatter.get(), *S0 = P.S.get(), *F0 = P.Fpp.get();
    P.partial_update(*K, true);
    if (P.P.get() != P0 || P.Scatter.get() != Sc0) FAIL("partial_update replaced the pressure preconditioner or Scatter");
    if (P.S.get() == S0) FAIL("partial_update did not rebuild the global preconditioner S");
    if (P.Fpp.get() == F0) FAIL("partial_update(update_transfer_ops = true) did not rebuild Fpp");
    if (P.Fpp->nrows != Fpp0.nrows || P.Fpp->ncols != Fpp0.ncols || P.Fpp->ptr[P.Fpp->nrows] != Fpp0.ptr[Fpp0.nrows]) FAIL("Fpp changed shape after a partial update with the unchanged matrix");
    for (ptrdiff_t j = 0; j < Fpp0.ptr[Fpp0.nrows]; ++j)
        if (P.Fpp->col[j] != Fpp0.col[j] || P.Fpp->val[j] != Fpp0.val[j]) FAIL("Fpp entry " << j << " changed after a partial update with the unchanged matrix: " << Fpp0.val[j] << " -> " << P.Fpp->val[j]);
    P.apply(f, x2);
    for (size_t i = 0; i < n; ++i) if (x1[i] != x2[i]) FAIL("apply() changed after a partial update with the unchanged matrix: x[" << i << "] " << x1[i] << " -> " << x2[i]);
    const void *F1 = P.Fpp.get();
    P.partial_update(*K, false);
    if (P.Fpp.get() != F1) FAIL("partial_update(update_transfer_ops = false) replaced Fpp");
    P.apply(f, x3);
    for (size_t i = 0; i < n; ++i) if (x1[i] != x3[i]) FAIL("apply() changed after partial_update(K, false) with the unchanged matrix");
    std::cout << "partial update with the unchanged matrix: Fpp, P, Scatter and apply() unchanged" << std::endl;
    return 0;
}


// ------------------------------------------------------------------------------------------------
// cpr on a block-valued backend: init(K, bprm, false_type) and update_transfer(K, bprm, false_type).
// The witness gives the block pattern (n block rows); every stored block gets generic NON-symmetric values
// (diagonal blocks dominant).  Oracle: row i of Fpp = first row of inv(D_i), dense Gauss with partial pivoting.
template <int B>
static int cpr_block_run(const Crs &Kp, size_t ar) {
    typedef static_matrix<double, B, B> val_type;
    typedef backend::builtin<val_type, ptrdiff_t, ptrdiff_t> SBackend;
    typedef preconditioner::dummy<SBackend> SDummy;
    typedef preconditioner::cpr<Dummy, SDummy> BCPR;
    const size_t n = Kp.nrows, N = ar ? ar : n;
    std::vector<ptrdiff_t> ptr(Kp.ptr, Kp.ptr + n + 1), col(Kp.col, Kp.col + Kp.ptr[n]);
    std::vector<val_type> val(Kp.ptr[n]);
    for (size_t i = 0; i < n; ++i) for (ptrdiff_t j = ptr[i]; j < ptr[i + 1]; ++j)
        for (int r = 0; r < B; ++r) for (int c = 0; c < B; ++c)
            val[j](r, c) = ((size_t)col[j] == i && r == c ? 4.0 + 0.5 * r + 0.25 * i : 0.0) + 0.125 * (r + 1) - 0.3 * c + 0.0625 * (j % 5) * (r - 2 * c);
    auto K = std::make_shared<backend::crs<val_type, ptrdiff_t, ptrdiff_t> >(std::make_tuple(n, ptr, col, val));
    typename BCPR::params prm; prm.active_rows = ar;
    BCPR P(K, prm);
    for (int stage = 0; stage < 2; ++stage) {
        if (stage == 1) P.partial_update(*K, true);
        const char *what = stage ? "after partial_update(K)" : "after construction";
        const Crs &F = *P.Fpp;
        if (F.nrows != N || F.ncols != N * B) FAIL("block CPR " << what << ": Fpp is " << F.nrows << "x" << F.ncols << ", expected " << N << "x" << N * B);
        for (size_t i = 0; i < N; ++i) {
            ptrdiff_t jd = -1;
            for (ptrdiff_t j = ptr[i]; j < ptr[i + 1]; ++j) if ((size_t)col[j] == i) { jd = j; break; }
            if (jd < 0) { std::cout << "  cell " << i << ": no stored diagonal block, not compared" << std::endl; continue; }
            // first row of inv(D): solve D^T w = e0
            double T[B * B], b[B], w[B];
            for (int r = 0; r < B; ++r) { b[r] = (r == 0); for (int c = 0; c < B; ++c) T[r * B + c] = val[jd](c, r); }
            for (int k = 0; k < B; ++k) {
                int p = k; for (int r = k + 1; r < B; ++r) if (std::fabs(T[r * B + k]) > std::fabs(T[p * B + k])) p = r;
                if (p != k) { for (int c = 0; c < B; ++c) std::swap(T[k * B + c], T[p * B + c]); std::swap(b[k], b[p]); }
                for (int r = k + 1; r < B; ++r) { double l = T[r * B + k] / T[k * B + k]; for (int c = k; c < B; ++c) T[r * B + c] -= l * T[k * B + c]; b[r] -= l * b[k]; }
            }
            for (int r = B; r-- > 0;) { double sum = b[r]; for (int c = r + 1; c < B; ++c) sum -= T[r * B + c] * w[c]; w[r] = sum / T[r * B + r]; }
            for (int k = 0; k < B; ++k) {
                if (F.col[i * B + k] != (ptrdiff_t)(i * B + k)) FAIL("block CPR " << what << ": Fpp row " << i << " column " << F.col[i * B + k]);
                if (!close_to(F.val[i * B + k], w[k])) FAIL("block CPR " << what << " (block size " << B << "): Fpp(" << i << "," << i * B + k << ") = " << F.val[i * B + k]
                    << " but the first ROW of the inverse of the diagonal block of cell " << i << " has " << w[k]);
            }
        }
    }
    std::cout << "block CPR (block size " << B << "): Fpp == first rows of the inverse diagonal blocks after construction and after partial_update" << std::endl;
    return 0;
}
static int r_cpr_block(const Witness &w) {
    if (!w.has("w_K_nrows")) { std::cout << "no witness input" << std::endl; return 3; }
    auto K = crs_from(w, "K");
    const int B = (int)w.num("w_bs", 2);
    const size_t ar = (size_t)w.num("w_active_rows", 0);
    std::string why;
    if (K->nrows != K->ncols || (ar ? ar : K->nrows) > K->nrows || !wf(*K, why)) { std::cout << "witness outside the precondition" << std::endl; return 3; }
    print_crs("K (block pattern of the witness)", *K);
    omp_set_dynamic(0); omp_set_num_threads(1);
    if (B == 3) return cpr_block_run<3>(*K, ar);
    return cpr_block_run<2>(*K, ar);
}

// ------------------------------------------------------------------------------------------------
// deflated_solver: project / apply / operator().  The unit is a call-sequence contract (no numeric witness); the replay
// evaluates the statement of the property itself on the real class for the witness' number of deflation vectors:
// after the projection the residual is orthogonal to every deflation vector, the correction is Z^T (Z A Z^T)^-1 Z r0
// (dense oracle), a second projection changes nothing, and operator() returns the solution of the original system.
// A is NON-symmetric so that a transposed E is visible.
static int r_deflated(const Witness &w) {
    typedef amgcl::deflated_solver<Dummy, solver::bicgstab<Backend> > Solver;
    const int nvec = std::max(1, (int)w.num("w_nvec", 2)), mode = (int)w.num("w_mode", 0);
    const size_t n = 8;
    std::vector<double> Ad(n * n, 0.0);
    auto A = std::make_shared<Crs>(); A->set_size(n, n, true);
    for (size_t i = 0; i < n; ++i) A->ptr[i + 1] = A->ptr[i] + (i > 0) + 1 + (i + 1 < n) + (i + 3 < n);
    A->set_nonzeros(A->ptr[n]);
    for (size_t i = 0; i < n; ++i) {
        ptrdiff_t h = A->ptr[i];
        if (i > 0)     { A->col[h] = i - 1; A->val[h] = -1.0 - 0.1 * i; ++h; }
        A->col[h] = i; A->val[h] = 5.0 + 0.3 * i; ++h;
        if (i + 1 < n) { A->col[h] = i + 1; A->val[h] = -0.4 + 0.05 * i; ++h; }
        if (i + 3 < n) { A->col[h] = i + 3; A->val[h] = 0.7; ++h; }
    }
    Ad = dense(*A);
    std::vector<double> Z(nvec * n);
    for (int k = 0; k < nvec; ++k) for (size_t i = 0; i < n; ++i) Z[k * n + i] = (k == 0 ? 1.0 : std::cos(0.7 * k * (i + 1))) + 0.01 * i * k;
    Solver::params prm; prm.nvec = nvec; prm.vec = Z.data(); prm.solver.tol = 1e-12; prm.solver.maxiter = 200;
    Solver S(A, prm);
    std::cout << "deflated_solver: n=" << n << " nvec=" << nvec << " mode=" << mode << std::endl;
    backend::numa_vector<double> b(n), x(n), x0(n);
    for (size_t i = 0; i < n; ++i) { b[i] = 1.0 + 0.5 * std::sin(1.0 + i); x0[i] = (mode == 1 ? 0.0 : 0.3 * std::cos(2.0 * i)); x[i] = x0[i]; }
    struct H {
        static std::vector<double> resid(const std::vector<double> &Ad, size_t n, const backend::numa_vector<double> &b, const backend::numa_vector<double> &x) {
            std::vector<double> r(n); for (size_t i = 0; i < n; ++i) { double s = b[i]; for (size_t j = 0; j < n; ++j) s -= Ad[i * n + j] * x[j]; r[i] = s; } return r; }
    };
    if (mode >= 2) {
        size_t it; double res;
        if (mode == 2) std::tie(it, res) = S(b, x); else std::tie(it, res) = S(*A, b, x);
        std::vector<double> r = H::resid(Ad, n, b, x);
        double rn = 0, bn = 0; for (size_t i = 0; i < n; ++i) { rn += r[i] * r[i]; bn += b[i] * b[i]; }
        std::cout << "operator(): iterations=" << it << " reported residual=" << res << " true relative residual=" << std::sqrt(rn / bn) << std::endl;
        if (!(std::sqrt(rn / bn) < 1e-8)) FAIL("operator() did not return the solution of the original system: true relative residual " << std::sqrt(rn / bn));
        for (size_t i = 0; i < n; ++i) x[i] = x0[i];      // and the projection on its own, below
    }
    // dense oracle for the projected vector: x0' + Z^T d, (Z A Z^T) d = Z (b - A x0'), x0' = x0 (project / operator()) or P b = b (apply, dummy P)
    backend::numa_vector<double> xs(n); for (size_t i = 0; i < n; ++i) xs[i] = (mode == 1 ? b[i] : x0[i]);
    std::vector<double> r0 = H::resid(Ad, n, b, xs), M(nvec * nvec), f(nvec), d(nvec);
    for (int p = 0; p < nvec; ++p) { f[p] = 0; for (size_t i = 0; i < n; ++i) f[p] += Z[p * n + i] * r0[i];
        for (int q = 0; q < nvec; ++q) { double s = 0; for (size_t i = 0; i < n; ++i) for (size_t j = 0; j < n; ++j) s += Z[p * n + i] * Ad[i * n + j] * Z[q * n + j]; M[p * nvec + q] = s; } }
    { std::vector<double> T = M, g = f;         // Gaussian elimination with partial pivoting
      for (int k = 0; k < nvec; ++k) { int pv = k; for (int i = k + 1; i < nvec; ++i) if (std::fabs(T[i * nvec + k]) > std::fabs(T[pv * nvec + k])) pv = i;
        if (pv != k) { for (int j = 0; j < nvec; ++j) std::swap(T[k * nvec + j], T[pv * nvec + j]); std::swap(g[k], g[pv]); }
        for (int i = k + 1; i < nvec; ++i) { double l = T[i * nvec + k] / T[k * nvec + k]; for (int j = k; j < nvec; ++j) T[i * nvec + j] -= l * T[k * nvec + j]; g[i] -= l * g[k]; } }
      for (int i = nvec; i-- > 0;) { double s = g[i]; for (int j = i + 1; j < nvec; ++j) s -= T[i * nvec + j] * d[j]; d[i] = s / T[i * nvec + i]; } }
    if (mode == 1) S.apply(b, x); else S.project(b, x);
    for (int pass = 0; pass < 2; ++pass) {
        std::vector<double> r = H::resid(Ad, n, b, x);
        for (int p = 0; p < nvec; ++p) { double s = 0, sc = 0; for (size_t i = 0; i < n; ++i) { s += Z[p * n + i] * r[i]; sc += std::fabs(Z[p * n + i] * r[i]); }
            if (!(std::fabs(s) <= 1e-9 * (1 + sc))) FAIL((pass ? "second projection: " : "") << "the residual after the projection is not orthogonal to deflation vector " << p << ": <Z_p, b - A x> = " << s); }
        for (size_t i = 0; i < n; ++i) { double e = xs[i]; for (int p = 0; p < nvec; ++p) e += d[p] * Z[p * n + i];
            if (!(std::fabs(x[i] - e) <= 1e-9 * (1 + std::fabs(e)))) FAIL((pass ? "second projection: " : "") << "x[" << i << "] = " << x[i] << " but x0 + Z^T (Z A Z^T)^-1 Z (b - A x0) has " << e); }
        if (pass == 0) S.project(b, x);      // projecting a projected vector must change nothing (and exercises the reuse of the scratch vector d)
    }
    std::cout << "projection: residual orthogonal to all " << nvec << " deflation vectors, correction equals the dense formula" << std::endl;
    return 0;
}

// ------------------------------------------------------------------------------------------------
// schur_pressure_correction::init: sub-blocks and gather / scatter matrices
static int r_schur(const Witness &w, bool blocks) {
    if (!(w.has("w_K_nrows") || w.has("w_n")) || !w.has("w_pmask")) { std::cout << "no witness input" << std::endl; return 3; }
    std::shared_ptr<Crs> K;
    if (w.has("w_K_nrows")) K = crs_from(w, "K");
    else {      // the gather / scatter region does not read K: any matrix of the witness size will do (identity pattern)
        const size_t m = (size_t)w.num("w_n");
        K = std::make_shared<Crs>(); K->set_size(m, m, true);
        for (size_t i = 0; i <= m; ++i) K->ptr[i] = (ptrdiff_t)i;
        K->set_nonzeros(m);
        for (size_t i = 0; i < m; ++i) { K->col[i] = (ptrdiff_t)i; K->val[i] = 1; }
    }
    const size_t n = K->nrows;
    std::vector<double> pm = w.arr("w_pmask");
    std::string why;
    if (K->nrows != K->ncols || pm.size() < n || !wf(*K, why)) { std::cout << "witness outside the precondition" << std::endl; return 3; }
    generic_values(*K);
    // duplicates are summed by the dense view: give the copies of one (i,j) distinct values so that a lost copy shows
    print_crs("K (witness pattern, generic values)", *K);
    Schur::params prm;
    prm.pmask.resize(n);
    std::cout << "pmask:";
    for (size_t i = 0; i < n; ++i) { prm.pmask[i] = pm[i] != 0 ? (char)pm[i] : 0; std::cout << " " << (int)prm.pmask[i]; }
    std::cout << std::endl;
    prm.adjust_p = 0; prm.approx_schur = false; prm.simplec_dia = true; prm.verbose = 0;
    Schur S(K, prm);
    std::vector<ptrdiff_t> idx(n); size_t nu = 0, np = 0;
    for (size_t i = 0; i < n; ++i) idx[i] = prm.pmask[i] ? np++ : nu++;
    if (S.nu != nu || S.np != np) FAIL("nu = " << S.nu << ", np = " << S.np << " expected " << nu << ", " << np);
    if (blocks) {
        const Crs *blk[2][2] = { { &S.U->system_matrix(), S.Kup.get() }, { S.Kpu.get(), &S.P->system_matrix() } };
        const char *nm[2][2] = { { "Kuu", "Kup" }, { "Kpu", "Kpp" } };
        const size_t dim[2] = { nu, np };
        std::vector<double> Kd = dense(*K); std::vector<int> Kc(n * n, 0);
        for (size_t i = 0; i < n; ++i) for (ptrdiff_t j = K->ptr[i]; j < K->ptr[i + 1]; ++j) Kc[i * n + K->col[j]]++;
        size_t tot = 0;
        for (int a = 0; a < 2; ++a) for (int b = 0; b < 2; ++b) {
            const Crs &M = *blk[a][b];
            print_crs(nm[a][b], M);
            if (M.nrows != dim[a] || M.ncols != dim[b]) FAIL(nm[a][b] << " is " << M.nrows << "x" << M.ncols << ", expected " << dim[a] << "x" << dim[b]);
            if (!wf(M, why)) FAIL(nm[a][b] << " not well-formed: " << why);
            tot += M.nrows ? (size_t)M.ptr[M.nrows] : 0;
        }
        for (size_t i = 0; i < n; ++i) for (size_t j = 0; j < n; ++j) {
            const int a = prm.pmask[i] ? 1 : 0, b = prm.pmask[j] ? 1 : 0;
            const Crs &M = *blk[a][b];
            double s = 0; int c = 0;
            for (ptrdiff_t q = M.ptr[idx[i]]; q < M.ptr[idx[i] + 1]; ++q) if (M.col[q] == idx[j]) { s += M.val[q]; ++c; }
            if (c != Kc[i * n + j] || s != Kd[i * n + j])
                FAIL("K(" << i << "," << j << ") = " << Kd[i * n + j] << " (stored " << Kc[i * n + j] << "x) but " << nm[a][b] << "(" << idx[i] << "," << idx[j] << ") = " << s << " (stored " << c << "x)");
        }
        if (tot != (size_t)K->ptr[n]) FAIL("the four blocks hold " << tot << " entries, K has " << K->ptr[n]);
        return 0;
    }
    const Crs *gs[4] = { S.x2u.get(), S.x2p.get(), S.u2x.get(), S.p2x.get() };
    const char *gn[4] = { "x2u", "x2p", "u2x", "p2x" };
    for (int g = 0; g < 4; ++g) {
        const Crs &M = *gs[g];
        const bool pressure = (g == 1 || g == 3), gather = g < 2;
        const size_t m = pressure ? np : nu;
        print_crs(gn[g], M);
        if (M.nrows != (gather ? m : n) || M.ncols != (gather ? n : m)) FAIL(gn[g] << " has the wrong shape " << M.nrows << "x" << M.ncols);
        if (!wf(M, why)) FAIL(gn[g] << " not well-formed: " << why);
        std::vector<double> d = dense(M); std::vector<int> c(M.nrows * M.ncols, 0);
        for (size_t i = 0; i < M.nrows; ++i) for (ptrdiff_t j = M.ptr[i]; j < M.ptr[i + 1]; ++j) c[i * M.ncols + M.col[j]]++;
        for (size_t r = 0; r < M.nrows; ++r) for (size_t q = 0; q < M.ncols; ++q) {
            const size_t x = gather ? q : r, y = gather ? r : q;      // x: full index, y: sub index
            const int e = ((prm.pmask[x] != 0) == pressure && (size_t)idx[x] == y) ? 1 : 0;
            if (c[r * M.ncols + q] != e || d[r * M.ncols + q] != (double)e)
                FAIL(gn[g] << "(" << r << "," << q << ") = " << d[r * M.ncols + q] << " (stored " << c[r * M.ncols + q] << "x), the 0/1 matrix of the mask has " << e);
        }
    }
    return 0;
}

int main(int argc, char **argv) {
    if (argc < 3) return 2;
    std::signal(SIGSEGV, on_crash); std::signal(SIGABRT, on_crash);
    std::string unit = argv[1];
    Witness w;
    if (!w.load(std::string(argv[2]) + ".in")) { std::cout << "no witness input" << std::endl; return 3; }
    try {
        if (unit == "cpr_first_scalar_pass") return r_cpr(w);
        if (unit == "cpr_partial_update") return r_cpr_partial(w);
        if (unit == "cpr_update_transfer_block" || unit == "cpr_init_block") return r_cpr_block(w);
        if (unit == "deflated_project") return r_deflated(w);
        if (unit == "schur_init_blocks" || unit == "schur_init_counts" || unit == "schur_init_fill_row") return r_schur(w, true);
        if (unit == "schur_init_scatter") return r_schur(w, false);
    } catch (const std::exception &e) {
        std::cout << "REPRODUCED on the real code: exception: " << e.what() << std::endl;
        return 1;
    }
    std::cout << "no replay for unit " << unit << std::endl;
    return 3;
}
