// Native replay for the C07 vector / matrix-vector units: the verifier's counterexample for an inductive unit
// is an invariant-step state, not an input, so this driver runs the REAL amgcl primitive on a fixed battery of
// concrete inputs (sizes 0..5 and 1000; coefficients 0, 1, -2.5; NaN/Inf in overwritten outputs; complex values;
// 1 and 4 threads) and compares with the defining formula evaluated independently.
#include <complex>
#include <limits>
#include <iostream>
#include <vector>
#include <string>
#include <cmath>
#include <omp.h>
#include <amgcl/backend/builtin.hpp>
#include <amgcl/value_type/complex.hpp>
#include <amgcl/adapter/crs_tuple.hpp>

using namespace amgcl;
typedef std::complex<double> cplx;

template <class T> static T mk(int i, int salt) { return T(0.37 * (i + 1) + 0.11 * salt); }
template <> cplx mk<cplx>(int i, int salt) { return cplx(0.37 * (i + 1) + 0.11 * salt, 0.21 * (i + 2) - 0.05 * salt); }

template <class T> static bool same(T a, T b) {
    return std::abs(a - b) <= 1e-12 * (1 + std::abs(b));
}
#define FAIL(msg) do { std::cout << "REPRODUCED on the real code: " << msg << std::endl; return 1; } while (0)

template <class T>
static int vec_ops(const std::string &unit) {
    const double nan = std::numeric_limits<double>::quiet_NaN();
    const double inf = std::numeric_limits<double>::infinity();
    int sizes[] = {0, 1, 2, 5, 1000};
    double coefs[] = {0.0, 1.0, -2.5};
    for (int nt = 1; nt <= 4; nt += 3) {
        omp_set_num_threads(nt);
        for (int n : sizes) for (double a : coefs) for (double b : coefs) for (double c : coefs) {
            backend::numa_vector<T> x(n), y(n), z(n), y0(n), z0(n);
            for (int i = 0; i < n; ++i) { x[i] = mk<T>(i, 1); y[i] = y0[i] = mk<T>(i, 2); z[i] = z0[i] = mk<T>(i, 3); }
            if (unit == "builtin_axpby") {
                if (b == 0) for (int i = 0; i < n; ++i) y[i] = T((i % 2) ? nan : inf);
                backend::axpby(a, x, b, y);
                for (int i = 0; i < n; ++i) { T e = (b == 0) ? T(a * x[i]) : T(a * x[i] + b * y0[i]);
                    if (!same(y[i], e)) FAIL("axpby(a=" << a << ", b=" << b << ") n=" << n << " i=" << i << " got " << y[i] << " expected " << e); }
            } else if (unit == "builtin_axpbypcz") {
                if (c == 0) for (int i = 0; i < n; ++i) z[i] = T(nan);
                backend::axpbypcz(a, x, b, y, c, z);
                for (int i = 0; i < n; ++i) { T e = (c == 0) ? T(a * x[i] + b * y[i]) : T(a * x[i] + b * y[i] + c * z0[i]);
                    if (!same(z[i], e)) FAIL("axpbypcz(a=" << a << ", b=" << b << ", c=" << c << ") n=" << n << " i=" << i << " got " << z[i] << " expected " << e); }
            } else if (unit == "builtin_vmul") {
                if (b == 0) for (int i = 0; i < n; ++i) z[i] = T(nan);
                backend::vmul(a, x, y, b, z);
                for (int i = 0; i < n; ++i) { T e = (b == 0) ? T(a * x[i] * y[i]) : T(a * x[i] * y[i] + b * z0[i]);
                    if (!same(z[i], e)) FAIL("vmul(a=" << a << ", b=" << b << ") n=" << n << " i=" << i << " got " << z[i] << " expected " << e); }
            } else if (unit == "builtin_copy") {
                backend::copy(x, y);
                for (int i = 0; i < n; ++i) if (!(y[i] == x[i])) FAIL("copy n=" << n << " i=" << i);
            } else if (unit == "builtin_clear") {
                for (int i = 0; i < n; ++i) y[i] = T(nan);
                backend::clear(y);
                for (int i = 0; i < n; ++i) if (!(y[i] == T(0))) FAIL("clear n=" << n << " i=" << i);
            }
        }
    }
    return 0;
}

static int inner(const std::string &) {
    int sizes[] = {0, 1, 5, 1000};
    for (int nt = 1; nt <= 4; nt += 3) {
        omp_set_num_threads(nt);
        for (int n : sizes) {
            std::vector<cplx> x(n), y(n);
            cplx e = 0;
            for (int i = 0; i < n; ++i) { x[i] = mk<cplx>(i, 1); y[i] = mk<cplx>(i, 7); e += x[i] * std::conj(y[i]); }
            cplx r = backend::inner_product(x, y);
            if (!same(r, e)) FAIL("inner_product (complex, " << nt << " threads) n=" << n << " got " << r << " expected sum x_i conj(y_i) = " << e);
            std::vector<double> u(n), v(n); double ed = 0;
            for (int i = 0; i < n; ++i) { u[i] = mk<double>(i, 1); v[i] = mk<double>(i, 4); ed += u[i] * v[i]; }
            double rd = backend::inner_product(u, v);
            if (!same(rd, ed)) FAIL("inner_product (double, " << nt << " threads) n=" << n << " got " << rd << " expected " << ed);
        }
    }
    return 0;
}

template <class T>
static int matvec(const std::string &unit) {
    // small rectangular / empty-row matrices
    const double nan = std::numeric_limits<double>::quiet_NaN();
    for (int nt = 1; nt <= 4; nt += 3) {
        omp_set_num_threads(nt);
        for (int n = 0; n <= 4; ++n) for (int m = 1; m <= 4; ++m) {
            std::vector<ptrdiff_t> ptr(n + 1, 0), col; std::vector<T> val;
            for (int i = 0; i < n; ++i) { for (int j = 0; j < m; ++j) if ((i * 7 + j * 3) % 3 != 0) { col.push_back(j); val.push_back(mk<T>(i * m + j, 5)); } ptr[i + 1] = col.size(); }
            backend::crs<T> A(std::make_tuple(n, ptr, col, val)); A.ncols = m;
            double coefs[] = {0.0, 1.0, -2.5};
            for (double a : coefs) for (double b : coefs) {
                backend::numa_vector<T> x(m), y(n), y0(n), f(n);
                for (int j = 0; j < m; ++j) x[j] = mk<T>(j, 1);
                for (int i = 0; i < n; ++i) { y[i] = y0[i] = mk<T>(i, 2); f[i] = mk<T>(i, 3); }
                if (unit == "builtin_spmv") {
                    if (b == 0) for (int i = 0; i < n; ++i) y[i] = T(nan);
                    backend::spmv(a, A, x, b, y);
                    for (int i = 0; i < n; ++i) { T s = 0; for (ptrdiff_t k = ptr[i]; k < ptr[i + 1]; ++k) s += val[k] * x[col[k]];
                        T e = (b == 0) ? T(a * s) : T(a * s + b * y0[i]);
                        if (!same(y[i], e)) FAIL("spmv(alpha=" << a << ", beta=" << b << ") " << n << "x" << m << " row " << i << " got " << y[i] << " expected " << e); }
                } else {
                    backend::residual(f, A, x, y);
                    for (int i = 0; i < n; ++i) { T s = 0; for (ptrdiff_t k = ptr[i]; k < ptr[i + 1]; ++k) s += val[k] * x[col[k]];
                        if (!same(y[i], T(f[i] - s))) FAIL("residual " << n << "x" << m << " row " << i << " got " << y[i] << " expected " << T(f[i] - s)); }
                }
            }
        }
    }
    return 0;
}


// mixed precision: single-precision matrix, double-precision vectors (a float preconditioner under a double solver).
// The defining formula is evaluated in the value type of the vectors: the row sum must not be rounded to float.
static int matvec_mixed(const std::string &unit) {
    std::vector<ptrdiff_t> ptr = {0, 2}, col = {0, 1}; std::vector<float> val = {1.0f, 1.0f};
    backend::crs<float> A(std::make_tuple(1, ptr, col, val)); A.ncols = 2;
    const double tiny = 1.0 / (1 << 30);                 // 1 + 2^-30 is exact in double, rounds to 1 in float
    backend::numa_vector<double> x(2), y(1), f(1);
    x[0] = 1.0; x[1] = tiny; f[0] = 1.0; y[0] = 0.0;
    if (unit == "builtin_spmv") {
        backend::spmv(1.0, A, x, 0.0, y);
        if (y[0] != 1.0 + tiny) FAIL("spmv, float matrix [1 1], double x = (1, 2^-30): got " << y[0] - 1.0 << " + 1, expected 2^-30 + 1 (row sum rounded to the matrix precision)");
    } else {
        backend::residual(f, A, x, y);
        if (y[0] != -tiny) FAIL("residual, float matrix [1 1], double x = (1, 2^-30), f = 1: got " << y[0] << " expected " << -tiny << " (row sum rounded to the matrix precision)");
    }
    return 0;
}

int main(int argc, char **argv) {
    if (argc < 2) return 2;
    std::string unit = argv[1];
    int rc = 0;
    if (unit.find("inner_product") != std::string::npos) rc = inner(unit);
    else if (unit == "builtin_spmv" || unit == "builtin_residual") { rc = matvec<double>(unit); if (!rc) rc = matvec<cplx>(unit); if (!rc) rc = matvec_mixed(unit); }
    else { rc = vec_ops<double>(unit); if (!rc) rc = vec_ops<cplx>(unit); }
    if (!rc) std::cout << "battery passed on the real code (no failing input found)" << std::endl;
    return rc;
}
