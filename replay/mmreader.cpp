// replay of witnesses of the MatrixMarket reader units (units/c19_mm.py) against the real
// amgcl::io::mm_reader: the witness entry stream is written as a real MatrixMarket coordinate file
// (general or symmetric banner; unparsable tokens, missing lines and a damaged size line as the
// witness says), the REAL reader is run for the full read and for the requested row range
// (compiled with AddressSanitizer/UBSan by the framework: a sanitizer report counts as reproduced)
// and the property is evaluated with an independent oracle built from the entry list.
// Units mm_dense_*: the witness stream is written as a MatrixMarket ARRAY file (size line "n m", one value per data line,
// column major) and the real dense overload mm_reader::operator()(val, row_beg, row_end) is run the same way.
// The framework compiles replay drivers with -D_GLIBCXX_ASSERTIONS.  mm.hpp forms `&col[0] + beg` / `&val[0] + beg` for
// every row also when the result has no entries (empty vectors): with checked subscripts that ABORTS on every empty
// matrix / empty row range (recorded as an observation in the unit's report); as in replay/ioadapt.cpp forming that
// address is not counted as a failure of the property -- every real access is still caught by AddressSanitizer.
#undef _GLIBCXX_ASSERTIONS
#include "witness.hpp"
#include <amgcl/io/mm.hpp>
#include <amgcl/value_type/complex.hpp>
#include <complex>
#include <algorithm>
#include <cstring>
#include <unistd.h>

// see ioadapt_ubsan.supp
extern "C" const char *__ubsan_default_options() { return "suppressions=/verif/replay/ioadapt_ubsan.supp"; }

struct Entry { long i, j; unsigned v; int ntok; };

struct Stream {
    bool sparse, sym, cplx, integer, valc, vali, hdr_ok;
    long n, m; size_t nnz, nlines;
    std::vector<Entry> e;
    ptrdiff_t row_beg, row_end;
    std::string path;
};

static ptrdiff_t arg64(const Witness &w, const std::string &name) {
    if (!w.has(name + "_lo")) return -1;
    unsigned long long lo = (unsigned long long)w.num(name + "_lo"), hi = (unsigned long long)(long long)w.num(name + "_hi");
    return (ptrdiff_t)((hi << 32) | (lo & 0xffffffffULL));
}

template <class Val> struct Tok;
template <> struct Tok<double> { static double make(unsigned t) { return (double)t; } };
template <> struct Tok<int> { static int make(unsigned t) { return (int)t; } };
template <> struct Tok<std::complex<double> > { static std::complex<double> make(unsigned t) { return std::complex<double>((double)t, -(double)t - 0.5); } };

static void write_file(const Stream &S) {
    std::ofstream f(S.path.c_str());
    f << "%%MatrixMarket matrix " << (S.sparse ? "coordinate " : "array ")
      << (S.cplx ? "complex " : (S.integer ? "integer " : "real ")) << (S.sym ? "symmetric" : "general") << "\n";
    f << "% written by replay/mmreader.cpp from a verifier witness\n";
    f << S.n << " " << S.m;
    if (S.hdr_ok) f << " " << S.nnz;
    f << "\n";
    for (size_t k = 0; k < S.nlines && k < S.e.size(); ++k) {
        const Entry &e = S.e[k];
        if (e.ntok >= 1) f << e.i; else f << "x";
        f << " ";
        if (e.ntok >= 2) f << e.j; else f << "y";
        if (e.ntok >= 3) {
            if (S.cplx) f << " " << e.v << " " << "-" << e.v << ".5";
            else f << " " << e.v;
        }
        f << "\n";
    }
}

template <class Idx, class Val>
struct Read {
    bool thrown; std::string what; size_t rows, cols;
    std::vector<Idx> ptr, col; std::vector<Val> val;
    void run(const Stream &S, ptrdiff_t rb, ptrdiff_t re) {
        thrown = false; rows = cols = 0;
        // the caller's vectors: not empty, stale content; ONE element each, so that resize() allocates exactly the requested
        // number of elements and AddressSanitizer sees an access one past the end (a larger stale capacity would hide it)
        ptr = std::vector<Idx>(1, 77); col = std::vector<Idx>(1, 55); val = std::vector<Val>(1, Tok<Val>::make(9));
        try {
            amgcl::io::mm_reader r(S.path);
            std::tie(rows, cols) = r(ptr, col, val, rb, re);
        } catch (const std::exception &e) { thrown = true; what = e.what(); }
        if (thrown) std::cout << "  rows [" << rb << "," << re << "): threw: " << what << std::endl;
        else {
            std::cout << "  rows [" << rb << "," << re << "): returned " << rows << "x" << cols << " ptr=[";
            for (size_t i = 0; i < ptr.size() && i < 40; ++i) std::cout << (i ? "," : "") << (long)ptr[i];
            std::cout << "] col=[";
            for (size_t i = 0; i < col.size() && i < 40; ++i) std::cout << (i ? "," : "") << (long)col[i];
            std::cout << "] val=[";
            for (size_t i = 0; i < val.size() && i < 40; ++i) std::cout << (i ? "," : "") << val[i];
            std::cout << "]" << std::endl;
        }
    }
    bool shape(size_t want_rows) const {
        if (ptr.size() != want_rows + 1 || ptr[0] != 0) return false;
        for (size_t i = 0; i + 1 < ptr.size(); ++i) if (ptr[i] > ptr[i + 1]) return false;
        return ptr.back() >= 0 && (size_t)ptr.back() == col.size() && col.size() == val.size();
    }
};

template <class Idx, class Val>
static int check(const Stream &S, bool strict) {
    write_file(S);
    struct Rm { std::string p; ~Rm() { std::remove(p.c_str()); } } rm = { S.path };
    Read<Idx, Val> R1, R2;
    R1.run(S, -1, -1);
    R2.run(S, S.row_beg, S.row_end);
    const bool t1 = R1.thrown, t2 = R2.thrown;
    const long N = S.n;
    const long rb = S.row_beg < 0 ? 0 : (long)S.row_beg, re = S.row_end < 0 ? N : (long)S.row_end;
    const bool kind_ok = S.sparse && S.cplx == S.valc && S.integer == S.vali;
    const bool head_ok = kind_ok && S.hdr_ok;
    bool lines_ok = S.nlines >= S.nnz, wf = true;
    for (size_t k = 0; k < S.nnz && k < S.nlines; ++k) {
        const Entry &e = S.e[k];
        if (e.ntok < 3) lines_ok = false;
        if (!(e.i >= 1 && e.i <= S.n && e.j >= 1 && e.j <= S.m)) wf = false;
        if (S.sym && !(e.j <= S.n && e.i <= S.m)) wf = false;
    }
    if (!S.sparse && !(t1 && t2)) FAIL("a file that is not a coordinate matrix did not make the reader throw");
    if (S.sparse && !kind_ok && !(t1 && t2)) FAIL("a wrong value kind did not make the reader throw");
    if (kind_ok && !S.hdr_ok && !(t1 && t2)) FAIL("a size line that does not parse did not make the reader throw");
    if (head_ok && re > N && !t2) FAIL("a row range beyond n did not make the reader throw");
    if (head_ok && S.nlines < S.nnz && !(t1 && (re > N || t2))) FAIL("a file truncated before its last data line did not make the reader throw");
    if (head_ok && !lines_ok && !(t1 && (re > N || t2))) FAIL("a data line that does not parse did not make the reader throw");
    (void)strict;
    if (head_ok && lines_ok && N < 0 && !t1) FAIL("a negative row count in the size line did not make the reader throw");
    if (head_ok && lines_ok && N >= 0 && !wf && !(t1 && (re > N || t2)))
        FAIL("a row or column index outside the matrix did not make the reader throw");
    if (head_ok && lines_ok && N >= 0 && wf) {
        if (t1) FAIL("well-formed file, but the full read threw: " << R1.what);
        if (re <= N && t2) FAIL("well-formed file and valid row range, but the range read threw: " << R2.what);
    }
    if (!t2 && head_ok && re <= N && N >= 0) {
        const size_t rows = (size_t)(re - rb);
        if (R2.rows != rows || R2.cols != (size_t)S.m) FAIL("range read returns the wrong shape " << R2.rows << "x" << R2.cols);
        if (!R2.shape(rows)) FAIL("structurally invalid matrix returned (ptr size / start / monotone / ptr.back() vs col.size(), val.size())");
        if (lines_ok) {
            for (size_t q = 0; q < rows; ++q) {
                std::vector<std::pair<long, Val> > want, got;
                const long r = rb + (long)q;
                for (size_t k = 0; k < S.nnz; ++k) {
                    const Entry &e = S.e[k];
                    if (e.i - 1 == r) want.push_back(std::make_pair(e.j - 1, Tok<Val>::make(e.v)));
                    if (S.sym && e.i != e.j && e.j - 1 == r) want.push_back(std::make_pair(e.i - 1, Tok<Val>::make(e.v)));
                }
                for (size_t a = (size_t)R2.ptr[q]; a < (size_t)R2.ptr[q + 1]; ++a) {
                    got.push_back(std::make_pair((long)R2.col[a], R2.val[a]));
                    if (a + 1 < (size_t)R2.ptr[q + 1] && R2.col[a] > R2.col[a + 1]) FAIL("row " << r << " is not sorted by column");
                    if (wf && !(R2.col[a] >= 0 && (long)R2.col[a] < S.m)) FAIL("column index " << (long)R2.col[a] << " outside [0, m) in row " << r);
                }
                if (want.size() != got.size())
                    FAIL("expansion: row " << r << " holds " << got.size() << " entries, the file denotes " << want.size()
                         << (S.sym ? " (symmetric storage: stored + mirrored off-diagonal entries)" : ""));
                struct Less { bool operator()(const std::pair<long, Val> &a, const std::pair<long, Val> &b) const {
                    if (a.first != b.first) return a.first < b.first;
                    if (std::real(a.second) != std::real(b.second)) return std::real(a.second) < std::real(b.second);
                    return std::imag(a.second) < std::imag(b.second); } };
                std::sort(want.begin(), want.end(), Less()); std::sort(got.begin(), got.end(), Less());
                if (want != got) FAIL("expansion: row " << r << " does not hold the (column, value) pairs the file denotes");
            }
        }
        if (!t1) {
            if (!R1.shape((size_t)N) || R1.rows != (size_t)N || R1.cols != R2.cols) FAIL("full read: structurally invalid matrix / wrong shape");
            if (R2.col.size() != (size_t)(R1.ptr[re] - R1.ptr[rb])) FAIL("range read != slice of the full read: number of entries");
            for (size_t q = 0; q <= rows; ++q) if (R2.ptr[q] != R1.ptr[rb + q] - R1.ptr[rb]) FAIL("range read != slice of the full read: ptr[" << q << "]");
            const size_t base = (size_t)R1.ptr[rb];
            for (size_t a = 0; a < R2.col.size(); ++a)
                if (R2.col[a] != R1.col[base + a] || R2.val[a] != R1.val[base + a]) FAIL("range read != slice of the full read: entry " << a);
        }
    }
    std::cout << "property holds on this input" << std::endl;
    return 0;
}

// ------------------------------------------------------------------------------------------- dense (array) reader
static void write_dense_file(const Stream &S) {
    std::ofstream f(S.path.c_str());
    f << "%%MatrixMarket matrix " << (S.sparse ? "coordinate " : "array ")
      << (S.cplx ? "complex " : (S.integer ? "integer " : "real ")) << (S.sym ? "symmetric" : "general") << "\n";
    f << "% written by replay/mmreader.cpp from a verifier witness\n";
    f << S.n;
    if (S.hdr_ok) f << " " << S.m;      // a size line that does not parse: the column count is missing
    f << "\n";
    for (size_t k = 0; k < S.nlines && k < S.e.size(); ++k) {
        const Entry &e = S.e[k];
        if (e.ntok >= 1) { if (S.cplx) f << e.v << " -" << e.v << ".5"; else f << e.v; }
        else f << "x";
        f << "\n";
    }
}

template <class Val>
struct DenseRead {
    bool thrown; std::string what; size_t rows, cols;
    std::vector<Val> val;
    void run(const Stream &S, ptrdiff_t rb, ptrdiff_t re) {
        thrown = false; rows = cols = 0;
        // the caller's vector: ONE stale element (resize() then allocates exactly the requested size: AddressSanitizer sees one past the end)
        val = std::vector<Val>(1, Tok<Val>::make(9));
        try {
            amgcl::io::mm_reader r(S.path);
            std::tie(rows, cols) = r(val, rb, re);
        } catch (const std::exception &e) { thrown = true; what = e.what(); }
        if (thrown) std::cout << "  rows [" << rb << "," << re << "): threw: " << what << std::endl;
        else {
            std::cout << "  rows [" << rb << "," << re << "): returned " << rows << "x" << cols << " val=[";
            for (size_t i = 0; i < val.size() && i < 40; ++i) std::cout << (i ? "," : "") << val[i];
            std::cout << "]" << std::endl;
        }
    }
};

template <class Val>
static int check_dense(const Stream &S) {
    write_dense_file(S);
    struct Rm { std::string p; ~Rm() { std::remove(p.c_str()); } } rm = { S.path };
    DenseRead<Val> R1, R2;
    R1.run(S, -1, -1);
    R2.run(S, S.row_beg, S.row_end);
    const bool t1 = R1.thrown, t2 = R2.thrown;
    const long N = S.n, M = S.m;
    const long rb = S.row_beg < 0 ? 0 : (long)S.row_beg, re = S.row_end < 0 ? N : (long)S.row_end;
    const bool kind_ok = !S.sparse && S.cplx == S.valc && S.integer == S.vali;
    const bool head_ok = kind_ok && S.hdr_ok;
    const bool sizes_ok = N >= 0 && M >= 0;
    const size_t need = sizes_ok ? (size_t)N * (size_t)M : 0;
    // the value token of entry (i, j): data line j*n + i (column major file)
    bool full_ok = true, range_ok = true;
    if (sizes_ok)
        for (long j = 0; j < M; ++j) for (long i = 0; i < N; ++i) {
            const size_t k = (size_t)j * (size_t)N + (size_t)i;
            if (k < S.nlines && k < S.e.size() && S.e[k].ntok < 1) { full_ok = false; if (i >= rb && i < re) range_ok = false; }
        }
    if (S.sparse && !(t1 && t2)) FAIL("a file that is not a dense (array) matrix did not make the reader throw");
    if (!S.sparse && !kind_ok && !(t1 && t2)) FAIL("a wrong value kind did not make the reader throw");
    if (kind_ok && !S.hdr_ok && !(t1 && t2)) FAIL("a size line that does not parse did not make the reader throw");
    if (head_ok && re > N && !t2) FAIL("a row range beyond n did not make the reader throw");
    if (head_ok && !sizes_ok && !(t1 && t2)) FAIL("a negative row or column count in the size line did not make the reader throw");
    if (head_ok && sizes_ok && S.nlines < need && !(t1 && t2)) FAIL("a file truncated before its last data line did not make the reader throw"
        << (t1 ? " (range read)" : " (full read)"));
    if (head_ok && sizes_ok && !full_ok && !t1) FAIL("a data line that does not parse did not make the full read throw");
    if (head_ok && sizes_ok && !range_ok && !t2) FAIL("a data line of a requested row that does not parse did not make the range read throw");
    if (head_ok && sizes_ok && S.nlines >= need) {
        if (full_ok && t1) FAIL("well-formed file, but the full read threw: " << R1.what);
        if (range_ok && re <= N && t2) FAIL("row range inside [0, n] and all its data lines parse, but the range read threw: " << R2.what);
    }
    if (head_ok && sizes_ok) {
        if (!t1) {
            if (R1.rows != (size_t)N || R1.cols != (size_t)M || R1.val.size() != need)
                FAIL("full read returns the wrong shape " << R1.rows << "x" << R1.cols << " with " << R1.val.size() << " values");
            for (long i = 0; i < N; ++i) for (long j = 0; j < M; ++j)
                if (R1.val[(size_t)(i * M + j)] != Tok<Val>::make(S.e[(size_t)(j * N + i)].v))
                    FAIL("full read: val[" << i << "*m+" << j << "] is not the value token of data line " << j * N + i);
        }
        if (!t2 && re <= N) {
            const size_t rows = (size_t)(re - rb);
            if (R2.rows != rows || R2.cols != (size_t)M) FAIL("range read returns the wrong shape " << R2.rows << "x" << R2.cols);
            if (R2.val.size() != rows * (size_t)M) FAIL("range read: structurally invalid result, val.size() = " << R2.val.size() << " != rows * m");
            for (long i = rb; i < re; ++i) for (long j = 0; j < M; ++j) {
                const Val got = R2.val[(size_t)((i - rb) * M + j)];
                if (!t1 && got != R1.val[(size_t)(i * M + j)])
                    FAIL("range read != slice of the full read: row " << i << " column " << j << ": " << got << " vs " << R1.val[(size_t)(i * M + j)]);
                if (got != Tok<Val>::make(S.e[(size_t)(j * N + i)].v))
                    FAIL("range read: entry (" << i << "," << j << ") is not the value token of data line " << j * N + i);
            }
        }
    }
    std::cout << "property holds on this input" << std::endl;
    return 0;
}

static int main_dense(const Witness &w, const std::string &unit) {
    if (!w.has("w_ev") || !w.has("w_n")) { std::cout << "no witness" << std::endl; return 3; }
    Stream S;
    S.sparse = w.num("w_sparse") != 0; S.sym = w.num("w_sym") != 0; S.cplx = w.num("w_complex") != 0; S.integer = w.num("w_integer") != 0;
    S.valc = w.num("w_valc") != 0; S.vali = w.num("w_vali") != 0; S.hdr_ok = w.num("w_hdr_ok") != 0;
    S.n = (long)w.num("w_n"); S.m = (long)w.num("w_m"); S.nnz = 0; S.nlines = (size_t)w.num("w_nlines");
    std::vector<double> ev = w.arr("w_ev"), et = w.arr("w_entok");
    if (S.n > 64 || S.m > 64 || S.nlines > 4096) { std::cout << "witness outside the unit's bound" << std::endl; return 3; }
    size_t cnt = S.nlines;
    if (S.n > 0 && S.m > 0) cnt = std::max(cnt, (size_t)(S.n * S.m));
    for (size_t k = 0; k < cnt; ++k) {
        Entry e; e.i = e.j = 0;
        e.v = k < ev.size() ? (unsigned)ev[k] : 0; e.ntok = k < et.size() ? (int)et[k] : 1;
        S.e.push_back(e);
    }
    S.row_beg = arg64(w, "w_row_beg"); S.row_end = arg64(w, "w_row_end");
    S.path = "/verif/build/replay/mmreader_" + unit + ".mm";
    std::cout << "array file: " << (S.sparse ? "coordinate " : "array ") << (S.cplx ? "complex " : (S.integer ? "integer " : "real "))
              << (S.sym ? "symmetric" : "general") << "; size line " << S.n << (S.hdr_ok ? " " + std::to_string(S.m) : std::string(" (m missing)"))
              << "; " << S.nlines << " data lines:";
    for (size_t k = 0; k < S.nlines && k < S.e.size(); ++k) std::cout << " " << (S.e[k].ntok >= 1 ? std::to_string(S.e[k].v) : std::string("x"));
    std::cout << "; Val is " << (S.valc ? "complex" : (S.vali ? "integer" : "real")) << "; row_beg=" << S.row_beg << " row_end=" << S.row_end << std::endl;
    if (S.valc && S.vali) { std::cout << "no such value type" << std::endl; return 3; }
    if (S.valc) return check_dense<std::complex<double> >(S);
    if (S.vali) return check_dense<int>(S);
    return check_dense<double>(S);
}

int main(int argc, char **argv) {
    if (argc < 3) return 2;
    std::string unit = argv[1];
    Witness w;
    if (!w.load(std::string(argv[2]) + ".in")) { std::cout << "no witness input" << std::endl; return 3; }
    if (unit == "mm_dense_read" || unit == "mm_dense_strict") return main_dense(w, unit);
    if (unit != "mm_sparse_read" && unit != "mm_sparse_strict") { std::cout << "no replay for unit " << unit << std::endl; return 3; }
    if (!w.has("w_ei") || !w.has("w_n")) { std::cout << "no witness" << std::endl; return 3; }
    Stream S;
    S.sparse = w.num("w_sparse") != 0; S.sym = w.num("w_sym") != 0; S.cplx = w.num("w_complex") != 0; S.integer = w.num("w_integer") != 0;
    S.valc = w.num("w_valc") != 0; S.vali = w.num("w_vali") != 0; S.hdr_ok = w.num("w_hdr_ok") != 0;
    S.n = (long)w.num("w_n"); S.m = (long)w.num("w_m"); S.nnz = (size_t)w.num("w_nnz"); S.nlines = (size_t)w.num("w_nlines");
    std::vector<double> ei = w.arr("w_ei"), ej = w.arr("w_ej"), ev = w.arr("w_ev"), et = w.arr("w_entok");
    size_t cnt = std::max(S.nnz, S.nlines);
    for (size_t k = 0; k < cnt; ++k) {
        Entry e;
        e.i = k < ei.size() ? (long)ei[k] : 1; e.j = k < ej.size() ? (long)ej[k] : 1;
        e.v = k < ev.size() ? (unsigned)ev[k] : 0; e.ntok = k < et.size() ? (int)et[k] : 3;
        S.e.push_back(e);
    }
    S.row_beg = arg64(w, "w_row_beg"); S.row_end = arg64(w, "w_row_end");
    S.path = "/verif/build/replay/mmreader_" + unit + ".mm";
    std::cout << "entry stream: " << (S.sparse ? "coordinate " : "array ") << (S.cplx ? "complex " : (S.integer ? "integer " : "real "))
              << (S.sym ? "symmetric" : "general") << "; size line " << S.n << " " << S.m << (S.hdr_ok ? " " + std::to_string(S.nnz) : std::string(" (nnz missing)"))
              << "; " << S.nlines << " data lines:";
    for (size_t k = 0; k < S.nlines && k < S.e.size(); ++k) std::cout << " (" << S.e[k].i << "," << S.e[k].j << "," << S.e[k].v << "; parses " << S.e[k].ntok << "/3)";
    std::cout << "; Val is " << (S.valc ? "complex" : (S.vali ? "integer" : "real")) << "; row_beg=" << S.row_beg << " row_end=" << S.row_end << std::endl;
    if (S.valc && S.vali) { std::cout << "no such value type" << std::endl; return 3; }
    const bool strict = unit == "mm_sparse_strict";
    if (S.valc) return check<int, std::complex<double> >(S, strict);
    if (S.vali) return check<int, int>(S, strict);
    return check<int, double>(S, strict);
}
