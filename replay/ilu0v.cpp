// Native replay for unit ilu0_values (property C06, ILU(0) part): (L U)_ij = a_ij on the pattern of A.
//
// The REAL relaxation::ilu0<builtin<double>> is built (serial triangular solve), the action of (LU)^-1 is
// probed with unit vectors through the smoother's apply(), the dense result is inverted, and L U is compared
// with A on the stored pattern of A (tolerance 1e-10).  Inputs:
//   1. the 5x5 structurally non-symmetric matrix of seeded/C06g/demo.cpp with an explicitly stored zero at (1,3);
//   2. three pseudo-random structurally non-symmetric, strictly diagonally dominant matrices with a few explicitly
//      stored zeros right of the diagonal;
//   3. if the CBMC witness describes a square matrix with sorted rows and a full diagonal: its PATTERN with generic
//      diagonally dominant values, once as is and once per upper entry stored as an explicit zero (the witness values
//      are uninterpreted tokens and carry no numerical meaning).
// Exit 1 + "REPRODUCED ..." when the real code violates the property, 0 otherwise.
#include "witness.hpp"
#include <amgcl/adapter/crs_tuple.hpp>
#include <amgcl/relaxation/ilu0.hpp>
#include <algorithm>
#include <tuple>

typedef amgcl::backend::builtin<double> Backend;
typedef amgcl::backend::crs<double> Matrix;
typedef amgcl::relaxation::ilu0<Backend> Ilu0;

struct Csr { int n; std::vector<ptrdiff_t> ptr, col; std::vector<double> val; };
typedef std::vector<double> Dense;

static Dense inverse(Dense M, int n, bool &singular) {
    Dense I(n * n, 0.0);
    singular = false;
    for (int i = 0; i < n; ++i) I[i * n + i] = 1;
    for (int k = 0; k < n; ++k) {
        int p = k;
        for (int i = k + 1; i < n; ++i) if (std::fabs(M[i * n + k]) > std::fabs(M[p * n + k])) p = i;
        if (M[p * n + k] == 0 || M[p * n + k] != M[p * n + k]) { singular = true; return I; }
        for (int j = 0; j < n; ++j) { std::swap(M[k * n + j], M[p * n + j]); std::swap(I[k * n + j], I[p * n + j]); }
        const double d = 1 / M[k * n + k];
        for (int j = 0; j < n; ++j) { M[k * n + j] *= d; I[k * n + j] *= d; }
        for (int i = 0; i < n; ++i) {
            if (i == k) continue;
            const double f = M[i * n + k];
            if (f == 0) continue;
            for (int j = 0; j < n; ++j) { M[i * n + j] -= f * M[k * n + j]; I[i * n + j] -= f * I[k * n + j]; }
        }
    }
    return I;
}

static void print(const Csr &S) {
    std::cout << "A " << S.n << "x" << S.n << " rows:";
    for (int i = 0; i < S.n; ++i) {
        std::cout << " {";
        for (ptrdiff_t j = S.ptr[i]; j < S.ptr[i + 1]; ++j) std::cout << (j > S.ptr[i] ? "," : "") << S.col[j] << ":" << S.val[j];
        std::cout << "}";
    }
    std::cout << std::endl;
}

// 0: property holds; 1: violated
static int check(const char *name, const Csr &S) {
    const int n = S.n;
    if (n == 0) return 0;
    Matrix A(std::tie(S.n, S.ptr, S.col, S.val));
    Ilu0::params prm;
    prm.solve.serial = true;
    std::shared_ptr<Ilu0> ilu;
    try { ilu = std::make_shared<Ilu0>(A, prm, Backend::params()); }
    catch (const std::exception &e) { std::cout << name << ": exception " << e.what() << " (input is diagonally dominant: no zero pivot expected)" << std::endl; print(S); std::cout << "REPRODUCED: ilu0 raises an exception on a strictly diagonally dominant matrix" << std::endl; return 1; }
    Dense Minv(n * n);
    std::vector<double> e(n), x(n);
    for (int j = 0; j < n; ++j) {
        std::fill(e.begin(), e.end(), 0.0); std::fill(x.begin(), x.end(), 0.0);
        e[j] = 1;
        ilu->apply(A, e, x);
        for (int i = 0; i < n; ++i) Minv[i * n + j] = x[i];
    }
    bool singular = false;
    Dense LU = inverse(Minv, n, singular);
    if (singular) { print(S); std::cout << "REPRODUCED: " << name << ": the action of the ILU(0) solve is singular / not finite" << std::endl; return 1; }
    double err = 0; int bi = -1, bj = -1;
    for (int i = 0; i < n; ++i)
        for (ptrdiff_t j = S.ptr[i]; j < S.ptr[i + 1]; ++j) {
            const double d = std::fabs(LU[i * n + S.col[j]] - S.val[j]);
            if (!(d <= err)) { err = d; bi = i; bj = (int)S.col[j]; }
        }
    std::cout << name << ": n=" << n << " nnz=" << S.ptr[n] << " max |(LU)_ij - a_ij| on the pattern = " << err << std::endl;
    if (!(err <= 1e-10)) {
        print(S);
        std::cout << "REPRODUCED: " << name << ": (L U)_" << bi << bj << " = " << LU[bi * n + bj] << " differs from the stored a_" << bi << bj
                  << " (ILU(0): (L U)_ij = a_ij on the pattern of A)" << std::endl;
        return 1;
    }
    return 0;
}

// 5x5 of seeded/C06g/demo.cpp, one explicitly stored zero at (1,3)
static Csr demo5() {
    Csr S; S.n = 5;
    const double rows[5][5] = {
        { 4,  0,  0, -1,  0},
        { 0,  4, -1,  0,  0},
        {-1,  0,  4,  0, -1},
        {-1,  0,  0,  4,  0},
        { 0,  0, -1,  0,  4}};
    S.ptr.push_back(0);
    for (int i = 0; i < 5; ++i) {
        for (int j = 0; j < 5; ++j) if (rows[i][j] != 0 || (i == 1 && j == 3)) { S.col.push_back(j); S.val.push_back(rows[i][j]); }
        S.ptr.push_back(S.col.size());
    }
    return S;
}

static unsigned long long g_seed = 88172645463325252ULL;
static double rnd() { g_seed ^= g_seed << 13; g_seed ^= g_seed >> 7; g_seed ^= g_seed << 17; return (double)(g_seed % 1000003ULL) / 1000003.0; }

// structurally non-symmetric (each off-diagonal cell drawn independently), strictly diagonally dominant, some upper entries stored as 0
static Csr random_matrix(int n, double density, double pzero) {
    Csr S; S.n = n; S.ptr.push_back(0);
    for (int i = 0; i < n; ++i) {
        double sum = 0; const size_t first = S.col.size(); size_t dpos = 0;
        for (int j = 0; j < n; ++j) {
            if (j == i) { dpos = S.col.size(); S.col.push_back(j); S.val.push_back(0); continue; }
            if (rnd() >= density) continue;
            double v = -(0.25 + rnd());
            if (j > i && rnd() < pzero) v = 0.0;
            S.col.push_back(j); S.val.push_back(v); sum += std::fabs(v);
        }
        (void)first;
        S.val[dpos] = 1.0 + sum + rnd();
        S.ptr.push_back(S.col.size());
    }
    return S;
}

static bool from_witness(const Witness &w, Csr &S) {
    if (!w.has("w_A_nrows") || !w.has("w_A_ptr") || !w.has("w_A_col")) return false;
    const int n = (int)w.num("w_A_nrows");
    std::vector<double> p = w.arr("w_A_ptr"), c = w.arr("w_A_col");
    if (n <= 0 || n > 64 || (int)w.num("w_A_ncols") != n || (int)p.size() < n + 1 || p[0] != 0) return false;
    S.n = n; S.ptr.assign(n + 1, 0); S.col.clear(); S.val.clear();
    for (int i = 0; i < n; ++i) {
        if (p[i + 1] < p[i] || p[i + 1] > (double)c.size()) return false;
        bool diag = false;
        for (ptrdiff_t j = (ptrdiff_t)p[i]; j < (ptrdiff_t)p[i + 1]; ++j) {
            const ptrdiff_t cc = (ptrdiff_t)c[j];
            if (cc < 0 || cc >= n || (j > (ptrdiff_t)p[i] && !(c[j - 1] < c[j]))) return false;
            if (cc == i) diag = true;
            S.col.push_back(cc); S.val.push_back(cc == i ? 8.0 + i : -(0.5 + 0.125 * (j % 7)));
        }
        if (!diag) return false;
        S.ptr[i + 1] = (ptrdiff_t)S.col.size();
    }
    return true;
}

int main(int argc, char **argv) {
    if (argc < 3) return 2;
    const std::string unit = argv[1];
    if (unit != "ilu0_values") { std::cout << "no replay for unit " << unit << std::endl; return 3; }
    int rc = check("5x5 of seeded/C06g/demo.cpp, stored zero at (1,3)", demo5());
    if (rc) return rc;
    const int sizes[3] = {6, 8, 11};
    for (int t = 0; t < 3; ++t) {
        Csr R = random_matrix(sizes[t], 0.4, 0.3);
        char name[96]; std::snprintf(name, sizeof name, "random non-symmetric diagonally dominant #%d with stored zeros", t);
        rc = check(name, R);
        if (rc) return rc;
    }
    Witness w; Csr S;
    if (w.load(std::string(argv[2]) + ".in") && from_witness(w, S)) {
        rc = check("witness pattern, generic values", S);
        if (rc) return rc;
        for (int i = 0; i < S.n; ++i)
            for (ptrdiff_t j = S.ptr[i]; j < S.ptr[i + 1]; ++j) if (S.col[j] > i) {
                Csr Z = S; Z.val[j] = 0.0;
                char name[96]; std::snprintf(name, sizeof name, "witness pattern, (%d,%d) stored as an explicit zero", i, (int)S.col[j]);
                rc = check(name, Z);
                if (rc) return rc;
            }
    } else std::cout << "no usable witness pattern (fixed and random inputs only)" << std::endl;
    return 0;
}
