// native replay of the units of units/c06_iluk.py against the REAL amgcl::relaxation::iluk / ilup / detail::symb_product / ilut::sparse_vector::move_to.
// The factors are read through "#define private public" in this test driver only (no change to /repo).
//
// Oracles (independent of the code under test):
//   * level of fill on a dense integer table (IKJ form of the recurrence, max rule of the documentation or sum rule of Saad),
//   * (L U)_ij == a_ij on the kept pattern by a dense product in long double.
// Units that check ONE row-loop iteration from an abstract predecessor state (iluk_row_step, iluk_row_values) have witnesses that are
// not matrices; the witness state is EMBEDDED into a real matrix: every stored U entry (p,j) of level l >= 1 of the state is produced
// by a chain of l auxiliary pivot rows in front of the matrix, and one observer row behind it makes the stored levels of the new U
// row visible in the pattern.  After that a fixed battery (known small matrices, every 4x4 pattern, random 5x5 / 6x6 patterns).
#define _GLIBCXX_ASSERTIONS 1
#include <csignal>
#include <unistd.h>
#include <algorithm>
#include <vector>
#include <cstdio>
#include <cstdlib>
#include <fstream>
#include <iostream>
#include <map>
#include <sstream>
#include <string>
#include <cmath>
#include <memory>
#include <numeric>
#include <complex>
#include <type_traits>
#include <stdexcept>
#include <array>
#include <tuple>
#include <set>
#include <list>
#include <deque>
#include <queue>
#include <iterator>
#include <limits>
#include <functional>
#include <random>
#include <cassert>
#include <omp.h>
#define private public
#include <amgcl/backend/builtin.hpp>
#include <amgcl/relaxation/detail/ilu_solve.hpp>
#include <amgcl/relaxation/iluk.hpp>
#include <amgcl/relaxation/ilu0.hpp>
#include <amgcl/relaxation/ilup.hpp>
#include <amgcl/relaxation/ilut.hpp>
#undef private
#include "witness.hpp"
using namespace amgcl;

static void on_abort(int) {
    const char m[] = "REPRODUCED on the real code: abort (libstdc++ assertion: container subscript out of range, top()/pop() of an empty queue or null smart-pointer dereference)\n";
    if (write(1, m, sizeof(m) - 1)) {}
    _exit(1);
}
static void arm() { signal(SIGABRT, on_abort); }

typedef backend::builtin<double, ptrdiff_t, ptrdiff_t> Backend;
typedef relaxation::iluk<Backend> Iluk;

// ------------------------------------------------------------------------------------------------ dense pattern / matrix
struct Pat {
    int n;
    std::vector<char> nz;                 // stored position
    Pat(int n = 0) : n(n), nz(n * n, 0) {}
    void set(int i, int j) { nz[i * n + j] = 1; }
    bool at(int i, int j) const { return nz[i * n + j] != 0; }
};
// generic values: dominant diagonal, distinct off-diagonal entries (no accidental cancellation)
static std::shared_ptr<Crs> matrix_of(const Pat &P) {
    const int n = P.n;
    std::shared_ptr<Crs> A = std::make_shared<Crs>();
    A->set_size(n, n, true);
    std::vector<ptrdiff_t> col; std::vector<double> val;
    for (int i = 0; i < n; ++i) {
        for (int j = 0; j < n; ++j) if (P.at(i, j)) { col.push_back(j); val.push_back(i == j ? 4.0 + 0.25 * i : -1.0 - 0.0625 * ((3 * i + 5 * j) % 7)); }
        A->ptr[i + 1] = (ptrdiff_t)col.size();
    }
    A->set_nonzeros(col.size());
    for (size_t k = 0; k < col.size(); ++k) { A->col[k] = col[k]; A->val[k] = val[k]; }
    return A;
}
static Pat pattern_of(const Crs &A) {
    Pat P((int)A.nrows);
    for (size_t i = 0; i < A.nrows; ++i) for (ptrdiff_t e = A.ptr[i]; e < A.ptr[i + 1]; ++e) P.set((int)i, (int)A.col[e]);
    return P;
}

// ------------------------------------------------------------------------------------------------ oracle 1: level of fill
static const int LEV_INF = 1000;
// lev[i*n+j]; also (optionally) marks the positions of the final pattern that a single-pass factorisation reaches FIRST through an update
// beyond level k (the update is discarded because the position does not exist yet) and that are admitted by a later pivot
static std::vector<int> levels(const Pat &P, int k, bool sum, std::vector<char> *late = 0) {
    const int n = P.n;
    std::vector<int> lev(n * n, LEV_INF);
    if (late) late->assign(n * n, 0);
    for (int i = 0; i < n * n; ++i) if (P.nz[i]) lev[i] = 0;
    for (int i = 0; i < n; ++i) {
        std::vector<char> missed(n, 0);
        for (int p = 0; p < i; ++p) {
            if (lev[i * n + p] > k) continue;
            for (int j = p + 1; j < n; ++j) {
                if (lev[p * n + j] > k) continue;
                const int l = sum ? lev[i * n + p] + lev[p * n + j] + 1 : std::max(lev[i * n + p], lev[p * n + j]) + 1;
                if (lev[i * n + j] > k && l > k) missed[j] = 1;               // position not (yet) admitted, update beyond k
                lev[i * n + j] = std::min(lev[i * n + j], l);
            }
        }
        if (late) for (int j = 0; j < n; ++j) if (missed[j] && lev[i * n + j] <= k) (*late)[i * n + j] = 1;
    }
    return lev;
}

// ------------------------------------------------------------------------------------------------ the real constructor
struct Factors { std::shared_ptr<Iluk> S; const Crs *L, *U; const backend::numa_vector<double> *D; };
static Factors factorise(const Crs &A, int k) {
    Iluk::params prm; prm.k = k; prm.solve.serial = true;
    Factors F;
    F.S = std::make_shared<Iluk>(A, prm, Backend::params());
    F.L = F.S->ilu->L.get(); F.U = F.S->ilu->U.get(); F.D = F.S->ilu->D.get();
    return F;
}
static bool kept(const Factors &F, int i, int j) {
    if (i == j) return true;
    const Crs &M = j < i ? *F.L : *F.U;
    for (ptrdiff_t e = M.ptr[i]; e < M.ptr[i + 1]; ++e) if (M.col[e] == j) return true;
    return false;
}
static void print_pat(const char *what, const Pat &P) {
    std::cout << what << " n=" << P.n << " rows:";
    for (int i = 0; i < P.n; ++i) { std::cout << " {"; bool f = true; for (int j = 0; j < P.n; ++j) if (P.at(i, j)) { std::cout << (f ? "" : ",") << j; f = false; } std::cout << "}"; }
    std::cout << std::endl;
}

// structure clauses of the units on one matrix; 0 = holds, 1 = REPRODUCED
static int check_structure(const Crs &A, int k, bool sum, bool quiet = false) {
    const int n = (int)A.nrows;
    const Pat P = pattern_of(A);
    Factors F;
    try { F = factorise(A, k); } catch (const std::exception &e) { if (quiet) print_pat("A", P); FAIL("iluk threw on a matrix with a stored non-zero diagonal: " << e.what()); }
    const Crs &L = *F.L, &U = *F.U;
    if (quiet && false) {}
#define SFAIL(msg) do { if (quiet) print_pat("A", P); FAIL("iluk k=" << k << ": " << msg); } while (0)
    if ((int)L.nrows != n || (int)U.nrows != n || (int)L.ncols != n || (int)U.ncols != n || (int)F.D->size() != n) SFAIL("factor dimensions");
    if (L.ptr[0] != 0 || U.ptr[0] != 0 || (size_t)L.ptr[n] != L.nnz || (size_t)U.ptr[n] != U.nnz) SFAIL("ptr[0] != 0 or ptr[n] != nnz in a factor");
    for (int i = 0; i < n; ++i) {
        if (L.ptr[i] > L.ptr[i + 1] || U.ptr[i] > U.ptr[i + 1]) SFAIL("ptr of a factor is not monotone");
        for (ptrdiff_t e = L.ptr[i]; e < L.ptr[i + 1]; ++e) {
            if (!(L.col[e] >= 0 && L.col[e] < i)) SFAIL("L(" << i << "," << L.col[e] << ") is not strictly left of the diagonal");
            if (e + 1 < L.ptr[i + 1] && !(L.col[e] < L.col[e + 1])) SFAIL("columns of L row " << i << " not strictly ascending");
        }
        for (ptrdiff_t e = U.ptr[i]; e < U.ptr[i + 1]; ++e) {
            if (!(U.col[e] > i && U.col[e] < n)) SFAIL("U(" << i << "," << U.col[e] << ") is not strictly right of the diagonal / out of range");
            if (e + 1 < U.ptr[i + 1] && !(U.col[e] < U.col[e + 1])) SFAIL("columns of U row " << i << " not strictly ascending");
        }
    }
    const std::vector<int> lev = levels(P, k, sum);
    for (int i = 0; i < n; ++i) for (int j = 0; j < n; ++j) if (i != j) {
        const bool want = lev[i * n + j] <= k, have = kept(F, i, j);
        if (want && !have) SFAIL("position (" << i << "," << j << ") has level of fill " << lev[i * n + j] << " <= k (" << (sum ? "sum" : "max") << " rule) but is NOT kept in " << (j < i ? "L" : "U"));
        if (!want && have) SFAIL("position (" << i << "," << j << ") is kept in " << (j < i ? "L" : "U") << " although its level of fill is " << (lev[i * n + j] >= LEV_INF ? -1 : lev[i * n + j]) << " > k (" << (sum ? "sum" : "max") << " rule; -1 = never reached)");
    }
    // D[i] is the INVERSE of the pivot u_ii = a_ii - sum_{p < i} l_ip u_pi (the diagonal position always exists: no update into it is ever discarded)
    {
        std::vector<long double> a(n * n, 0.0L), Uf(n * n, 0.0L);
        for (int i = 0; i < n; ++i) for (ptrdiff_t e = A.ptr[i]; e < A.ptr[i + 1]; ++e) a[i * n + A.col[e]] += A.val[e];
        for (int i = 0; i < n; ++i) for (ptrdiff_t e = U.ptr[i]; e < U.ptr[i + 1]; ++e) Uf[i * n + U.col[e]] = U.val[e];
        for (int i = 0; i < n; ++i) {
            long double piv = a[i * n + i];
            for (ptrdiff_t e = L.ptr[i]; e < L.ptr[i + 1]; ++e) piv -= (long double)L.val[e] * Uf[L.col[e] * n + i];
            const long double d = (*F.D)[i];
            if (!(fabsl(d * piv - 1.0L) <= 1e-9L)) SFAIL("D[" << i << "] = " << (double)d << " is not the inverse of the pivot a_ii - sum_p l_ip u_pi = " << (double)piv);
        }
    }
#undef SFAIL
    return 0;
}

// oracle 2: (L U)_ij == a_ij on the kept pattern (dense product in long double)
static int check_values(const Crs &A, int k, bool quiet = false) {
    const int n = (int)A.nrows;
    const Pat P = pattern_of(A);
    Factors F;
    try { F = factorise(A, k); } catch (const std::exception &e) { FAIL("iluk threw: " << e.what()); }
    std::vector<long double> a(n * n, 0.0L), Lf(n * n, 0.0L), Uf(n * n, 0.0L);
    for (int i = 0; i < n; ++i) for (ptrdiff_t e = A.ptr[i]; e < A.ptr[i + 1]; ++e) a[i * n + A.col[e]] += A.val[e];
    for (int i = 0; i < n; ++i) {
        Lf[i * n + i] = 1.0L; Uf[i * n + i] = 1.0L / (long double)(*F.D)[i];
        for (ptrdiff_t e = F.L->ptr[i]; e < F.L->ptr[i + 1]; ++e) Lf[i * n + F.L->col[e]] = F.L->val[e];
        for (ptrdiff_t e = F.U->ptr[i]; e < F.U->ptr[i + 1]; ++e) Uf[i * n + F.U->col[e]] = F.U->val[e];
    }
    std::vector<char> late;
    levels(P, k, false, &late);
    for (int i = 0; i < n; ++i) for (int j = 0; j < n; ++j) {
        if (!kept(F, i, j)) continue;
        long double s = 0.0L;
        for (int p = 0; p < n; ++p) s += Lf[i * n + p] * Uf[p * n + j];
        if (!(fabsl(s - a[i * n + j]) <= 1e-11L * (1.0L + fabsl(a[i * n + j])))) {
            if (quiet) print_pat("A", P);
            std::cout << "REPRODUCED on the real code: iluk k=" << k << ": (L U)(" << i << "," << j << ") = " << (double)s << " but a(" << i << "," << j << ") = " << (double)a[i * n + j]
                      << " on the kept pattern (dense product in long double)" << std::endl;
            if (late[i * n + j])
                std::cout << "  iluk discards an update that reaches a position admitted later: (" << i << "," << j << ") is first reached through a pivot at a level > k while it does not exist "
                             "(sparse_vector::add drops the contribution), a later pivot creates it at a level <= k; the dropped term is missing from the stored value (single-pass ILU(k))" << std::endl;
            return 1;
        }
    }
    return 0;
}

// ------------------------------------------------------------------------------------------------ battery
static Pat from_list(int n, const int (*e)[2], int m) { Pat P(n); for (int i = 0; i < n; ++i) P.set(i, i); for (int k = 0; k < m; ++k) P.set(e[k][0], e[k][1]); return P; }
static unsigned long long rng_state = 88172645463325252ULL;
static unsigned rnd() { rng_state ^= rng_state << 13; rng_state ^= rng_state >> 7; rng_state ^= rng_state << 17; return (unsigned)(rng_state >> 33); }

static int battery(bool values, bool sum) {
    // 1. the 5x5 matrix of known finding F12 (k = 1): row 3 reaches (3,4) first through pivot 1 at level 2, pivot 2 creates it at level 1
    { const int e[][2] = {{0,1},{1,4},{2,4},{3,0},{3,2}}; Pat P = from_list(5, e, 5);
      std::shared_ptr<Crs> A = matrix_of(P);
      for (ptrdiff_t q = 0; q < A->ptr[5]; ++q) A->val[q] = 0.0;
      for (int i = 0; i < 5; ++i) for (ptrdiff_t q = A->ptr[i]; q < A->ptr[i + 1]; ++q) A->val[q] = (A->col[q] == i) ? 4.0 : -1.0;
      std::cout << "-- fixed 5x5 matrix diag(4) + (0,1)=(1,4)=(2,4)=(3,0)=(3,2)=-1, k=1" << std::endl;
      int rc = values ? check_values(*A, 1) : check_structure(*A, 1, sum);
      if (rc) return rc; }
    // 2. the 6x6 structurally non-symmetric matrix of seeded/C06/demo.cpp (k = 2) and the 5x5 matrix on which the max and the sum rule differ (k = 2)
    { const int e[][2] = {{0,1},{1,4},{2,4},{3,0},{3,2},{4,5},{5,3}}; Pat P = from_list(6, e, 7);
      std::cout << "-- fixed 6x6 matrix of seeded/C06/demo.cpp, k=2,3" << std::endl;
      for (int k = 2; k <= 3; ++k) { int rc = values ? 0 : check_structure(*matrix_of(P), k, sum); if (rc) return rc; } }
    { const int e[][2] = {{0,2},{1,4},{2,1},{3,0}}; Pat P = from_list(5, e, 4);
      std::cout << "-- fixed 5x5 matrix diag + (0,2),(1,4),(2,1),(3,0), k=2" << std::endl;
      int rc = values ? 0 : check_structure(*matrix_of(P), 2, sum); if (rc) return rc; }
    if (values) return 0;
    // 3. every 4x4 pattern with a full diagonal, k = 0..2
    std::cout << "-- every 4x4 pattern with a full diagonal (4096), k=0,1,2" << std::endl;
    for (unsigned m = 0; m < 4096u; ++m) {
        Pat P(4); int b = 0;
        for (int i = 0; i < 4; ++i) for (int j = 0; j < 4; ++j) { if (i == j) P.set(i, j); else { if (m >> b & 1u) P.set(i, j); ++b; } }
        std::shared_ptr<Crs> A = matrix_of(P);
        for (int k = 0; k <= 2; ++k) { int rc = check_structure(*A, k, sum, true); if (rc) return rc; }
    }
    // 4. random 5x5 / 6x6 / 7x7 patterns, k = 1..3
    std::cout << "-- 60000 random patterns n=5,6,7, k=1,2,3" << std::endl;
    for (int t = 0; t < 60000; ++t) {
        const int n = 5 + t % 3; const unsigned dens = 12 + rnd() % 40;
        Pat P(n);
        for (int i = 0; i < n; ++i) for (int j = 0; j < n; ++j) if (i == j || rnd() % 100 < dens) P.set(i, j);
        std::shared_ptr<Crs> A = matrix_of(P);
        for (int k = 1; k <= 3; ++k) { int rc = check_structure(*A, k, sum, true); if (rc) return rc; }
    }
    return 0;
}

// ------------------------------------------------------------------------------------------------ units
static int r_iluk_ctor(const Witness &w) {
    std::shared_ptr<Crs> A;
    try { A = crs_from(w, "A"); } catch (...) { std::cout << "witness does not describe a matrix" << std::endl; return 3; }
    const int n = (int)A->nrows, k = (int)w.num("D_K", 1); const bool sum = (int)w.num("D_LEVSUM", 0) != 0;
    std::string why;
    if ((int)A->ncols != n || !wf(*A, why)) { std::cout << "witness not a square well-formed matrix" << std::endl; return 3; }
    // synthetic values on the witness pattern (rows may be unsorted and hold duplicates, as in the verifier's input)
    std::vector<char> seen(n);
    for (int i = 0; i < n; ++i) {
        std::fill(seen.begin(), seen.end(), 0); bool d = false;
        for (ptrdiff_t e = A->ptr[i]; e < A->ptr[i + 1]; ++e) { const ptrdiff_t c = A->col[e]; if (c == i) d = true; A->val[e] = (c == i) ? (seen[c] ? 0.5 : 4.0 + 0.25 * i) : -0.5 - 0.0625 * ((3 * i + 5 * c + e) % 7); seen[c] = 1; }
        if (!d) { std::cout << "witness lacks a stored diagonal entry" << std::endl; return 3; }
    }
    print_crs("A", *A);
    arm();
    int rc = check_structure(*A, k, sum);
    if (rc) return rc;
    std::cout << "-- witness input holds on the real code; battery" << std::endl;
    return battery(false, sum);
}

// witness of a row-step unit -> a real matrix whose factorisation passes through the witness state (see the head of this file)
static bool embed(const Witness &w, Pat &out, int &k) {
    const int n = (int)w.num("w_n"), i = (int)w.num("w_i");
    k = (int)w.num("D_K", 1);
    const int NM = (int)w.num("D_NMAX", 4);
    std::vector<double> ul = w.arr("w_ul"), p = w.arr("w_A_ptr"), c = w.arr("w_A_col");
    if (n < 1 || i < 0 || i >= n || (int)ul.size() < NM * NM || (int)p.size() < i + 2) return false;
    // chains: one auxiliary pivot per unit of level of every stored U entry (p,j), p < i, of level >= 1
    int naux = 0;
    for (int r = 0; r < i; ++r) for (int j = r + 1; j < n; ++j) { const int l = (int)ul[r * NM + j]; if (l >= 1 && l <= k) naux += l; }
    const int N = naux + n + 1;
    Pat P(N);
    for (int d = 0; d < N; ++d) P.set(d, d);
    int q = 0;
    for (int r = 0; r < i; ++r) for (int j = r + 1; j < n; ++j) {
        const int l = (int)ul[r * NM + j];
        if (l == 0) P.set(naux + r, naux + j);
        if (l >= 1 && l <= k) {
            P.set(q, naux + j);                                  // A(q_1, j)
            for (int s = 1; s < l; ++s) P.set(q + s, q + s - 1); // A(q_{s+1}, q_s)
            P.set(naux + r, q + l - 1);                          // A(p, q_l)
            q += l;
        }
    }
    for (ptrdiff_t e = (ptrdiff_t)p[i]; e < (ptrdiff_t)p[i + 1] && e < (ptrdiff_t)c.size(); ++e) { const int cc = (int)c[e]; if (cc >= 0 && cc < n) P.set(naux + i, naux + cc); }
    P.set(N - 1, naux + i);                                      // observer row: (N-1, j) is admitted iff lev(i,j) <= k - 1
    out = P;
    return true;
}
static int r_iluk_row(const Witness &w, bool values) {
    const bool sum = (int)w.num("D_LEVSUM", 0) != 0;
    Pat P; int k = 1;
    arm();
    if (embed(w, P, k)) {
        std::cout << "witness state (row " << (int)w.num("w_i") << " of n=" << (int)w.num("w_n") << ", k=" << k << ") embedded into a real matrix:" << std::endl;
        print_pat("A", P);
        std::shared_ptr<Crs> A = matrix_of(P);
        int rc = check_structure(*A, k, sum);
        if (rc) return rc;
        if (values) { rc = check_values(*A, k); if (rc) return rc; }
        std::cout << "-- the embedded witness holds on the real code; battery" << std::endl;
    } else std::cout << "-- witness state not usable; battery" << std::endl;
    int rc = battery(false, sum);
    if (rc) return rc;
    return values ? battery(true, sum) : 0;
}


// ------------------------------------------------------------------------------------------------ ILUP
// boolean product of two patterns (dense oracle)
struct RPat { int n, m; std::vector<char> nz; RPat(int n = 0, int m = 0) : n(n), m(m), nz(n * m, 0) {} };
static RPat rpat_of(const Crs &A) { RPat P((int)A.nrows, (int)A.ncols); for (size_t i = 0; i < A.nrows; ++i) for (ptrdiff_t e = A.ptr[i]; e < A.ptr[i + 1]; ++e) P.nz[i * P.m + A.col[e]] = 1; return P; }
static RPat bool_product(const RPat &X, const RPat &Y) {
    RPat Z(X.n, Y.m);
    for (int i = 0; i < X.n; ++i) for (int l = 0; l < X.m; ++l) if (X.nz[i * X.m + l]) for (int j = 0; j < Y.m; ++j) if (Y.nz[l * Y.m + j]) Z.nz[i * Z.m + j] = 1;
    return Z;
}
static int symb_on(const Crs &A, const Crs &B) {
    print_crs("A", A); print_crs("B", B);
    Crs A0(A), B0(B);
    std::shared_ptr<Crs> C = relaxation::detail::symb_product(A, B);
    if (!C || C->nrows != A.nrows || C->ncols != B.ncols) FAIL("symb_product: result is not rows(A) x cols(B)");
    std::string why;
    if (!wf(*C, why) || (C->nrows && (size_t)C->ptr[C->nrows] != C->nnz)) FAIL("symb_product: result not well formed (" << why << ")");
    if (!rows_sorted(*C, true)) FAIL("symb_product: a row of the result is not strictly ascending");
    const RPat want = bool_product(rpat_of(A), rpat_of(B)), have = rpat_of(*C);
    for (int i = 0; i < want.n; ++i) for (int j = 0; j < want.m; ++j)
        if (want.nz[i * want.m + j] != have.nz[i * want.m + j]) FAIL("symb_product: position (" << i << "," << j << ") is " << (have.nz[i * want.m + j] ? "" : "not ") << "stored but the boolean product says " << (want.nz[i * want.m + j] ? "stored" : "empty"));
    if (C->val != 0) FAIL("symb_product: a value array was allocated");
    for (ptrdiff_t e = 0; e < A0.ptr[A0.nrows]; ++e) if (A.col[e] != A0.col[e]) FAIL("symb_product modified A");
    for (ptrdiff_t e = 0; e < B0.ptr[B0.nrows]; ++e) if (B.col[e] != B0.col[e]) FAIL("symb_product modified B");
    return 0;
}
static int r_ilup_symb(const Witness &w) {
    std::shared_ptr<Crs> A, B;
    try { A = crs_from(w, "A"); B = crs_from(w, "B"); } catch (...) { std::cout << "witness does not describe two matrices" << std::endl; return 3; }
    std::string why;
    if (A->ncols != B->nrows || !wf(*A, why) || !wf(*B, why)) { std::cout << "witness matrices not compatible / not well formed" << std::endl; return 3; }
    arm();
    int rc = symb_on(*A, *B);
    if (rc) return rc;
    std::cout << "-- witness input holds on the real code; 3000 random pairs n,m,k <= 4 (unsorted rows, duplicates, empty rows)" << std::endl;
    for (int t = 0; t < 3000; ++t) {
        const int n = 1 + rnd() % 4, m = 1 + rnd() % 4, k = 1 + rnd() % 4;
        Crs X, Y; X.set_size(n, m, true); Y.set_size(m, k, true);
        std::vector<ptrdiff_t> xc, yc;
        for (int i = 0; i < n; ++i) { for (int j = 0; j < m; ++j) if (rnd() % 100 < 45) xc.push_back(j); if (rnd() % 4 == 0 && !xc.empty()) xc.push_back(xc.back()); X.ptr[i + 1] = (ptrdiff_t)xc.size(); }
        for (int i = 0; i < m; ++i) { for (int j = k; j-- > 0; ) if (rnd() % 100 < 45) yc.push_back(j); Y.ptr[i + 1] = (ptrdiff_t)yc.size(); }
        X.set_nonzeros(xc.size()); Y.set_nonzeros(yc.size());
        for (size_t e = 0; e < xc.size(); ++e) { X.col[e] = xc[e]; X.val[e] = 1.0; }
        for (size_t e = 0; e < yc.size(); ++e) { Y.col[e] = yc[e]; Y.val[e] = 1.0; }
        std::streambuf *old = std::cout.rdbuf(); std::ostringstream sink; std::cout.rdbuf(sink.rdbuf());
        rc = symb_on(X, Y);
        std::cout.rdbuf(old);
        if (rc) { std::cout << sink.str(); return rc; }
    }
    return 0;
}
typedef relaxation::ilu0<Backend> Ilu0;
typedef relaxation::ilup<Backend> Ilup;
static bool same_crs(const Crs &X, const Crs &Y) {
    if (X.nrows != Y.nrows || X.ncols != Y.ncols) return false;
    for (size_t i = 0; i <= X.nrows; ++i) if (X.ptr[i] != Y.ptr[i]) return false;
    for (ptrdiff_t e = 0; e < X.ptr[X.nrows]; ++e) if (X.col[e] != Y.col[e] || X.val[e] != Y.val[e]) return false;
    return true;
}
// oracle: ILUP(k) == the REAL ilu0 run on the matrix with the pattern of A^(k+1) (dense boolean power), the values of A on the pattern of A and zero elsewhere
static int ilup_on(const Crs &A, int k) {
    const int n = (int)A.nrows;
    RPat P = rpat_of(A), Ap = P;
    for (int s = 0; s < k; ++s) P = bool_product(P, Ap);
    Crs M; M.set_size(n, n, true);
    std::vector<ptrdiff_t> col; std::vector<double> val;
    std::vector<double> a = dense(A);
    for (int i = 0; i < n; ++i) { for (int j = 0; j < n; ++j) if (P.nz[i * n + j]) { col.push_back(j); val.push_back(Ap.nz[i * n + j] ? a[i * n + j] : 0.0); } M.ptr[i + 1] = (ptrdiff_t)col.size(); }
    M.set_nonzeros(col.size());
    for (size_t e = 0; e < col.size(); ++e) { M.col[e] = col[e]; M.val[e] = val[e]; }
    Ilup::params prm; prm.k = k; prm.solve.serial = true;
    Ilu0::params prm0; prm0.solve.serial = true;
    std::unique_ptr<Ilup> S; std::unique_ptr<Ilu0> R;
    try { R.reset(new Ilu0(M, prm0, Backend::params())); } catch (const std::exception &e) { std::cout << "reference ilu0 threw: " << e.what() << std::endl; return 3; }
    try { S.reset(new Ilup(A, prm, Backend::params())); } catch (const std::exception &e) { FAIL("ilup k=" << k << " threw: " << e.what()); }
    if (!S->base || !S->base->ilu) FAIL("ilup: no ILU(0) smoother was made");
    const Crs &L = *S->base->ilu->L, &U = *S->base->ilu->U, &L0 = *R->ilu->L, &U0 = *R->ilu->U;
    if (!same_crs(L, L0) || !same_crs(U, U0)) {
        std::cout << "ILUP factors: nnz(L)=" << L.ptr[n] << " nnz(U)=" << U.ptr[n] << "; ILU(0) on the pattern of A^" << k + 1 << ": nnz(L)=" << L0.ptr[n] << " nnz(U)=" << U0.ptr[n] << std::endl;
        FAIL("ilup k=" << k << ": the factors differ from ILU(0) of the matrix with the pattern of A^(k+1) and the values of A");
    }
    for (int i = 0; i < n; ++i) if ((*S->base->ilu->D)[i] != (*R->ilu->D)[i]) FAIL("ilup k=" << k << ": D[" << i << "] differs from ILU(0) of the pattern matrix");
    return 0;
}
static int r_ilup_ctor(const Witness &w) {
    std::shared_ptr<Crs> A;
    try { A = crs_from(w, "A"); } catch (...) { std::cout << "witness does not describe a matrix" << std::endl; return 3; }
    const int n = (int)A->nrows, k = (int)w.num("D_K", 1);
    if ((int)A->ncols != n || !rows_sorted(*A, true)) { std::cout << "witness not square / rows not strictly ascending" << std::endl; return 3; }
    for (int i = 0; i < n; ++i) { bool d = false; for (ptrdiff_t e = A->ptr[i]; e < A->ptr[i + 1]; ++e) { if (A->col[e] == i) d = true; A->val[e] = (A->col[e] == i) ? 4.0 + 0.25 * i : -1.0 - 0.0625 * ((3 * i + 5 * A->col[e]) % 7); } if (!d) { std::cout << "witness lacks a diagonal entry" << std::endl; return 3; } }
    print_crs("A", *A);
    arm();
    int rc = ilup_on(*A, k);
    if (rc) return rc;
    std::cout << "-- witness input holds on the real code; every 3x3 pattern with a full diagonal, 500 random 4x4 / 5x5 patterns, k=0..3" << std::endl;
    for (unsigned m = 0; m < 64u; ++m) {
        Pat P(3); int b = 0;
        for (int i = 0; i < 3; ++i) for (int j = 0; j < 3; ++j) { if (i == j) P.set(i, j); else { if (m >> b & 1u) P.set(i, j); ++b; } }
        for (int kk = 0; kk <= 3; ++kk) { rc = ilup_on(*matrix_of(P), kk); if (rc) { print_pat("A", P); return rc; } }
    }
    for (int t = 0; t < 500; ++t) {
        const int nn = 4 + t % 2; Pat P(nn);
        for (int i = 0; i < nn; ++i) for (int j = 0; j < nn; ++j) if (i == j || rnd() % 100 < 25) P.set(i, j);
        for (int kk = 0; kk <= 3; ++kk) { rc = ilup_on(*matrix_of(P), kk); if (rc) { print_pat("A", P); return rc; } }
    }
    return 0;
}

// ------------------------------------------------------------------------------------------------ ILUT: sparse_vector::move_to on the witness work vector
typedef relaxation::ilut<Backend> Ilut;
static int move_to_on(int n, int dia, const std::vector<int> &cols, const std::vector<double> &vals, int lp, int up, double tol, bool quiet) {
    Ilut::sparse_vector w(n);
    w.dia = dia;
    for (size_t k = 0; k < cols.size(); ++k) w[cols[k]] = vals[k];
    Crs L, U; L.set_size(n, n, true); U.set_size(n, n, true);
    const ptrdiff_t L0 = 2, U0 = 1;
    L.set_nonzeros(L0 + lp); U.set_nonzeros(U0 + up);
    for (ptrdiff_t e = 0; e < L0 + lp; ++e) { L.col[e] = -7; L.val[e] = 777.0; }
    for (ptrdiff_t e = 0; e < U0 + up; ++e) { U.col[e] = -7; U.val[e] = 777.0; }
    backend::numa_vector<double> D(n, false);
    for (int i = 0; i < n; ++i) D[i] = 555.0;
    ptrdiff_t Lh = L0, Uh = U0;
    w.move_to(lp, up, tol, Lh, L, Uh, U, D);
#define MFAIL(msg) do { if (quiet) { std::cout << "work vector (col:val):"; for (size_t k = 0; k < cols.size(); ++k) std::cout << " " << cols[k] << ":" << vals[k]; std::cout << "  dia=" << dia << " lp=" << lp << " up=" << up << " tol=" << tol << std::endl; } FAIL("ilut move_to: " << msg); } while (0)
    int candL = 0, candU = 0; double dval = 0;
    for (size_t k = 0; k < cols.size(); ++k) { if (cols[k] == dia) dval = vals[k]; else if (std::fabs(vals[k]) > tol) { if (cols[k] < dia) ++candL; else ++candU; } }
    if (Lh - L0 != std::min(candL, lp)) MFAIL((Lh - L0) << " entries appended to L, but min(lp, entries left of the diagonal above the tolerance) = " << std::min(candL, lp));
    if (Uh - U0 != std::min(candU, up)) MFAIL((Uh - U0) << " entries appended to U, but min(up, entries right of the diagonal above the tolerance) = " << std::min(candU, up) << " are to be kept IN ADDITION to the diagonal");
    for (int side = 0; side < 2; ++side) {
        const Crs &F = side ? U : L; const ptrdiff_t b = side ? U0 : L0, e = side ? Uh : Lh;
        double smallest_kept = 1e300;
        for (ptrdiff_t s = b; s < e; ++s) {
            const ptrdiff_t c = F.col[s];
            if (side ? !(c > dia && c < n) : !(c >= 0 && c < dia)) MFAIL("column " << c << " stored on the wrong side of the diagonal / out of range");
            if (s + 1 < e && !(c < F.col[s + 1])) MFAIL("columns of the new row not strictly ascending");
            bool src = false;
            for (size_t k = 0; k < cols.size(); ++k) if (cols[k] == c && vals[k] == F.val[s] && std::fabs(vals[k]) > tol) src = true;
            if (!src) MFAIL("entry (" << c << ":" << F.val[s] << ") is not an entry of the work vector above the tolerance");
            smallest_kept = std::min(smallest_kept, std::fabs(F.val[s]));
        }
        for (size_t k = 0; k < cols.size(); ++k) if (cols[k] != dia && (side ? cols[k] > dia : cols[k] < dia) && std::fabs(vals[k]) > tol) {
            bool keptk = false;
            for (ptrdiff_t s = b; s < e; ++s) if (F.col[s] == cols[k]) keptk = true;
            if (!keptk && std::fabs(vals[k]) > smallest_kept) MFAIL("dropped entry (" << cols[k] << ":" << vals[k] << ") is larger in absolute value than a kept one");
        }
    }
    if (!(std::fabs(D[dia] * dval - 1.0) <= 1e-12)) MFAIL("D[dia] = " << D[dia] << " is not the inverse of the diagonal value " << dval);
    for (int i = 0; i < n; ++i) if (i != dia && D[i] != 555.0) MFAIL("D[" << i << "] was written");
    for (ptrdiff_t e = 0; e < L0; ++e) if (L.val[e] != 777.0) MFAIL("an earlier row of L was overwritten");
    for (ptrdiff_t e = 0; e < U0; ++e) if (U.val[e] != 777.0) MFAIL("an earlier row of U was overwritten");
    if (!w.nz.empty()) MFAIL("the work vector is not empty afterwards");
    for (int c = 0; c < n; ++c) if (w.idx[c] != -1) MFAIL("idx[" << c << "] is not reset");
#undef MFAIL
    return 0;
}
static int r_ilut_move_to(const Witness &w) {
    const int n = (int)w.num("w_n"), cnt = (int)w.num("w_cnt"), dia = (int)w.num("w_dia"), lp = (int)w.num("w_lp"), up = (int)w.num("w_up");
    const double tol = w.num("w_tol");
    std::vector<double> c = w.arr("w_col"), nr = w.arr("w_norm");
    arm();
    bool usable = n >= 1 && cnt >= 1 && cnt <= n && (int)c.size() >= cnt && (int)nr.size() >= cnt && dia >= 0 && dia < n && lp >= 0 && up >= 0;
    std::vector<int> cols; std::vector<double> vals; bool hasd = false;
    for (int k = 0; usable && k < cnt; ++k) {
        const int cc = (int)c[k];
        if (cc < 0 || cc >= n || std::count(cols.begin(), cols.end(), cc)) { usable = false; break; }
        cols.push_back(cc); vals.push_back((k % 2 ? -1.0 : 1.0) * nr[k]); if (cc == dia) { hasd = true; if (vals.back() == 0) vals.back() = 0.5; }
    }
    if (usable && hasd) {
        std::cout << "work vector (col:val):"; for (size_t k = 0; k < cols.size(); ++k) std::cout << " " << cols[k] << ":" << vals[k]; std::cout << "  dia=" << dia << " lp=" << lp << " up=" << up << " tol=" << tol << std::endl;
        int rc = move_to_on(n, dia, cols, vals, lp, up, tol, false);
        if (rc) return rc;
        std::cout << "-- witness input holds on the real code; ";
    } else std::cout << "-- witness not usable; ";
    std::cout << "20000 random work vectors n <= 6" << std::endl;
    for (int t = 0; t < 20000; ++t) {
        const int nn = 1 + rnd() % 6, dd = rnd() % nn;
        std::vector<int> cs; std::vector<double> vs;
        for (int cc = 0; cc < nn; ++cc) if (cc == dd || rnd() % 100 < 60) { cs.push_back(cc); vs.push_back((rnd() % 2 ? -1.0 : 1.0) * (1 + rnd() % 7) * (cc == dd ? 1.0 : 0.5)); }
        for (size_t k = cs.size(); k > 1; --k) { size_t j = rnd() % k; std::swap(cs[k - 1], cs[j]); std::swap(vs[k - 1], vs[j]); }
        int rc = move_to_on(nn, dd, cs, vs, rnd() % 5, rnd() % 5, 0.25 * (rnd() % 12), true);
        if (rc) return rc;
    }
    return 0;
}

int main(int argc, char **argv) {
    if (argc < 3) return 2;
    omp_set_dynamic(0); omp_set_num_threads(1);      // the constructors are deterministic for every thread count; one thread keeps the batteries fast on a busy host
    std::string unit = argv[1];
    Witness w;
    if (!w.load(std::string(argv[2]) + ".in")) { std::cout << "no witness input" << std::endl; return 3; }
    if (unit.compare(0, 9, "iluk_ctor") == 0) return r_iluk_ctor(w);
    if (unit.compare(0, 13, "iluk_row_step") == 0) return r_iluk_row(w, false);
    if (unit.compare(0, 15, "iluk_row_values") == 0) return r_iluk_row(w, true);
    if (unit == "ilup_symb_product") return r_ilup_symb(w);
    if (unit == "ilup_ctor") return r_ilup_ctor(w);
    if (unit == "ilut_move_to") return r_ilut_move_to(w);
    std::cout << "no replay for unit " << unit << std::endl;
    return 3;
}
