// Native replay for units/c07_block_crs.py: block_crs backend (bcrs spmv / block_prod / residual / constructor),
// detail::QR::solve data flow, detail::inverse.  The units use uninterpreted value operations, so a verifier
// counterexample carries STRUCTURE (shapes, row pointers, block columns, which coefficient is zero / one); this
// driver rebuilds that structure on the REAL amgcl templates with generic numeric values and evaluates the same
// postcondition with an independent dense oracle.
#include <cmath>
#include <cstring>
#include <limits>
#include <iostream>
#include <vector>
#include <string>
#include <algorithm>
#include <cstdio>
#include <cstdlib>
#include <fstream>
#include <map>
#include <sstream>
#include <memory>
#include <numeric>
#include <complex>
#include <type_traits>
#include <stdexcept>
#include <array>
#include <tuple>
#include <set>
#include <iterator>
#include <omp.h>
// every standard header first: the access switch below must only affect the amgcl header
#define private public          // QR keeps its workspace (f, tau, q, r) private; the data-flow contract speaks about it
#include <amgcl/detail/qr.hpp>
#undef private
#include <amgcl/detail/inverse.hpp>
#include "witness.hpp"
#include <amgcl/backend/block_crs.hpp>

using namespace amgcl;
typedef backend::bcrs<double, ptrdiff_t, ptrdiff_t> Bcrs;
typedef backend::spmv_impl<double, Bcrs, std::vector<double>, double, std::vector<double> > BcrsSpmv;
static const double NaN = std::numeric_limits<double>::quiet_NaN();

#include <csignal>
#include <unistd.h>
// a crash of the real code on a valid input is a reproduced memory error
static void on_crash(int) {
    const char m[] = "REPRODUCED on the real code: crash (SIGSEGV / abort) on a valid input\n";
    if (write(1, m, sizeof(m) - 1)) {}
    _exit(1);
}
static bool close(double a, double b) { return std::fabs(a - b) <= 1e-12 * (1 + std::fabs(b)); }
static double gen(int k, int salt) { return 0.37 * (k + 1) + 0.11 * salt + 0.013 * ((k * 7 + salt * 3) % 5); }

// ------------------------------------------------------------------------------------------------ block_prod
static int r_block_prod(const Witness &w) {
    // the witness shape first, then every (dim, nx, ny) with dim <= 4 (the witness of an uninterpreted-value unit fixes
    // only the shape; all shapes are cheap natively)
    std::vector<std::vector<int> > shapes;
    if (w.has("w_dim")) { std::vector<int> s(3); s[0] = (int)w.num("w_dim"); s[1] = (int)w.num("w_nx"); s[2] = (int)w.num("w_ny"); shapes.push_back(s); }
    for (int d = 1; d <= 4; ++d) for (int nx = 0; nx <= d; ++nx) for (int ny = 0; ny <= d; ++ny) { std::vector<int> s(3); s[0] = d; s[1] = nx; s[2] = ny; shapes.push_back(s); }
    for (size_t t = 0; t < shapes.size(); ++t) {
        int dim = shapes[t][0], nx = shapes[t][1], ny = shapes[t][2];
        if (dim < 1 || nx < 0 || ny < 0 || nx > dim || ny > dim) continue;
        // windows inside larger buffers with NaN beyond the logical extent: a stray read poisons the result,
        // a stray write is seen in the sentinel cells
        std::vector<double> blk(dim * dim + 4, NaN), x(nx + 4, NaN), y(ny + 4, 7.0), y0;
        for (int k = 0; k < dim * dim; ++k) blk[k] = gen(k, 1);
        for (int k = 0; k < nx; ++k) x[k] = gen(k, 2);
        for (int k = 0; k < ny; ++k) y[k] = gen(k, 3);
        y0 = y;
        double alpha = -2.5;
        BcrsSpmv::block_prod(dim, nx, ny, alpha, blk.data(), x.data(), y.data());
        for (int i = 0; i < ny; ++i) {
            double s = 0;
            for (int j = 0; j < nx; ++j) s += blk[i * dim + j] * x[j];
            double e = y0[i] + alpha * s;
            if (!close(y[i], e)) FAIL("block_prod(dim=" << dim << ", nx=" << nx << ", ny=" << ny << "): y[" << i << "] = " << y[i]
                                      << " but old y + alpha * sum_{j<nx} A[i*dim+j]*x[j] = " << e);
        }
        for (size_t i = ny; i < y.size(); ++i) if (y[i] != y0[i]) FAIL("block_prod(dim=" << dim << ", nx=" << nx << ", ny=" << ny << ") wrote y[" << i << "] beyond ny");
    }
    return 0;
}

// ------------------------------------------------------------------------------------------------ bcrs from a witness
static bool bcrs_from(const Witness &w, Bcrs &A) {
    size_t b = (size_t)w.num("w_bs"), n = (size_t)w.num("w_nrows"), m = (size_t)w.num("w_ncols");
    std::vector<double> p = w.arr("w_ptr"), c = w.arr("w_col");
    if (b < 1 || b > 8) return false;
    size_t br = (n + b - 1) / b, bc = (m + b - 1) / b;
    if (p.size() < br + 1 || p[0] != 0) return false;
    for (size_t i = 0; i < br; ++i) if (p[i + 1] < p[i]) return false;
    size_t nb = (size_t)p[br];
    if (c.size() < nb) return false;
    for (size_t j = 0; j < nb; ++j) if (c[j] < 0 || (size_t)c[j] >= bc) return false;
    A.block_size = b; A.nrows = n; A.ncols = m; A.brows = br; A.bcols = bc;
    A.ptr.assign(br + 1, 0); A.col.assign(nb, 0); A.val.assign(nb * b * b, 0.0);
    for (size_t i = 0; i <= br; ++i) A.ptr[i] = (ptrdiff_t)p[i];
    for (size_t j = 0; j < nb; ++j) A.col[j] = (ptrdiff_t)c[j];
    for (size_t k = 0; k < A.val.size(); ++k) A.val[k] = gen((int)k, 5);
    return true;
}
static std::vector<double> bcrs_dense(const Bcrs &A) {
    std::vector<double> d(A.nrows * A.ncols, 0.0);
    size_t b = A.block_size;
    for (size_t ib = 0; ib < A.brows; ++ib)
        for (ptrdiff_t jb = A.ptr[ib]; jb < A.ptr[ib + 1]; ++jb)
            for (size_t r = 0; r < b; ++r) for (size_t c = 0; c < b; ++c) {
                size_t i = ib * b + r, j = A.col[jb] * b + c;
                if (i < A.nrows && j < A.ncols) d[i * A.ncols + j] += A.val[jb * b * b + r * b + c];
            }
    return d;
}
static void print_bcrs(const Bcrs &A) {
    std::cout << "bcrs: block_size=" << A.block_size << " " << A.nrows << "x" << A.ncols << " block rows:";
    for (size_t ib = 0; ib < A.brows; ++ib) { std::cout << " {"; for (ptrdiff_t j = A.ptr[ib]; j < A.ptr[ib + 1]; ++j) std::cout << (j > A.ptr[ib] ? "," : "") << A.col[j]; std::cout << "}"; }
    std::cout << std::endl;
}
static int spmv_on(const Bcrs &A, double alpha, double beta, bool residual) {
    size_t n = A.nrows, m = A.ncols;
    std::vector<double> d = bcrs_dense(A), x(m), y(n), y0(n), f(n);
    for (size_t j = 0; j < m; ++j) x[j] = gen((int)j, 1);
    for (size_t i = 0; i < n; ++i) { y[i] = y0[i] = gen((int)i, 2); f[i] = gen((int)i, 3); }
    if (residual) {
        for (size_t i = 0; i < n; ++i) y[i] = NaN;
        backend::residual(f, A, x, y);
        for (size_t i = 0; i < n; ++i) { double s = 0; for (size_t j = 0; j < m; ++j) s += d[i * m + j] * x[j];
            if (!close(y[i], f[i] - s)) FAIL("bcrs residual " << n << "x" << m << " block_size=" << A.block_size << " row " << i << ": got " << y[i] << " expected f - A x = " << f[i] - s); }
        return 0;
    }
    if (beta == 0) for (size_t i = 0; i < n; ++i) y[i] = NaN;      // old y must not be read
    backend::spmv(alpha, A, x, beta, y);
    for (size_t i = 0; i < n; ++i) {
        double s = 0; for (size_t j = 0; j < m; ++j) s += d[i * m + j] * x[j];
        double e = beta == 0 ? alpha * s : alpha * s + beta * y0[i];
        if (!close(y[i], e)) FAIL("bcrs spmv(alpha=" << alpha << ", beta=" << beta << ") " << n << "x" << m << " block_size=" << A.block_size << " row " << i
                                  << ": got " << y[i] << " expected alpha*(A x)_i + beta*y0_i = " << e);
    }
    return 0;
}
static Bcrs empty_bcrs() { Crs Z; Z.set_size(0, 0, true); return Bcrs(Z, 1); }

static int r_bcrs_spmv(const Witness &w, bool residual) {
    Bcrs A = empty_bcrs();
    bool have = bcrs_from(w, A);
    if (have) {
        print_bcrs(A);
        double beta = w.num("w_beta_zero") ? 0.0 : (w.num("w_beta_one") ? 1.0 : 0.75);
        int rc = spmv_on(A, -2.5, beta, residual);
        if (rc) return rc;
    }
    // battery: the witness of an uninterpreted-value unit fixes only the structure; sweep the neighbouring structures
    // (every shape up to 2x2 blocks, full block pattern, block sizes 1..4, the three coefficient classes)
    for (int pass = 0; pass < 2; ++pass)      // square shapes first
    for (size_t b = 1; b <= 4; ++b) for (size_t n = 0; n <= 2 * b; ++n) for (size_t m = 0; m <= 2 * b; ++m) {
        if ((n == m) != (pass == 0)) continue;
        Bcrs B = empty_bcrs();
        B.block_size = b; B.nrows = n; B.ncols = m; B.brows = (n + b - 1) / b; B.bcols = (m + b - 1) / b;
        B.ptr.assign(B.brows + 1, 0); B.col.clear();
        for (size_t ib = 0; ib < B.brows; ++ib) { for (size_t jb = 0; jb < B.bcols; ++jb) B.col.push_back((ptrdiff_t)(B.bcols - 1 - jb)); B.ptr[ib + 1] = (ptrdiff_t)B.col.size(); }
        B.val.resize(B.col.size() * b * b);
        for (size_t k = 0; k < B.val.size(); ++k) B.val[k] = gen((int)k, 6);
        double betas[] = {0.0, 1.0, 0.75};
        for (int t = 0; t < 3; ++t) { int rc = spmv_on(B, -2.5, betas[t], residual); if (rc) return rc; if (residual) break; }
    }
    return have ? 0 : 3;
}

// ------------------------------------------------------------------------------------------------ bcrs constructor
static int ctor_on(const Crs &S, size_t b) {
    Bcrs A(S, b);
    size_t n = S.nrows, m = S.ncols;
    if (A.block_size != b || A.nrows != n || A.ncols != m || A.brows != (n + b - 1) / b || A.bcols != (m + b - 1) / b) FAIL("bcrs ctor: header (block_size, nrows, ncols, brows, bcols) wrong");
    if (A.ptr.size() != A.brows + 1 || A.ptr[0] != 0) FAIL("bcrs ctor: ptr does not start at 0 / wrong length");
    for (size_t i = 0; i < A.brows; ++i) if (A.ptr[i] > A.ptr[i + 1]) FAIL("bcrs ctor: ptr not monotone");
    if (A.col.size() != (size_t)A.ptr[A.brows] || A.val.size() != A.col.size() * b * b) FAIL("bcrs ctor: col / val length");
    for (size_t j = 0; j < A.col.size(); ++j) if (A.col[j] < 0 || (size_t)A.col[j] >= A.bcols) FAIL("bcrs ctor: block column out of range");
    for (size_t ib = 0; ib < A.brows; ++ib) for (ptrdiff_t j = A.ptr[ib]; j < A.ptr[ib + 1]; ++j) for (ptrdiff_t k = A.ptr[ib]; k < j; ++k)
        if (A.col[j] == A.col[k]) FAIL("bcrs ctor: block column " << A.col[j] << " stored twice in block row " << ib);
    // dense comparison incl. the padding cells of partial blocks (must be zero) and "block stored iff an entry lies in it"
    std::vector<double> last(n * m, 0.0); std::vector<int> has(n * m, 0);
    for (size_t i = 0; i < n; ++i) for (ptrdiff_t j = S.ptr[i]; j < S.ptr[i + 1]; ++j) { last[i * m + S.col[j]] = S.val[j]; has[i * m + S.col[j]] = 1; }
    for (size_t ib = 0; ib < A.brows; ++ib) for (size_t cb = 0; cb < A.bcols; ++cb) {
        bool any = false;
        for (size_t r = 0; r < b; ++r) for (size_t c = 0; c < b; ++c) { size_t i = ib * b + r, j = cb * b + c; if (i < n && j < m && has[i * m + j]) any = true; }
        ptrdiff_t at = -1;
        for (ptrdiff_t j = A.ptr[ib]; j < A.ptr[ib + 1]; ++j) if ((size_t)A.col[j] == cb) at = j;
        if (any != (at >= 0)) FAIL("bcrs ctor: block (" << ib << "," << cb << ") stored=" << (at >= 0) << " but the source has " << (any ? "an" : "no") << " entry in it");
        if (at >= 0) for (size_t r = 0; r < b; ++r) for (size_t c = 0; c < b; ++c) {
            size_t i = ib * b + r, j = cb * b + c;
            double e = (i < n && j < m) ? last[i * m + j] : 0.0, g = A.val[at * b * b + r * b + c];
            if (!(g == e)) FAIL("bcrs ctor: block (" << ib << "," << cb << ") cell (" << r << "," << c << ") = " << g << " expected " << e);
        }
    }
    return 0;
}
static int r_bcrs_ctor(const Witness &w) {
    std::shared_ptr<Crs> S;
    try { S = crs_from(w, "A"); } catch (...) { std::cout << "witness does not describe a matrix" << std::endl; return 3; }
    size_t b = (size_t)w.num("w_bs", w.num("D_BS", 2));
    if (b < 1) return 3;
    // generic non-zero values (the unit's values are opaque tokens)
    for (ptrdiff_t j = 0; j < S->ptr[S->nrows]; ++j) S->val[j] = gen((int)j, 4);
    print_crs("A", *S); std::cout << "block_size=" << b << std::endl;
    // the real constructor allocates with value-initialisation; prior heap content is simulated by poisoning freed memory
    for (int k = 0; k < 64; ++k) { std::vector<double> junk(64, 1e300); (void)junk; }
    return ctor_on(*S, b);
}

// ------------------------------------------------------------------------------------------------ QR::solve data flow
typedef detail::QR<double> QRd;
static std::vector<double> qr_matrix(int rows, int cols, int salt) {
    std::vector<double> A(rows * cols);
    for (int i = 0; i < rows; ++i) for (int j = 0; j < cols; ++j) A[i * cols + j] = gen(i * cols + j, salt) + (i == j ? 2.0 : 0.0);
    return A;
}
// one solve on a given object (row-major strides), returns x
static std::vector<double> qr_solve_on(QRd &qr, int rows, int cols, int salt) {
    std::vector<double> A = qr_matrix(rows, cols, salt), b(rows), x(cols, NaN);
    for (int i = 0; i < rows; ++i) b[i] = gen(i, salt + 1);
    qr.solve(rows, cols, cols, 1, A.data(), b.data(), x.data(), false);
    return x;
}
static int r_qr_solve(const Witness &w) {
    // witness: the shape of the call under contract (rows, cols); the prior history is a solve of every other shape
    std::vector<std::pair<int, int> > shapes;
    if (w.has("w_rows")) shapes.push_back(std::make_pair((int)w.num("w_rows"), (int)w.num("w_cols")));
    for (int r = 1; r <= 4; ++r) for (int c = 1; c <= 4; ++c) shapes.push_back(std::make_pair(r, c));
    for (size_t t = 0; t < shapes.size(); ++t) {
        int rows = shapes[t].first, cols = shapes[t].second;
        if (rows < 1 || cols < 1 || rows > 8 || cols > 8) continue;
        QRd fresh;
        std::vector<double> xf = qr_solve_on(fresh, rows, cols, 3);
        for (int pr = 1; pr <= 5; ++pr) for (int pc = 1; pc <= 5; ++pc) {
            QRd used;
            qr_solve_on(used, pr, pc, 7);                  // earlier solve on the same object: leaves f, tau behind
            for (size_t k = 0; k < used.f.size(); ++k) if (used.f[k] == 0) used.f[k] = 3.25;   // any content is a legal leftover
            std::vector<double> xu = qr_solve_on(used, rows, cols, 3);
            for (int j = 0; j < cols; ++j)
                if (!(xu[j] == xf[j]))
                    FAIL("QR::solve " << rows << "x" << cols << " on an object that solved a " << pr << "x" << pc << " system before: x[" << j << "] = " << xu[j]
                         << " but a fresh object gives " << xf[j] << " (the result depends on the workspace an earlier solve left behind)");
        }
        // minimum-norm / least-squares sanity of the fresh result: A x = b for wide full-rank systems
        if (rows <= cols) {
            std::vector<double> A = qr_matrix(rows, cols, 3);
            for (int i = 0; i < rows; ++i) { double s = 0; for (int j = 0; j < cols; ++j) s += A[i * cols + j] * xf[j];
                if (std::fabs(s - gen(i, 4)) > 1e-9) FAIL("QR::solve " << rows << "x" << cols << " (fresh object): (A x)[" << i << "] = " << s << " != b = " << gen(i, 4)); }
        }
    }
    return 0;
}

// ------------------------------------------------------------------------------------------------ detail::inverse
static int r_inverse(const Witness &w) {
    for (int n = 1; n <= 4; ++n) for (int variant = 0; variant < 4; ++variant) {
        std::vector<double> A(n * n), A0, t(n * n, NaN);   // workspace poisoned: reading an unwritten cell shows up as NaN
        std::vector<int> p(n, -12345);
        for (int i = 0; i < n; ++i) for (int j = 0; j < n; ++j) A[i * n + j] = gen(i * n + j, variant) + (((i + variant) % n) == j ? 3.0 : 0.0);   // pivots in varying rows
        A0 = A;
        detail::inverse(n, A.data(), t.data(), p.data());
        for (int i = 0; i < n; ++i) for (int j = 0; j < n; ++j) {
            double s = 0; for (int k = 0; k < n; ++k) s += A0[i * n + k] * A[k * n + j];
            if (!(std::fabs(s - (i == j ? 1.0 : 0.0)) <= 1e-9)) FAIL("detail::inverse n=" << n << ": (A * inv(A))(" << i << "," << j << ") = " << s);
        }
    }
    // a well-conditioned block that NEEDS row pivoting, with a tiny entry below the proper pivot in the same column:
    // partial pivoting takes the 3; a pivot search that stops at "some entry larger than the diagonal candidate" takes 1e-13
    {
        const int n = 3;
        double B[9] = {0, 2, 1,   3, 1, 2,   1e-13, 1, 4};
        std::vector<double> A(B, B + 9), A0(A), t(9, NaN); std::vector<int> p(3, -1);
        detail::inverse(n, A.data(), t.data(), p.data());
        for (int i = 0; i < n; ++i) for (int j = 0; j < n; ++j) {
            double s = 0; for (int k = 0; k < n; ++k) s += A0[i * n + k] * A[k * n + j];
            if (!(std::fabs(s - (i == j ? 1.0 : 0.0)) <= 1e-9)) FAIL("detail::inverse, block with first column (0, 3, 1e-13): (A * inv(A))(" << i << "," << j << ") = " << s << " (pivot not the largest candidate)");
        }
    }
    (void)w;
    return 0;
}

int main(int argc, char **argv) {
    if (argc < 3) return 2;
    std::string unit = argv[1];
    Witness w;
    bool have = w.load(std::string(argv[2]) + ".in");
    int rc = 3;
    signal(SIGSEGV, on_crash); signal(SIGABRT, on_crash); signal(SIGBUS, on_crash);
    if (unit == "bcrs_block_prod") rc = r_block_prod(w);
    else if (unit == "bcrs_spmv") rc = r_bcrs_spmv(w, false);
    else if (unit == "bcrs_residual") rc = r_bcrs_spmv(w, true);
    else if (unit.compare(0, 9, "bcrs_ctor") == 0) rc = have ? r_bcrs_ctor(w) : 3;
    else if (unit.compare(0, 8, "qr_solve") == 0) rc = r_qr_solve(w);
    else if (unit.compare(0, 13, "dense_inverse") == 0) rc = r_inverse(w);
    else std::cout << "no replay for unit " << unit << std::endl;
    if (rc == 0) std::cout << "no failing input found on the real code" << std::endl;
    return rc;
}
