// native replay of the relaxation units (C09 schedules, C06 sweeps) against the REAL amgcl code.
// The schedule tables of gauss_seidel::parallel_sweep / ilu_solve::sptr_solve are private members:
// this test driver reads them through "#define private public" (no change to /repo).
#include "witness.hpp"
#include <algorithm>
#include <numeric>
#include <omp.h>
#define private public
#include <amgcl/relaxation/gauss_seidel.hpp>
#include <amgcl/relaxation/detail/ilu_solve.hpp>
#include <amgcl/relaxation/spai0.hpp>
#include <amgcl/relaxation/ilu0.hpp>
#undef private
using namespace amgcl;

typedef backend::builtin<double, ptrdiff_t, ptrdiff_t> Backend;
typedef relaxation::gauss_seidel<Backend> GSeidel;
typedef relaxation::detail::ilu_solve<Backend> IluSolve;

static void set_threads(int nt) { omp_set_dynamic(0); omp_set_num_threads(nt); }

// ---------------------------------------------------------------------------------------------
// independent oracle for the observable schedule (same statement as units/c09_schedules.py (b))
// mode: 0 = Gauss-Seidel forward, 1 = Gauss-Seidel backward, 2 = lower solve, 3 = upper solve
template <class S>
static const std::vector< std::vector<double> >* d_of(const S &, long) { return 0; }
template <class S>
static auto d_of(const S &P, int) -> decltype(&P.D) { return &P.D; }

template <class S>
static int check_schedule(const S &P, const Crs &A, int nt, int mode, const double *Dg, std::string &why, bool print = true)
{
    const ptrdiff_t n = A.nrows;
    std::ostringstream os;
    if (P.nthreads != nt) { os << "nthreads = " << P.nthreads << " != omp_get_max_threads() = " << nt; why = os.str(); return 1; }
    std::vector<ptrdiff_t> lv(n, -1), cnt(n, 0);
    if (print) {
        std::cout << "  schedule (" << nt << " threads):";
        for (int t = 0; t < nt; ++t) {
            std::cout << " T" << t << "[";
            for (size_t k = 0; k < P.tasks[t].size(); ++k) {
                std::cout << (k ? " | " : "");
                for (ptrdiff_t r = P.tasks[t][k].beg; r < P.tasks[t][k].end && r < (ptrdiff_t)P.ord[t].size(); ++r) std::cout << (r > P.tasks[t][k].beg ? "," : "") << P.ord[t][r];
            }
            std::cout << "]";
        }
        std::cout << "   (rows per level, levels separated by |)" << std::endl;
    }
    for (int t = 0; t < nt; ++t) {
        if (P.tasks[t].size() != P.tasks[0].size()) { os << "S3: thread " << t << " has " << P.tasks[t].size() << " tasks, thread 0 has " << P.tasks[0].size() << " (unequal barrier counts)"; why = os.str(); return 1; }
        if (P.ptr[t].size() != P.ord[t].size() + 1) { os << "S3: ptr[" << t << "].size() != ord.size()+1"; why = os.str(); return 1; }
        ptrdiff_t next = 0;
        for (size_t k = 0; k < P.tasks[t].size(); ++k) {
            ptrdiff_t b = P.tasks[t][k].beg, e = P.tasks[t][k].end;
            if (!(b == next && b <= e && e <= (ptrdiff_t)P.ord[t].size())) { os << "S3: task " << k << " of thread " << t << " = [" << b << "," << e << ") is not the next consecutive range of its " << P.ord[t].size() << " packed rows (expected begin " << next << ")"; why = os.str(); return 1; }
            next = e;
            for (ptrdiff_t r = b; r < e; ++r) {
                ptrdiff_t i = P.ord[t][r];
                if (i < 0 || i >= n) { os << "S3: row id " << i << " out of range"; why = os.str(); return 1; }
                cnt[i]++; lv[i] = (ptrdiff_t)k;
            }
        }
        if (next != (ptrdiff_t)P.ord[t].size()) { os << "S3: packed rows of thread " << t << " beyond its last task"; why = os.str(); return 1; }
    }
    for (ptrdiff_t i = 0; i < n; ++i)
        if (cnt[i] != 1) { os << "S2/S3: row " << i << " occurs in " << cnt[i] << " (level, thread) ranges"; why = os.str(); return 1; }
    const bool fwd = (mode == 0 || mode == 2);
    for (ptrdiff_t i = 0; i < n; ++i)
        for (ptrdiff_t j = A.ptr[i]; j < A.ptr[i + 1]; ++j) {
            ptrdiff_t c = A.col[j];
            if (c == i) continue;
            bool before = fwd ? (c < i) : (c > i);
            if (before && !(lv[c] < lv[i])) { os << "S1: entry (" << i << "," << c << "): row " << c << " is swept before row " << i << " but level(" << c << ")=" << lv[c] << " is not below level(" << i << ")=" << lv[i]; why = os.str(); return 1; }
            if (!before && !(lv[c] > lv[i])) { os << "S1: entry (" << i << "," << c << "): row " << i << " reads x[" << c << "] which row " << c << " writes later in the serial sweep, but level(" << c << ")=" << lv[c] << " is not above level(" << i << ")=" << lv[i] << (lv[c] == lv[i] ? " -- same level: the two rows race" : " -- row c is updated before row i reads it"); why = os.str(); return 1; }
        }
    const std::vector< std::vector<double> > *PD = d_of(P, 0);
    for (int t = 0; t < nt; ++t) {
        if (P.ptr[t].empty() || P.ptr[t][0] != 0 || P.col[t].size() != P.val[t].size() || (size_t)P.ptr[t].back() != P.col[t].size()) { os << "S4: packed ptr/col/val of thread " << t << " inconsistent"; why = os.str(); return 1; }
        if (mode == 3 && (!PD || PD->size() != (size_t)nt || (*PD)[t].size() != P.ord[t].size())) { os << "S4: D[" << t << "] has wrong size"; why = os.str(); return 1; }
        for (size_t r = 0; r < P.ord[t].size(); ++r) {
            ptrdiff_t i = P.ord[t][r], b = P.ptr[t][r], e = P.ptr[t][r + 1];
            if (e - b != A.ptr[i + 1] - A.ptr[i]) { os << "S4: packed row " << r << " of thread " << t << " (row " << i << ") has " << e - b << " entries, A has " << A.ptr[i + 1] - A.ptr[i]; why = os.str(); return 1; }
            if (mode == 3 && Dg && (*PD)[t][r] != Dg[i]) { os << "S4: D[" << t << "][" << r << "] = " << (*PD)[t][r] << " != D[" << i << "] = " << Dg[i]; why = os.str(); return 1; }
            for (ptrdiff_t k = 0; k < e - b; ++k)
                if (P.col[t][b + k] != A.col[A.ptr[i] + k] || P.val[t][b + k] != A.val[A.ptr[i] + k]) { os << "S4: packed entry " << k << " of row " << i << " (thread " << t << ") = (" << P.col[t][b + k] << "," << P.val[t][b + k] << ") != (" << A.col[A.ptr[i] + k] << "," << A.val[A.ptr[i] + k] << ")"; why = os.str(); return 1; }
        }
    }
    return 0;
}

// Supplementary semantic confirmation for Gauss-Seidel: execute the tables level by level (barrier
// semantics) with the threads of a level taken in DESCENDING order -- one of the interleavings the
// barriers permit -- and compare with the serial sweep of the real code.  Synthetic values.
template <class S>
static bool gs_interleaving_deviates(const S &P, const Crs &A0, bool fwd, int nt)
{
    Crs A(A0);
    const ptrdiff_t n = A.nrows;
    for (ptrdiff_t i = 0; i < n; ++i) for (ptrdiff_t j = A.ptr[i]; j < A.ptr[i + 1]; ++j) A.val[j] = (A.col[j] == i) ? 2.0 : 1.0;
    S Q(A);
    std::vector<double> f(n), xs(n), xp(n);
    for (ptrdiff_t i = 0; i < n; ++i) { f[i] = i + 1; xs[i] = xp[i] = 10.0 * (i + 1); }
    GSeidel::serial_sweep(A, f, xs, fwd);
    size_t nlev = Q.tasks[0].size();
    for (size_t k = 0; k < nlev; ++k)
        for (int t = nt - 1; t >= 0; --t) {
            if (k >= Q.tasks[t].size()) continue;
            for (ptrdiff_t r = Q.tasks[t][k].beg; r < Q.tasks[t][k].end; ++r) {
                ptrdiff_t i = Q.ord[t][r];
                double D = 1, X = f[i];
                for (ptrdiff_t j = Q.ptr[t][r]; j < Q.ptr[t][r + 1]; ++j) { if (Q.col[t][j] == i) D = Q.val[t][j]; else X -= Q.val[t][j] * xp[Q.col[t][j]]; }
                xp[i] = X / D;
            }
        }
    bool dev = false;
    for (ptrdiff_t i = 0; i < n; ++i) if (xs[i] != xp[i]) dev = true;
    if (dev) {
        std::cout << "  interleaving check (values: diag 2, off-diag 1, f_i = i+1, x_i = 10(i+1)): serial sweep x =";
        for (ptrdiff_t i = 0; i < n; ++i) std::cout << " " << xs[i];
        std::cout << " ; level-by-level execution with threads in descending order x =";
        for (ptrdiff_t i = 0; i < n; ++i) std::cout << " " << xp[i];
        std::cout << std::endl;
    }
    return dev;
}

static bool strict_tri(const Crs &A, bool lower) {
    for (size_t i = 0; i < A.nrows; ++i) for (ptrdiff_t j = A.ptr[i]; j < A.ptr[i + 1]; ++j)
        if (lower ? !(A.col[j] < (ptrdiff_t)i) : !(A.col[j] > (ptrdiff_t)i)) return false;
    return true;
}

// run the real constructor on A with nt threads and check the observable schedule
static int run_schedule(const Crs &A, int mode, int nt, const std::vector<double> &D)
{
    set_threads(nt);
    std::string why;
    int rc = 0;
    if (mode == 0) { GSeidel::parallel_sweep<true> P(A); rc = check_schedule(P, A, nt, mode, 0, why); if (rc) gs_interleaving_deviates(P, A, true, nt); }
    else if (mode == 1) { GSeidel::parallel_sweep<false> P(A); rc = check_schedule(P, A, nt, mode, 0, why); if (rc) gs_interleaving_deviates(P, A, false, nt); }
    else if (mode == 2) { IluSolve::sptr_solve<true> P(A, D.data()); rc = check_schedule(P, A, nt, mode, D.data(), why); }
    else { IluSolve::sptr_solve<false> P(A, D.data()); rc = check_schedule(P, A, nt, mode, D.data(), why); }
    if (rc) FAIL("schedule with " << nt << " threads: " << why);
    return 0;
}

static int r_schedule(const Witness &w, int mode, bool derived)
{
    std::shared_ptr<Crs> A;
    if (derived && w.has("w_start") && w.has("w_nlev")) {
        // step-3 witness: (start, nlev) are not constructor inputs; derive a matrix whose levels have
        // exactly these sizes: rows of level l are start[l]..start[l+1]-1, each depends on one row of level l-1
        std::vector<double> st = w.arr("w_start");
        ptrdiff_t nlev = (ptrdiff_t)w.num("w_nlev");
        ptrdiff_t n = nlev >= 0 && nlev < (ptrdiff_t)st.size() ? (ptrdiff_t)st[nlev] : 0;
        A = std::make_shared<Crs>();
        A->set_size(n, n, true);
        std::vector<ptrdiff_t> lev(n, 0);
        for (ptrdiff_t l = 0; l < nlev; ++l) for (ptrdiff_t k = (ptrdiff_t)st[l]; k < (ptrdiff_t)st[l + 1]; ++k) lev[k] = l;
        // forward-type (modes 0,2): row index ascending with level; backward-type: mirrored
        const bool fwd = (mode == 0 || mode == 2);
        std::vector<ptrdiff_t> rowlev(n);
        for (ptrdiff_t i = 0; i < n; ++i) rowlev[i] = fwd ? lev[i] : lev[n - 1 - i];
        std::vector<ptrdiff_t> cols(n, -1);
        for (ptrdiff_t i = 0; i < n; ++i) if (rowlev[i] > 0) {
            for (ptrdiff_t c = 0; c < n; ++c) if (rowlev[c] == rowlev[i] - 1) { cols[i] = c; if (fwd) break; }
        }
        for (ptrdiff_t i = 0; i < n; ++i) A->ptr[i + 1] = A->ptr[i] + (cols[i] >= 0 ? 1 : 0) + (mode < 2 ? 1 : 0);
        A->set_nonzeros(A->ptr[n]);
        for (ptrdiff_t i = 0, h = 0; i < n; ++i) {
            if (mode < 2) {   // symmetric pattern for Gauss-Seidel so that only the task split is under test
                if (cols[i] >= 0 && cols[i] < i) { A->col[h] = cols[i]; A->val[h++] = -1; }
                A->col[h] = i; A->val[h++] = 4;
                if (cols[i] >= 0 && cols[i] > i) { A->col[h] = cols[i]; A->val[h++] = -1; }
            } else if (cols[i] >= 0) { A->col[h] = cols[i]; A->val[h++] = -1; }
        }
        std::cout << "derived input (levels of sizes given by the witness start[]):" << std::endl;
    } else {
        A = crs_from(w, "A");
    }
    print_crs("A", *A);
    if (A->nrows != A->ncols) { std::cout << "not square" << std::endl; return 3; }
    if (mode >= 2 && !strict_tri(*A, mode == 2)) { std::cout << "witness not strictly triangular" << std::endl; return 3; }
    std::vector<double> D = w.arr("w_D");
    D.resize(A->nrows + 1, 0.5);
    std::vector<int> nts;
    if (w.has("D_NT") && !w.has("w_nt") && !derived) nts.push_back((int)w.num("D_NT"));
    else if (w.has("w_nt")) nts.push_back((int)w.num("w_nt"));
    else { nts.push_back(4); nts.push_back(3); nts.push_back(2); nts.push_back(1); }
    for (size_t k = 0; k < nts.size(); ++k) { int rc = run_schedule(*A, mode, nts[k], D); if (rc) return rc; }
    return 0;
}

// C06 gauss_seidel::serial_sweep: pattern (and direction) from the witness, synthetic values (the
// verifier's values are uninterpreted tokens); oracle = the defining formula evaluated independently
static int r_serial_sweep(const Witness &w)
{
    std::shared_ptr<Crs> A = crs_from(w, "A");
    const ptrdiff_t n = A->nrows;
    for (ptrdiff_t i = 0; i < n; ++i) for (ptrdiff_t j = A->ptr[i]; j < A->ptr[i + 1]; ++j) A->val[j] = (A->col[j] == i) ? 4.0 + i : 1.0 + 0.25 * j;
    print_crs("A", *A);
    std::vector<int> dirs;
    if (w.has("w_forward")) dirs.push_back((int)w.num("w_forward")); else { dirs.push_back(1); dirs.push_back(0); }
    for (size_t d = 0; d < dirs.size(); ++d) {
        const bool fwd = dirs[d] != 0;
        std::vector<double> f(n), x(n), xe(n);
        for (ptrdiff_t i = 0; i < n; ++i) { f[i] = 1.0 + i; x[i] = xe[i] = 10.0 + 3 * i; }
        for (ptrdiff_t k = 0; k < n; ++k) {
            ptrdiff_t i = fwd ? k : n - 1 - k;
            double aii = 1.0, X = f[i];
            for (ptrdiff_t j = A->ptr[i]; j < A->ptr[i + 1]; ++j) { if (A->col[j] == i) aii = A->val[j]; else X = X - A->val[j] * xe[A->col[j]]; }
            xe[i] = (1.0 / aii) * X;
        }
        GSeidel::serial_sweep(*A, f, x, fwd);
        for (ptrdiff_t i = 0; i < n; ++i)
            if (x[i] != xe[i]) FAIL("serial_sweep(" << (fwd ? "forward" : "backward") << "): x[" << i << "] = " << x[i] << " but inverse(a_ii)*(f_i - sum a_ic x_c) = " << xe[i]);
    }
    return 0;
}

int main(int argc, char **argv) {
    if (argc < 3) return 2;
    std::string unit = argv[1];
    Witness w;
    if (!w.load(std::string(argv[2]) + ".in")) { std::cout << "no witness input" << std::endl; return 3; }
    if (unit == "gs_levels_fwd" || unit == "gs_schedule_fwd") return r_schedule(w, 0, false);
    if (unit == "gs_levels_bwd" || unit == "gs_schedule_bwd") return r_schedule(w, 1, false);
    if (unit == "sptr_levels_lower" || unit == "sptr_schedule_lower" || unit == "sptr_pack_lower") return r_schedule(w, 2, false);
    if (unit == "sptr_levels_upper" || unit == "sptr_schedule_upper" || unit == "sptr_pack_upper") return r_schedule(w, 3, false);
    if (unit == "gs_pack") { int rc = r_schedule(w, 0, false); return rc ? rc : r_schedule(w, 1, false); }
    if (unit == "gs_tasks") { int rc = r_schedule(w, 0, true); return rc ? rc : r_schedule(w, 1, true); }
    if (unit == "sptr_tasks") { int rc = r_schedule(w, 2, true); return rc ? rc : r_schedule(w, 3, true); }
    if (unit == "gs_serial_sweep") return r_serial_sweep(w);
    std::cout << "no replay for unit " << unit << std::endl;
    return 3;
}
