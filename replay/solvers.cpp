// Native demonstration / replay driver for the iterative-solver units (units/c01_solvers2.py).
// Invoked as  <exe> <unit_name> <replay.json>.  The typestate proofs have no numeric witness, so
// this driver runs the REAL amgcl solver templates (builtin backend, identity preconditioner) on a
// tiny SPD system over a small battery of configurations and evaluates C01's clause
//   reported residual == ||rhs - A x|| / ||rhs||  of the returned x   (right preconditioning)
// with an independent dense recomputation.
// exit 1 + "REPRODUCED ..." : the real code reports a residual that is not the residual of the returned x
// exit 0                    : reported and true residual agree on every configuration tried
// exit 3                    : unit not handled here
#include <cmath>
#include <cstdio>
#include <iostream>
#include <string>
#include <tuple>
#include <vector>

#include <amgcl/backend/builtin.hpp>
#include <amgcl/adapter/crs_tuple.hpp>
#include <amgcl/preconditioner/dummy.hpp>
#include <amgcl/relaxation/as_preconditioner.hpp>
#include <amgcl/relaxation/damped_jacobi.hpp>
#include <amgcl/solver/bicgstab.hpp>
#include <amgcl/solver/bicgstabl.hpp>
#include <amgcl/solver/gmres.hpp>
#include <amgcl/solver/fgmres.hpp>
#include <amgcl/solver/lgmres.hpp>
#include <amgcl/solver/idrs.hpp>

typedef amgcl::backend::builtin<double> Backend;
typedef amgcl::preconditioner::dummy<Backend> Precond;

struct System {
    int n;
    std::vector<ptrdiff_t> ptr, col;
    std::vector<double> val, rhs;
    // 1D Poisson (2 on the diagonal, -1 off), rhs = 1
    explicit System(int n) : n(n), rhs(n, 1.0) {
        ptr.push_back(0);
        for (int i = 0; i < n; ++i) {
            if (i > 0) { col.push_back(i - 1); val.push_back(-1.0); }
            col.push_back(i); val.push_back(2.0);
            if (i + 1 < n) { col.push_back(i + 1); val.push_back(-1.0); }
            ptr.push_back((ptrdiff_t)col.size());
        }
    }
    // independent oracle: ||rhs - A x|| / ||rhs||, plain loops over the CRS arrays in long double
    double true_relres(const std::vector<double> &x) const {
        long double rr = 0, ff = 0;
        for (int i = 0; i < n; ++i) {
            long double s = rhs[i];
            for (ptrdiff_t j = ptr[i]; j < ptr[i + 1]; ++j) s -= (long double)val[j] * x[col[j]];
            rr += s * s; ff += (long double)rhs[i] * rhs[i];
        }
        return (double)std::sqrt(rr / ff);
    }
};

static int bad = 0;

template <class Solver>
void run(const char *what, const System &S, const typename Solver::params &prm, const std::vector<double> &x0) {
    auto A = std::make_shared<amgcl::backend::crs<double> >(std::tie(S.n, S.ptr, S.col, S.val));
    Precond P(*A);
    Solver solve(S.n, prm);
    std::vector<double> x = x0;
    size_t iters; double resid;
    try {
        std::tie(iters, resid) = solve(*A, P, S.rhs, x);
    } catch (const std::exception &e) {
        std::cout << what << ": threw " << e.what() << " (not a residual claim)" << std::endl;
        return;
    }
    double t = S.true_relres(x);
    // a diverged solve (non-finite x) reporting a non-finite residual is truthful (C10: "a truthfully reported non-converged
    // (possibly non-finite) residual"); a finite report for a non-finite residual is not
    bool ok = (!std::isfinite(resid) && !std::isfinite(t)) || std::fabs(resid - t) <= 1e-8 * std::max(1.0, t);
    std::cout << what << ": iters=" << iters << " reported=" << resid << " true=" << t << (ok ? "" : "   <-- MISMATCH") << std::endl;
    if (!ok) ++bad;
    if (iters > (size_t)prm.maxiter) { std::cout << what << ": iteration count " << iters << " exceeds the budget maxiter = " << prm.maxiter << "   <-- MISMATCH" << std::endl; ++bad; }
}

template <class Solver>
void battery(const char *name, bool has_side) {
    System S(8);
    std::vector<double> zero(S.n, 0.0), guess(S.n, 0.25);
    for (int k = 0; k < 3; ++k) {
        typename Solver::params prm;
        prm.tol = (k == 0 ? 1e-10 : 0.0);
        prm.abstol = (k == 0 ? prm.abstol : 0.0);
        prm.maxiter = (k == 2 ? 0 : 50);
        std::string w = std::string(name) + (k == 0 ? " tol=1e-10" : k == 1 ? " tol=abstol=0 maxiter=50" : " tol=abstol=0 maxiter=0");
        run<Solver>((w + " x0=0").c_str(), S, prm, zero);
        run<Solver>((w + " x0=0.25").c_str(), S, prm, guess);
    }
    (void)has_side;
}


// left preconditioning with a NON-scalar preconditioner (Jacobi on a matrix whose rows are scaled by 1, 2, ..., n):
// C01: the number reported is the norm of the PRECONDITIONED residual P (rhs - A x) of the returned x over ||rhs||;
// C05: restart length >= n: the method terminates within n inner iterations (exact arithmetic), i.e. the true residual is tiny.
template <class Solver>
void left_battery(const char *name) {
    typedef amgcl::relaxation::as_preconditioner<Backend, amgcl::relaxation::damped_jacobi> Jacobi;
    System S(8);
    for (int i = 0; i < S.n; ++i) { for (ptrdiff_t j = S.ptr[i]; j < S.ptr[i + 1]; ++j) S.val[j] *= (i + 1); S.rhs[i] *= (i + 1); }
    auto A = std::make_shared<amgcl::backend::crs<double> >(std::tie(S.n, S.ptr, S.col, S.val));
    Jacobi::params jp; jp.damping = 1.0;
    Jacobi P(*A, jp);
    for (int g = 0; g < 2; ++g) {
        typename Solver::params prm;
        prm.pside = amgcl::preconditioner::side::left; prm.M = S.n; prm.maxiter = S.n; prm.tol = 0; prm.abstol = 0;
        Solver solve(S.n, prm);
        std::vector<double> x(S.n, g ? 0.25 : 0.0);
        size_t iters; double resid;
        try { std::tie(iters, resid) = solve(*A, P, S.rhs, x); }
        catch (const std::exception &e) { std::cout << name << " left: threw " << e.what() << std::endl; continue; }
        long double pr = 0, ff = 0;
        for (int i = 0; i < S.n; ++i) {
            long double r = S.rhs[i], d = 1;
            for (ptrdiff_t j = S.ptr[i]; j < S.ptr[i + 1]; ++j) { r -= (long double)S.val[j] * x[S.col[j]]; if (S.col[j] == i) d = S.val[j]; }
            pr += (r / d) * (r / d); ff += (long double)S.rhs[i] * S.rhs[i];
        }
        double prec = (double)std::sqrt(pr / ff), t = S.true_relres(x);
        bool ok = std::fabs(resid - prec) <= 1e-8 * std::max(1.0, prec) && t <= 1e-8;
        std::cout << name << " pside=left Jacobi M=maxiter=n=8 x0=" << (g ? 0.25 : 0.0) << ": iters=" << iters << " reported=" << resid
                  << " preconditioned residual of the returned x=" << prec << " true residual=" << t << (ok ? "" : "   <-- MISMATCH (reported != ||P(f - Ax)||/||f||, or no termination within n iterations)") << std::endl;
        if (!ok) ++bad;
    }
}

int main(int argc, char **argv) {
    if (argc < 2) { std::cerr << "usage: solvers <unit> <replay.json>" << std::endl; return 3; }
    std::string unit = argv[1];
    std::cout.precision(12);
    if (unit == "solver_bicgstab_check_after" || unit == "solver_bicgstab") {
        typedef amgcl::solver::bicgstab<Backend> S;
        bool ca = (unit == "solver_bicgstab_check_after");
        System sys(8);
        std::vector<double> zero(sys.n, 0.0), guess(sys.n, 0.25);
        for (int k = 0; k < 3; ++k) {
            S::params prm;
            prm.check_after = ca;
            prm.tol = (k == 0 ? 1e-10 : 0.0);
            if (k > 0) prm.abstol = 0.0;
            prm.maxiter = (k == 2 ? 0 : 50);
            std::string w = std::string(ca ? "bicgstab check_after=true" : "bicgstab check_after=false")
                + (k == 0 ? " tol=1e-10" : k == 1 ? " tol=abstol=0 maxiter=50" : " tol=1e-10->0 maxiter=0");
            run<S>((w + " x0=0").c_str(), sys, prm, zero);
            run<S>((w + " x0=0.25").c_str(), sys, prm, guess);
        }
        {   // check_after with a positive tolerance but no budget
            S::params prm; prm.check_after = ca; prm.tol = 1e-6; prm.maxiter = 0;
            run<S>(ca ? "bicgstab check_after=true tol=1e-6 maxiter=0 x0=0" : "bicgstab check_after=false tol=1e-6 maxiter=0 x0=0", sys, prm, zero);
        }
    } else if (unit == "solver_gmres") {
        battery<amgcl::solver::gmres<Backend> >("gmres", true);
        left_battery<amgcl::solver::gmres<Backend> >("gmres");
    } else if (unit == "solver_fgmres") {
        battery<amgcl::solver::fgmres<Backend> >("fgmres", false);
    } else if (unit == "solver_lgmres") {
        battery<amgcl::solver::lgmres<Backend> >("lgmres", true);
        left_battery<amgcl::solver::lgmres<Backend> >("lgmres");
    } else if (unit == "solver_idrs") {
        battery<amgcl::solver::idrs<Backend> >("idrs", false);
    } else if (unit == "solver_bicgstabl") {
        battery<amgcl::solver::bicgstabl<Backend> >("bicgstabl", true);
    } else {
        std::cout << "unit " << unit << " has no native demonstration" << std::endl;
        return 3;
    }
    if (bad) {
        std::cout << "REPRODUCED C01: " << bad << " configuration(s) where the reported residual is not ||rhs - A x|| / ||rhs|| of the returned x" << std::endl;
        return 1;
    }
    std::cout << "reported residual equals the recomputed one on every configuration" << std::endl;
    return 0;
}
