// native replay of the units of units/c06_kernels.py against the REAL amgcl templates.
// Private members (skyline_lu::L/U/D/ptr/perm/factorize, ilu_solve::serial_solve / sptr_solve,
// gauss_seidel::parallel_sweep tables, ilu0::ilu, spai0::M, chebyshev members) are read through
// "#define private public" in this test driver only (no change to /repo).
#define _GLIBCXX_ASSERTIONS 1
#include <csignal>
#include <unistd.h>
#include <algorithm>
#include <vector>
#include <cstdio>
#include <cstdlib>
#include <fstream>
#include <iostream>
#include <map>
#include <sstream>
#include <string>
#include <cmath>
#include <memory>
#include <numeric>
#include <complex>
#include <type_traits>
#include <stdexcept>
#include <array>
#include <tuple>
#include <set>
#include <list>
#include <deque>
#include <iterator>
#include <limits>
#include <functional>
#include <random>
#include <cassert>
#include <omp.h>
#define private public
#include <amgcl/backend/builtin.hpp>
#include <amgcl/value_type/static_matrix.hpp>
#include <amgcl/solver/skyline_lu.hpp>
#include <amgcl/relaxation/gauss_seidel.hpp>
#include <amgcl/relaxation/detail/ilu_solve.hpp>
#include <amgcl/relaxation/spai0.hpp>
#include <amgcl/relaxation/ilu0.hpp>
#include <amgcl/relaxation/chebyshev.hpp>
#undef private
#include "witness.hpp"
using namespace amgcl;

static void on_abort(int) {
    const char m[] = "REPRODUCED on the real code: abort (libstdc++ assertion: container subscript out of range or null smart-pointer dereference)\n";
    if (write(1, m, sizeof(m) - 1)) {}
    _exit(1);
}
static void arm() { signal(SIGABRT, on_abort); }
static void set_threads(int nt) { omp_set_dynamic(0); omp_set_num_threads(nt); }

// ---------------------------------------------------------------------------------------------
// 1. skyline_lu::factorize with NON-COMMUTING values (2x2 blocks): the unit's value operations are
// uninterpreted, i.e. order-sensitive; the native counterpart of "order-sensitive" is a block value
// type.  Oracle (independent of the recurrence text): the property itself, L*U == A cell by cell
// with L(k,k) = inverse(D[k]) and unit diagonal of U.
typedef static_matrix<double, 2, 2> Blk;
static std::vector<int> g_wperm;
struct witness_ordering {
    template <class Matrix, class Vector>
    static void get(const Matrix &, Vector &perm) { for (size_t i = 0; i < g_wperm.size() && i < perm.size(); ++i) perm[i] = g_wperm[i]; }
};
typedef solver::skyline_lu<Blk, witness_ordering> SkyB;

static Blk blk(double a, double b, double c, double d) { Blk m; m(0,0) = a; m(0,1) = b; m(1,0) = c; m(1,1) = d; return m; }
static double blk_dist(const Blk &a, const Blk &b) { double s = 0; for (int i = 0; i < 4; ++i) s = std::max(s, std::fabs(a(i) - b(i))); return s; }

static int r_sky_values3(const Witness &w) {
    size_t n = (size_t)w.num("w_n");
    std::vector<double> pt = w.arr("w_ptr"), pm = w.arr("w_perm");
    if (n == 0 || pt.size() < n + 1 || pm.size() < n || pt[0] != 0) { std::cout << "witness does not describe a skyline object" << std::endl; return 3; }
    for (size_t i = 0; i < n; ++i) if (pt[i + 1] < pt[i] || pt[i + 1] - pt[i] > (double)i) { std::cout << "witness profile not well-formed" << std::endl; return 3; }
    // a real object (1x1 block matrix through the real constructor), then the witness structure
    backend::crs<Blk, ptrdiff_t, ptrdiff_t> one; one.set_size(1, 1, true); one.ptr[1] = 1; one.set_nonzeros(1); one.col[0] = 0; one.val[0] = blk(1, 0, 0, 1);
    g_wperm.assign(1, 0);
    SkyB S(one);
    S.n = (int)n; S.perm.resize(n); S.ptr.resize(n + 1);
    for (size_t i = 0; i < n; ++i) S.perm[i] = (int)pm[i];
    for (size_t i = 0; i <= n; ++i) S.ptr[i] = (int)pt[i];
    size_t m = (size_t)S.ptr[n];
    S.L.resize(m); S.U.resize(m); S.D.resize(n); S.y.resize(n);
    // generic non-commuting blocks, dominant diagonal
    for (size_t k = 0; k < m; ++k) { S.L[k] = blk(0.5 + 0.125 * k, 0.25, -0.375, 0.75 + 0.0625 * k); S.U[k] = blk(0.25, -0.5 + 0.125 * k, 0.625, 0.125 + 0.25 * k); }
    for (size_t i = 0; i < n; ++i) S.D[i] = blk(8.0 + i, 1.0, -2.0 + i, 9.0 + 0.5 * i);
    std::cout << "n=" << n << " ptr:"; for (size_t i = 0; i <= n; ++i) std::cout << " " << S.ptr[i]; std::cout << "  (2x2 block values)" << std::endl;
    // dense copy of the (reordered) matrix held by the profile
    std::vector<Blk> A(n * n, math::zero<Blk>());
    for (size_t k = 0; k < n; ++k) {
        A[k * n + k] = S.D[k];
        int h = S.ptr[k + 1] - S.ptr[k];
        for (int d = 1; d <= h; ++d) { A[(k - d) * n + k] = S.U[S.ptr[k + 1] - d]; A[k * n + (k - d)] = S.L[S.ptr[k + 1] - d]; }
    }
    arm();
    try { S.factorize(); } catch (const std::exception &e) { FAIL("factorize threw although every pivot is non-singular: " << e.what()); }
    std::vector<Blk> Lf(n * n, math::zero<Blk>()), Uf(n * n, math::zero<Blk>());
    for (size_t k = 0; k < n; ++k) {
        Lf[k * n + k] = math::inverse(S.D[k]); Uf[k * n + k] = math::identity<Blk>();
        int h = S.ptr[k + 1] - S.ptr[k];
        for (int d = 1; d <= h; ++d) { Uf[(k - d) * n + k] = S.U[S.ptr[k + 1] - d]; Lf[k * n + (k - d)] = S.L[S.ptr[k + 1] - d]; }
    }
    for (size_t i = 0; i < n; ++i) for (size_t j = 0; j < n; ++j) {
        Blk s = math::zero<Blk>();
        for (size_t k = 0; k < n; ++k) s += Lf[i * n + k] * Uf[k * n + j];
        double e = blk_dist(s, A[i * n + j]);
        if (!(e <= 1e-10)) FAIL("skyline_lu::factorize with 2x2 block values: (L*U)(" << i << "," << j << ") differs from A(" << i << "," << j << ") by " << e << " (the factors do not multiply back to A)");
    }
    return 0;
}

// ---------------------------------------------------------------------------------------------
// 2. ilu_solve<builtin>::serial_solve: patterns of L and U from the witness, synthetic values (the verifier's
// values are uninterpreted tokens); oracle = the two triangular solves on SEPARATE vectors (definition)
typedef backend::builtin<double, ptrdiff_t, ptrdiff_t> Backend;
typedef relaxation::detail::ilu_solve<Backend> IluSolve;
typedef relaxation::gauss_seidel<Backend> GSeidel;

static bool strict_tri(const Crs &A, bool lower) {
    for (size_t i = 0; i < A.nrows; ++i) for (ptrdiff_t j = A.ptr[i]; j < A.ptr[i + 1]; ++j)
        if (lower ? !(A.col[j] < (ptrdiff_t)i) : !(A.col[j] > (ptrdiff_t)i)) return false;
    return true;
}
static void synth_values(Crs &A, double base) {
    for (ptrdiff_t j = 0; j < A.ptr[A.nrows]; ++j) A.val[j] = base + 0.125 * j;
}
static int r_ilu_serial_solve(const Witness &w) {
    std::shared_ptr<Crs> L, U;
    try { L = crs_from(w, "L"); U = crs_from(w, "U"); } catch (...) { std::cout << "witness does not describe two matrices" << std::endl; return 3; }
    const size_t n = L->nrows;
    if (U->nrows != n || L->ncols != n || U->ncols != n || !strict_tri(*L, true) || !strict_tri(*U, false)) { std::cout << "witness not strictly triangular / not square" << std::endl; return 3; }
    synth_values(*L, 0.25); synth_values(*U, -0.5);
    print_crs("L", *L); print_crs("U", *U);
    auto D = std::make_shared< backend::numa_vector<double> >(n, false);
    std::vector<double> x0(n), y(n), z(n);
    for (size_t i = 0; i < n; ++i) { (*D)[i] = 0.5 + 0.25 * i; x0[i] = 1.0 + 3 * i; }
    for (size_t i = 0; i < n; ++i) { double s = x0[i]; for (ptrdiff_t j = L->ptr[i]; j < L->ptr[i + 1]; ++j) s = s - L->val[j] * y[L->col[j]]; y[i] = s; }
    for (size_t i = n; i-- > 0; ) { double s = y[i]; for (ptrdiff_t j = U->ptr[i]; j < U->ptr[i + 1]; ++j) s = s - U->val[j] * z[U->col[j]]; z[i] = (*D)[i] * s; }
    IluSolve::params prm; prm.serial = true;
    Crs L0(*L), U0(*U);
    IluSolve S(L, U, D, prm);
    backend::numa_vector<double> x(n + 1, false);
    for (size_t i = 0; i < n; ++i) x[i] = x0[i];
    x[n] = 77.0;
    arm();
    S.serial_solve(x);
    for (size_t i = 0; i < n; ++i)
        if (!(std::fabs(x[i] - z[i]) <= 1e-13 * (1 + std::fabs(z[i])))) FAIL("ilu_solve::serial_solve: x[" << i << "] = " << x[i] << " but D_i*(y_i - sum u_ic x_c), y = forward substitution, gives " << z[i]);
    if (x[n] != 77.0) FAIL("ilu_solve::serial_solve wrote beyond x[n-1]");
    for (ptrdiff_t j = 0; j < L0.ptr[n]; ++j) if (L->val[j] != L0.val[j] || L->col[j] != L0.col[j]) FAIL("serial_solve modified L");
    for (ptrdiff_t j = 0; j < U0.ptr[n]; ++j) if (U->val[j] != U0.val[j] || U->col[j] != U0.col[j]) FAIL("serial_solve modified U");
    return 0;
}

// ---------------------------------------------------------------------------------------------
// 3. per-thread kernels sptr_solve<lower>::solve / parallel_sweep<forward>::sweep: a REAL object is built by the real
// constructor for one thread, then its tables are replaced by the witness tables (tasks, ord) and the packed copy S4 prescribes;
// the real kernel runs with one OpenMP thread (= the region body for thread id 0).  Oracle: the row formulas in packed order.
struct Tables { ptrdiff_t nord, nt; std::vector<double> o, tb, te; };
static Tables tables_of(const Witness &w) {
    Tables t; t.nord = (ptrdiff_t)w.num("w_nord"); t.nt = (ptrdiff_t)w.num("w_ntasks"); t.o = w.arr("w_ord"); t.tb = w.arr("w_tbeg"); t.te = w.arr("w_tend");
    return t;
}
// regularised input derived from the witness kind: dense pattern, every row its own task (level), rows in sweep order
static Tables tables_dense(ptrdiff_t n, bool ascending) {
    Tables t; t.nord = n; t.nt = n;
    for (ptrdiff_t k = 0; k < n; ++k) { t.o.push_back(ascending ? k : n - 1 - k); t.tb.push_back(k); t.te.push_back(k + 1); }
    return t;
}
static std::shared_ptr<Crs> dense_pattern(ptrdiff_t n, int kind) {   // kind 0: strictly lower, 1: strictly upper, 2: full
    std::shared_ptr<Crs> A = std::make_shared<Crs>();
    A->set_size(n, n, true);
    std::vector<ptrdiff_t> col;
    for (ptrdiff_t i = 0; i < n; ++i) { for (ptrdiff_t c = 0; c < n; ++c) if (kind == 2 || (kind == 0 && c < i) || (kind == 1 && c > i)) col.push_back(c); A->ptr[i + 1] = (ptrdiff_t)col.size(); }
    A->set_nonzeros(col.size());
    for (size_t j = 0; j < col.size(); ++j) { A->col[j] = col[j]; A->val[j] = 0.0; }
    return A;
}
template <class P>
static bool load_tables(const Tables &t, const Crs &A, const double *Dg, P &S, std::vector<ptrdiff_t> &ord) {
    const ptrdiff_t n = A.nrows;
    const ptrdiff_t nord = t.nord, nt = t.nt;
    const std::vector<double> &o = t.o, &tb = t.tb, &te = t.te;
    if (nord < 0 || nord > n || (ptrdiff_t)o.size() < nord || nt < 0 || (ptrdiff_t)tb.size() < nt || (ptrdiff_t)te.size() < nt) return false;
    ord.clear();
    for (ptrdiff_t r = 0; r < nord; ++r) { ptrdiff_t i = (ptrdiff_t)o[r]; if (i < 0 || i >= n || std::count(ord.begin(), ord.end(), i)) return false; ord.push_back(i); }
    ptrdiff_t next = 0;
    for (ptrdiff_t k = 0; k < nt; ++k) { if ((ptrdiff_t)tb[k] != next || te[k] < tb[k]) return false; next = (ptrdiff_t)te[k]; }
    if (next != nord) return false;
    S.nthreads = 1;
    S.tasks.assign(1, std::vector<typename P::task>()); S.ptr.assign(1, std::vector<ptrdiff_t>(1, 0)); S.col.assign(1, std::vector<ptrdiff_t>());
    S.val.assign(1, std::vector<double>()); S.ord.assign(1, ord);
    for (ptrdiff_t k = 0; k < nt; ++k) S.tasks[0].push_back(typename P::task((ptrdiff_t)tb[k], (ptrdiff_t)te[k]));
    for (ptrdiff_t r = 0; r < nord; ++r) {
        ptrdiff_t i = ord[r];
        for (ptrdiff_t j = A.ptr[i]; j < A.ptr[i + 1]; ++j) { S.col[0].push_back(A.col[j]); S.val[0].push_back(A.val[j]); }
        S.ptr[0].push_back((ptrdiff_t)S.col[0].size());
    }
    (void)Dg;
    std::cout << "tasks:"; for (ptrdiff_t k = 0; k < nt; ++k) std::cout << " [" << tb[k] << "," << te[k] << ")"; std::cout << "  ord:"; for (ptrdiff_t r = 0; r < nord; ++r) std::cout << " " << ord[r]; std::cout << std::endl;
    return true;
}
template <bool lower>
static int sptr_solve_on(std::shared_ptr<Crs> A, const Tables &T) {
    const ptrdiff_t n = A->nrows;
    if ((ptrdiff_t)A->ncols != n) return 3;
    synth_values(*A, 0.25);
    print_crs("A", *A);
    std::vector<double> D(n + 1), x(n + 1), xe(n + 1);
    for (ptrdiff_t i = 0; i <= n; ++i) { D[i] = 0.5 + 0.25 * i; x[i] = xe[i] = 1.0 + 3 * i; }
    set_threads(1);
    Crs one; one.set_size(1, 1, true); one.ptr[1] = 0; one.set_nonzeros(0);
    typename IluSolve::template sptr_solve<lower> S(one, D.data());
    std::vector<ptrdiff_t> ord;
    if (!load_tables(T, *A, D.data(), S, ord)) { std::cout << "witness tables not usable" << std::endl; return 3; }
    if (!lower) { S.D.assign(1, std::vector<double>()); for (size_t r = 0; r < ord.size(); ++r) S.D[0].push_back(D[ord[r]]); }
    for (size_t r = 0; r < ord.size(); ++r) {
        ptrdiff_t i = ord[r];
        double X = 0.0;
        for (ptrdiff_t j = A->ptr[i]; j < A->ptr[i + 1]; ++j) X = X + A->val[j] * xe[A->col[j]];
        xe[i] = lower ? xe[i] - X : D[i] * (xe[i] - X);
    }
    arm();
    S.solve(x);
    for (ptrdiff_t i = 0; i <= n; ++i)
        if (!(std::fabs(x[i] - xe[i]) <= 1e-13 * (1 + std::fabs(xe[i])))) FAIL("sptr_solve<" << (lower ? "lower" : "upper") << ">::solve (one thread): x[" << i << "] = " << x[i] << " but the row formula in packed order gives " << xe[i]);
    return 0;
}
template <bool lower>
static int r_sptr_solve(const Witness &w) {
    std::shared_ptr<Crs> A;
    try { A = crs_from(w, "A"); } catch (...) { std::cout << "witness does not describe a matrix" << std::endl; return 3; }
    int rc = sptr_solve_on<lower>(A, tables_of(w));
    if (rc != 0) return rc;
    std::cout << "-- retry on the regularised input (dense strictly triangular 3x3, one row per level)" << std::endl;
    return sptr_solve_on<lower>(dense_pattern(3, lower ? 0 : 1), tables_dense(3, lower));
}
static int gs_parallel_sweep_on(std::shared_ptr<Crs> A, const Tables &T) {
    const ptrdiff_t n = A->nrows;
    if ((ptrdiff_t)A->ncols != n) return 3;
    for (ptrdiff_t i = 0; i < n; ++i) for (ptrdiff_t j = A->ptr[i]; j < A->ptr[i + 1]; ++j) A->val[j] = (A->col[j] == i) ? 4.0 + i : 1.0 + 0.25 * j;
    print_crs("A", *A);
    std::vector<double> f(n + 1), x(n + 1), xe(n + 1);
    for (ptrdiff_t i = 0; i <= n; ++i) { f[i] = 1.0 + i; x[i] = xe[i] = 10.0 + 3 * i; }
    set_threads(1);
    Crs one; one.set_size(1, 1, true); one.ptr[1] = 1; one.set_nonzeros(1); one.col[0] = 0; one.val[0] = 1.0;
    GSeidel::parallel_sweep<true> S(one);
    std::vector<ptrdiff_t> ord;
    if (!load_tables(T, *A, 0, S, ord)) { std::cout << "witness tables not usable" << std::endl; return 3; }
    for (size_t r = 0; r < ord.size(); ++r) {
        ptrdiff_t i = ord[r];
        double aii = 1.0, X = f[i];
        for (ptrdiff_t j = A->ptr[i]; j < A->ptr[i + 1]; ++j) { if (A->col[j] == i) aii = A->val[j]; else X = X - A->val[j] * xe[A->col[j]]; }
        xe[i] = (1.0 / aii) * X;
    }
    std::vector<double> f0(f);
    arm();
    S.sweep(f, x);
    for (ptrdiff_t i = 0; i <= n; ++i)
        if (!(std::fabs(x[i] - xe[i]) <= 1e-13 * (1 + std::fabs(xe[i])))) FAIL("parallel_sweep::sweep (one thread): x[" << i << "] = " << x[i] << " but inverse(a_ii)*(f_i - sum a_ic x_c) in packed order gives " << xe[i]);
    if (f != f0) FAIL("parallel_sweep::sweep modified rhs");
    return 0;
}
static int r_gs_parallel_sweep(const Witness &w) {
    std::shared_ptr<Crs> A;
    try { A = crs_from(w, "A"); } catch (...) { std::cout << "witness does not describe a matrix" << std::endl; return 3; }
    int rc = gs_parallel_sweep_on(A, tables_of(w));
    if (rc != 0) return rc;
    std::cout << "-- retry on the regularised input (dense 3x3, one row per level)" << std::endl;
    return gs_parallel_sweep_on(dense_pattern(3, 2), tables_dense(3, true));
}

// ---------------------------------------------------------------------------------------------
// 4. spai0 constructor: pattern from the witness, synthetic values; oracle M_i = (1/sum_j |a_ij|^2) * a_ii
static int r_spai0(const Witness &w) {
    std::shared_ptr<Crs> A;
    try { A = crs_from(w, "A"); } catch (...) { std::cout << "witness does not describe a matrix" << std::endl; return 3; }
    const ptrdiff_t n = A->nrows;
    for (ptrdiff_t i = 0; i < n; ++i) for (ptrdiff_t j = A->ptr[i]; j < A->ptr[i + 1]; ++j) A->val[j] = (A->col[j] == i) ? 4.0 + i + 0.5 * j : -1.0 - 0.25 * j;
    print_crs("A", *A);
    // poison the heap: a cell of M that is never written must not look right by accident
    for (int k = 0; k < 64; ++k) { double *p = new double[n + 1]; for (ptrdiff_t i = 0; i <= n; ++i) p[i] = 12345.678; delete[] p; }
    arm();
    relaxation::spai0<Backend> S(*A, relaxation::spai0<Backend>::params(), Backend::params());
    if (!S.M || (ptrdiff_t)S.M->size() != n) FAIL("spai0: M does not have n cells");
    for (ptrdiff_t i = 0; i < n; ++i) {
        double num = 0.0, den = 0.0;
        for (ptrdiff_t j = A->ptr[i]; j < A->ptr[i + 1]; ++j) { double nv = std::fabs(A->val[j]); den = den + nv * nv; if (A->col[j] == i) num = num + A->val[j]; }
        if (A->ptr[i] == A->ptr[i + 1]) continue;    // empty row: 0 * inverse(0) is NaN in floating point, not comparable
        double e = (1.0 / den) * num;
        if (!(std::fabs((*S.M)[i] - e) <= 1e-13 * (1 + std::fabs(e)))) FAIL("spai0: M[" << i << "] = " << (*S.M)[i] << " but a_ii / sum_j |a_ij|^2 = " << e);
    }
    return 0;
}

// ---------------------------------------------------------------------------------------------
// 5. ilu0 constructor: pattern from the witness, synthetic values (dominant diagonal); oracle = the structure clauses of the unit,
// and natively also the property itself: ((I + L)(D^-1 + U))_ij == a_ij on the pattern of A
typedef relaxation::ilu0<Backend> Ilu0;
static int ilu0_on(const Crs &A, bool expect_throw, int expect_dropped) {
    const ptrdiff_t n = A.nrows;
    print_crs("A", A);
    Ilu0::params prm; prm.solve.serial = true;
    std::unique_ptr<Ilu0> S;
    arm();
    try { S.reset(new Ilu0(A, prm, Backend::params())); }
    catch (const std::exception &e) {
        std::cout << "exception: " << e.what() << std::endl;
        if (!expect_throw) FAIL("ilu0 threw on a matrix with a non-zero diagonal and non-zero pivots: " << e.what());
        return 0;
    }
    if (expect_throw) FAIL("ilu0: a row without a stored diagonal entry is not reported by an exception");
    const Crs &L = *S->ilu->L, &U = *S->ilu->U;
    const backend::numa_vector<double> &D = *S->ilu->D;
    if ((ptrdiff_t)L.nrows != n || (ptrdiff_t)U.nrows != n || (ptrdiff_t)L.ncols != n || (ptrdiff_t)U.ncols != n || (ptrdiff_t)D.size() != n) FAIL("ilu0: factor dimensions");
    if (L.ptr[0] != 0 || U.ptr[0] != 0 || (size_t)L.ptr[n] != L.nnz || (size_t)U.ptr[n] != U.nnz) FAIL("ilu0: ptr[0] != 0 or ptr[n] != nnz in a factor");
    for (ptrdiff_t i = 0; i < n; ++i) {
        if (L.ptr[i] > L.ptr[i + 1] || U.ptr[i] > U.ptr[i + 1]) FAIL("ilu0: ptr of a factor is not monotone");
        for (ptrdiff_t j = L.ptr[i]; j < L.ptr[i + 1]; ++j) {
            if (!(L.col[j] >= 0 && L.col[j] < i)) FAIL("ilu0: L(" << i << "," << L.col[j] << ") is not strictly left of the diagonal");
            if (j + 1 < L.ptr[i + 1] && !(L.col[j] < L.col[j + 1])) FAIL("ilu0: columns of L row " << i << " not strictly ascending");
            if (L.val[j] == 0) FAIL("ilu0: a zero is stored in L(" << i << "," << L.col[j] << ")");
        }
        for (ptrdiff_t j = U.ptr[i]; j < U.ptr[i + 1]; ++j) {
            if (!(U.col[j] > i && U.col[j] < n)) FAIL("ilu0: U(" << i << "," << U.col[j] << ") is not strictly right of the diagonal / out of range");
            if (j + 1 < U.ptr[i + 1] && !(U.col[j] < U.col[j + 1])) FAIL("ilu0: columns of U row " << i << " not strictly ascending");
            if (U.val[j] == 0) FAIL("ilu0: a zero is stored in U(" << i << "," << U.col[j] << ")");
        }
    }
    if ((ptrdiff_t)(L.nnz + U.nnz) + n + expect_dropped != A.ptr[n]) FAIL("ilu0: nnz(L) + nnz(U) + n = " << L.nnz + U.nnz + n << " but A has " << A.ptr[n] << " entries of which " << expect_dropped << " become exactly zero");
    // dense factors and the defining identity on the pattern
    std::vector<double> Lf(n * n, 0.0), Uf(n * n, 0.0);
    for (ptrdiff_t i = 0; i < n; ++i) {
        Lf[i * n + i] = 1.0; Uf[i * n + i] = 1.0 / D[i];
        for (ptrdiff_t j = L.ptr[i]; j < L.ptr[i + 1]; ++j) Lf[i * n + L.col[j]] = L.val[j];
        for (ptrdiff_t j = U.ptr[i]; j < U.ptr[i + 1]; ++j) Uf[i * n + U.col[j]] = U.val[j];
    }
    for (ptrdiff_t i = 0; i < n; ++i) for (ptrdiff_t j = A.ptr[i]; j < A.ptr[i + 1]; ++j) {
        double s = 0; ptrdiff_t c = A.col[j];
        for (ptrdiff_t k = 0; k < n; ++k) s += Lf[i * n + k] * Uf[k * n + c];
        if (!(std::fabs(s - A.val[j]) <= 1e-10 * (1 + std::fabs(A.val[j])))) FAIL("ilu0: (L U)(" << i << "," << c << ") = " << s << " but a_ij = " << A.val[j] << " on the pattern of A");
    }
    return 0;
}
static int r_ilu0(const Witness &w) {
    std::shared_ptr<Crs> A;
    try { A = crs_from(w, "A"); } catch (...) { std::cout << "witness does not describe a matrix" << std::endl; return 3; }
    const ptrdiff_t n = A->nrows;
    if ((ptrdiff_t)A->ncols != n || !rows_sorted(*A, true)) { std::cout << "witness not square / rows not strictly ascending" << std::endl; return 3; }
    bool nodiag = false;
    for (ptrdiff_t i = 0; i < n; ++i) { bool d = false; for (ptrdiff_t j = A->ptr[i]; j < A->ptr[i + 1]; ++j) { if (A->col[j] == i) d = true; A->val[j] = (A->col[j] == i) ? 8.0 + i : 0.5 + 0.125 * j; } if (!d) nodiag = true; }
    if (nodiag && (int)w.num("D_DIAG", 1) == 1) { std::cout << "witness lacks a diagonal entry" << std::endl; return 3; }
    int rc = ilu0_on(*A, nodiag, 0);
    if (rc != 0) return rc;
    if (nodiag) return 0;
    // regularised input: an entry of L becomes exactly zero during the elimination (2 - 2*1) and must be dropped
    std::cout << "-- fixed input with an exact cancellation: L(2,1) = 2 - 2*1 = 0 must be dropped" << std::endl;
    Crs B; B.set_size(3, 3, true);
    const ptrdiff_t bp[4] = {0, 2, 3, 6}, bc[6] = {0, 1, 1, 0, 1, 2}; const double bv[6] = {1, 1, 1, 2, 2, 1};
    for (int i = 0; i < 4; ++i) B.ptr[i] = bp[i];
    B.set_nonzeros(6);
    for (int j = 0; j < 6; ++j) { B.col[j] = bc[j]; B.val[j] = bv[j]; }
    rc = ilu0_on(B, false, 1);
    if (rc != 0) return rc;
    std::cout << "-- fixed input with a stored zero in U followed by a kept entry: U(0,1) = 0 is dropped, U(0,2) keeps its column" << std::endl;
    Crs Cc; Cc.set_size(3, 3, true);
    const ptrdiff_t cp[4] = {0, 3, 4, 5}, cc[5] = {0, 1, 2, 1, 2}; const double cv[5] = {1, 0, 1, 1, 1};
    for (int i = 0; i < 4; ++i) Cc.ptr[i] = cp[i];
    Cc.set_nonzeros(5);
    for (int j = 0; j < 5; ++j) { Cc.col[j] = cc[j]; Cc.val[j] = cv[j]; }
    rc = ilu0_on(Cc, false, 1);
    if (rc != 0) return rc;
    std::cout << "-- fixed input with an exactly zero pivot: d_11 = 1 - 1*1 = 0 must be reported by an exception" << std::endl;
    Crs Z; Z.set_size(2, 2, true); Z.ptr[1] = 2; Z.ptr[2] = 4; Z.set_nonzeros(4);
    for (int j = 0; j < 4; ++j) { Z.col[j] = j % 2; Z.val[j] = 1.0; }
    print_crs("A", Z);
    try { Ilu0::params prm; prm.solve.serial = true; Ilu0 S(Z, prm, Backend::params()); }
    catch (const std::exception &e) { std::cout << "exception: " << e.what() << std::endl; return 0; }
    FAIL("ilu0: zero pivot (d_11 = 1 - 1*1) not reported by an exception");
}

// ---------------------------------------------------------------------------------------------
// 6. chebyshev::solve (the unit is inductive, there is no witness): the real smoother on a fixed SPD matrix for degree 0..5, with and
// without diagonal scaling, against an independent evaluation of the documented recurrence
static int r_chebyshev_scaled(double factor);
static int r_chebyshev(const Witness &) {
    // several scalings of the matrix: whether fl(fl(1/d) * d) == 1 for the ellipse centre d depends on the value of d
    for (int k = 0; k < 48; ++k) if (int rc = r_chebyshev_scaled(k == 0 ? 1.0 : 0.3 + 0.37 * k)) return rc;
    return 0;
}
static int r_chebyshev_scaled(double factor) {
    const ptrdiff_t n = 4;
    Crs A; A.set_size(n, n, true);
    std::vector<ptrdiff_t> col; std::vector<double> val;
    for (ptrdiff_t i = 0; i < n; ++i) {
        if (i > 0) { col.push_back(i - 1); val.push_back(-1.0 * factor); }
        col.push_back(i); val.push_back((3.0 + i) * factor);
        if (i + 1 < n) { col.push_back(i + 1); val.push_back(-1.0 * factor); }
        A.ptr[i + 1] = (ptrdiff_t)col.size();
    }
    A.set_nonzeros(col.size());
    for (size_t j = 0; j < col.size(); ++j) { A.col[j] = col[j]; A.val[j] = val[j]; }
    typedef relaxation::chebyshev<Backend> Cheb;
    arm();
    for (int scale = 0; scale < 2; ++scale) for (unsigned degree = 0; degree <= 5; ++degree) {
        Cheb::params prm; prm.degree = degree; prm.scale = scale != 0;
        Cheb S(A, prm, Backend::params());
        backend::numa_vector<double> b(n), x(n), tmp(n);
        std::vector<double> xe(n), p(n, 12345.0), r(n);
        for (ptrdiff_t i = 0; i < n; ++i) { b[i] = 1.0 + i; x[i] = xe[i] = 0.5 - 0.25 * i; (*S.p)[i] = NAN; (*S.r)[i] = NAN; }   // stale workspace (whatever an earlier, possibly diverged, call left)
        const double c = S.c, d = S.d;
        double alpha = 0, beta = 0;
        for (unsigned k = 0; k < degree; ++k) {
            for (ptrdiff_t i = 0; i < n; ++i) { double s = b[i]; for (ptrdiff_t j = A.ptr[i]; j < A.ptr[i + 1]; ++j) s -= A.val[j] * xe[A.col[j]]; r[i] = s; }
            if (scale) for (ptrdiff_t i = 0; i < n; ++i) r[i] = (*S.M)[i] * r[i];
            if (k == 0) { alpha = 1.0 / d; beta = 0.0; }
            else if (k == 1) { alpha = 2 * d / (2 * d * d - c * c); beta = alpha * d - 1.0; }
            else { alpha = 1.0 / (d - 0.25 * alpha * c * c); beta = alpha * d - 1.0; }
            for (ptrdiff_t i = 0; i < n; ++i) { p[i] = (k == 0) ? alpha * r[i] : alpha * r[i] + beta * p[i]; xe[i] += p[i]; }
        }
        S.apply_pre(A, b, x, tmp);
        for (ptrdiff_t i = 0; i < n; ++i)
            if (!(std::fabs(x[i] - xe[i]) <= 1e-12 * (1 + std::fabs(xe[i])))) FAIL("chebyshev::solve degree " << degree << (scale ? " scaled" : "") << ": x[" << i << "] = " << x[i] << " but the Chebyshev recurrence gives " << xe[i]);
    }
    std::cout << "chebyshev (matrix scaled by " << factor << "): degrees 0..5, scaled and unscaled, agree with the recurrence" << std::endl;
    return 0;
}

int main(int argc, char **argv) {
    if (argc < 3) return 2;
    std::string unit = argv[1];
    Witness w;
    if (unit == "chebyshev_solve") { w.load(std::string(argv[2]) + ".in"); return r_chebyshev(w); }
    if (!w.load(std::string(argv[2]) + ".in")) { std::cout << "no witness input" << std::endl; return 3; }
    if (unit == "skyline_lu_factorize_values3") return r_sky_values3(w);
    if (unit == "ilu_serial_solve") return r_ilu_serial_solve(w);
    if (unit == "sptr_solve_lower") return r_sptr_solve<true>(w);
    if (unit == "sptr_solve_upper") return r_sptr_solve<false>(w);
    if (unit == "gs_parallel_sweep") return r_gs_parallel_sweep(w);
    if (unit == "spai0_ctor") return r_spai0(w);
    if (unit == "ilu0_structure") return r_ilu0(w);
    std::cout << "no replay for unit " << unit << std::endl;
    return 3;
}
