// Native replay helpers: read a witness (.in: "name count v1 v2 ...") and build real
// amgcl objects from it.  Replay drivers call the REAL templates in /repo and evaluate
// the property with an independent dense oracle.
#ifndef VERIF_WITNESS_HPP
#define VERIF_WITNESS_HPP
#include <cstdio>
#include <cstdlib>
#include <fstream>
#include <iostream>
#include <map>
#include <sstream>
#include <string>
#include <vector>
#include <cmath>
#include <memory>
#include <amgcl/backend/builtin.hpp>

struct Witness {
    std::map<std::string, std::vector<double> > v;
    bool load(const std::string &path) {
        std::ifstream f(path.c_str());
        if (!f) return false;
        std::string name; size_t n;
        while (f >> name >> n) {
            std::vector<double> x(n);
            for (size_t i = 0; i < n; ++i) f >> x[i];
            v[name] = x;
        }
        return true;
    }
    bool has(const std::string &k) const { return v.count(k) > 0; }
    double num(const std::string &k, double dflt = 0) const {
        std::map<std::string, std::vector<double> >::const_iterator it = v.find(k);
        return (it == v.end() || it->second.empty()) ? dflt : it->second[0];
    }
    std::vector<double> arr(const std::string &k) const {
        std::map<std::string, std::vector<double> >::const_iterator it = v.find(k);
        return it == v.end() ? std::vector<double>() : it->second;
    }
};

typedef amgcl::backend::crs<double, ptrdiff_t, ptrdiff_t> Crs;

// matrix named X from w_X_nrows, w_X_ncols, w_X_ptr, w_X_col, w_X_val
inline std::shared_ptr<Crs> crs_from(const Witness &w, const std::string &X) {
    size_t n = (size_t)w.num("w_" + X + "_nrows"), m = (size_t)w.num("w_" + X + "_ncols");
    std::vector<double> p = w.arr("w_" + X + "_ptr"), c = w.arr("w_" + X + "_col"), v = w.arr("w_" + X + "_val");
    std::shared_ptr<Crs> A = std::make_shared<Crs>();
    A->set_size(n, m, true);
    for (size_t i = 0; i <= n; ++i) A->ptr[i] = (ptrdiff_t)p.at(i);
    A->set_nonzeros(A->ptr[n]);
    for (ptrdiff_t j = 0; j < A->ptr[n]; ++j) { A->col[j] = (ptrdiff_t)c.at(j); A->val[j] = j < (ptrdiff_t)v.size() ? v[j] : 0.0; }
    return A;
}
inline std::vector<double> dense(const Crs &A) {
    std::vector<double> d(A.nrows * A.ncols, 0.0);
    for (size_t i = 0; i < A.nrows; ++i)
        for (ptrdiff_t j = A.ptr[i]; j < A.ptr[i + 1]; ++j) d[i * A.ncols + A.col[j]] += A.val[j];
    return d;
}
inline bool wf(const Crs &A, std::string &why) {
    if (A.nrows == 0) return true;
    if (A.ptr[0] != 0) { why = "ptr[0] != 0"; return false; }
    for (size_t i = 0; i < A.nrows; ++i) if (A.ptr[i] > A.ptr[i + 1]) { why = "ptr not monotone"; return false; }
    for (ptrdiff_t j = 0; j < A.ptr[A.nrows]; ++j) if (A.col[j] < 0 || (size_t)A.col[j] >= A.ncols) { why = "column out of range"; return false; }
    return true;
}
inline bool rows_sorted(const Crs &A, bool strict) {
    for (size_t i = 0; i < A.nrows; ++i)
        for (ptrdiff_t j = A.ptr[i]; j + 1 < A.ptr[i + 1]; ++j)
            if (strict ? !(A.col[j] < A.col[j + 1]) : !(A.col[j] <= A.col[j + 1])) return false;
    return true;
}
inline void print_crs(const char *name, const Crs &A) {
    std::cout << name << ": " << A.nrows << "x" << A.ncols << " rows:";
    for (size_t i = 0; i < A.nrows; ++i) {
        std::cout << " {";
        for (ptrdiff_t j = A.ptr[i]; j < A.ptr[i + 1]; ++j) std::cout << (j > A.ptr[i] ? "," : "") << A.col[j] << ":" << A.val[j];
        std::cout << "}";
    }
    std::cout << std::endl;
}
#define FAIL(msg) do { std::cout << "REPRODUCED on the real code: " << msg << std::endl; return 1; } while (0)
#endif
