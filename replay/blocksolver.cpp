// native replay for units/c13_block_solver.py (call-level contracts, no numeric witness): the REAL make_block_solver on a small
// block-structured system; the three-argument form is called with a matrix that DIFFERS from the one the solver was built with, the
// solution and the reported residual are checked against ||f - A1 x|| / ||f|| computed on the scalar CRS arrays.
#include <cmath>
#include <iostream>
#include <vector>
#include <tuple>
#include <amgcl/backend/builtin.hpp>
#include <amgcl/value_type/static_matrix.hpp>
#include <amgcl/adapter/crs_tuple.hpp>
#include <amgcl/adapter/block_matrix.hpp>
#include <amgcl/make_block_solver.hpp>
#include <amgcl/amg.hpp>
#include <amgcl/coarsening/aggregation.hpp>
#include <amgcl/relaxation/spai0.hpp>
#include <amgcl/solver/bicgstab.hpp>

struct Sys { int n; std::vector<ptrdiff_t> ptr, col; std::vector<double> val; };
// 1D chain of m cells with 2x2 blocks: diagonal block [[4+s,1],[0.5,5+s]], coupling blocks -[[1,0.2],[0,1]]
static Sys build(int m, double s) {
    Sys S; S.n = 2 * m; S.ptr.push_back(0);
    for (int c = 0; c < m; ++c) for (int r = 0; r < 2; ++r) {
        for (int d = -1; d <= 1; ++d) { int cc = c + d; if (cc < 0 || cc >= m) continue;
            for (int q = 0; q < 2; ++q) {
                double v = d == 0 ? (r == q ? (r ? 5 + s : 4 + s) : (r ? 0.5 : 1.0)) : -(r == q ? 1.0 : (r == 0 ? 0.2 : 0.0));
                S.col.push_back(2 * cc + q); S.val.push_back(v);
            } }
        S.ptr.push_back((ptrdiff_t)S.col.size());
    }
    return S;
}
static double relres(const Sys &S, const std::vector<double> &f, const std::vector<double> &x) {
    long double rr = 0, ff = 0;
    for (int i = 0; i < S.n; ++i) { long double r = f[i]; for (ptrdiff_t j = S.ptr[i]; j < S.ptr[i + 1]; ++j) r -= (long double)S.val[j] * x[S.col[j]]; rr += r * r; ff += (long double)f[i] * f[i]; }
    return (double)std::sqrt(rr / ff);
}
int main(int argc, char **argv) {
    std::string unit = argc > 1 ? argv[1] : "";
    if (unit != "make_block_solver_call3" && unit != "make_block_solver_call2") { std::cout << "no replay for unit " << unit << std::endl; return 3; }
    typedef amgcl::static_matrix<double, 2, 2> B;
    typedef amgcl::backend::builtin<B> Backend;
    typedef amgcl::make_block_solver<amgcl::amg<Backend, amgcl::coarsening::aggregation, amgcl::relaxation::spai0>, amgcl::solver::bicgstab<Backend> > Solver;
    const int m = 40;
    Sys A0 = build(m, 0.0), A1 = build(m, 3.0);           // A1: the "updated coefficients" of a later time step
    Solver solve(std::tie(A0.n, A0.ptr, A0.col, A0.val));
    std::vector<double> f(A0.n), x(A0.n, 0.0);
    for (int i = 0; i < A0.n; ++i) f[i] = 1.0 + 0.01 * i;
    size_t it; double res;
    int bad = 0;
    std::tie(it, res) = solve(f, x);
    double t = relres(A0, f, x);
    std::cout << "solve(rhs, x): iters=" << it << " reported=" << res << " true (stored matrix)=" << t << std::endl;
    if (!(t <= 1e-6 && std::fabs(res - t) <= 1e-7)) ++bad;
    std::fill(x.begin(), x.end(), 0.0);
    auto T1 = std::tie(A1.n, A1.ptr, A1.col, A1.val);
    amgcl::backend::crs<B> A1b(amgcl::adapter::block_matrix<B>(T1));      // block-valued copy of the updated matrix
    std::tie(it, res) = solve(A1b, f, x);
    t = relres(A1, f, x);
    std::cout << "solve(A1, rhs, x) with A1 != the matrix the solver was built with: iters=" << it << " reported=" << res << " true (A1)=" << t << std::endl;
    if (!(t <= 1e-6 && std::fabs(res - t) <= 1e-7)) { ++bad; std::cout << "the system solved / the residual reported is not that of the matrix passed in" << std::endl; }
    if (bad) { std::cout << "REPRODUCED on the real code: make_block_solver does not solve the system it is given" << std::endl; return 1; }
    std::cout << "no failing input found on the real code" << std::endl;
    return 0;
}
