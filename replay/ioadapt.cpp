// replay of witnesses of the io (C19) and adapter (C17/C13) units against the real amgcl
// templates.  io units: the witness bytes are written to a temporary file and the REAL
// amgcl::io reader is called on it (compiled with AddressSanitizer/UBSan by the framework:
// a sanitizer report counts as reproduced); the property is then evaluated with an
// independent oracle on the returned vectors.
#include "witness.hpp"
#include <amgcl/io/binary.hpp>
#include <amgcl/adapter/zero_copy.hpp>
#include <amgcl/adapter/crs_tuple.hpp>
#include <amgcl/value_type/complex.hpp>
#include <amgcl/adapter/complex.hpp>
#include <complex>
#include <algorithm>
#include <cstring>
#include <unistd.h>
using namespace amgcl;

// see ioadapt_ubsan.supp
extern "C" const char *__ubsan_default_options() { return "suppressions=/verif/replay/ioadapt_ubsan.supp"; }

// ------------------------------------------------------------------------------- files
struct TmpFile {
    std::string path;
    TmpFile(const Witness &w, const char *pfx = "w") {
        char buf[64];
        // one fixed name per driver build directory: a run that is aborted by a sanitizer report leaves at most this one file behind
        (void)getpid;
        std::snprintf(buf, sizeof buf, "/verif/build/replay/ioadapt_%s.bin", pfx);
        path = buf;
        std::remove(path.c_str());
        std::vector<double> b = w.arr(std::string(pfx) + "_file");
        size_t len = (size_t)w.num(std::string(pfx) + "_flen");
        bool exists = w.num(std::string(pfx) + "_exists", 1) != 0;
        std::cout << "file: " << (exists ? "" : "(does not exist) ") << len << " bytes:";
        for (size_t i = 0; i < len && i < b.size(); ++i) std::cout << " " << (int)(unsigned char)(long)b[i];
        std::cout << std::endl;
        if (exists) {
            std::ofstream f(path.c_str(), std::ios::binary);
            for (size_t i = 0; i < len; ++i) { char c = (char)(unsigned char)(long)(i < b.size() ? b[i] : 0); f.write(&c, 1); }
        }
        bytes.resize(len);
        for (size_t i = 0; i < len; ++i) bytes[i] = (unsigned char)(long)(i < b.size() ? b[i] : 0);
        this->exists = exists;
    }
    ~TmpFile() { std::remove(path.c_str()); }
    std::vector<unsigned char> bytes;
    bool exists;
    template <class T> bool get(size_t off, T &x) const {
        if (off + sizeof(T) > bytes.size() || off + sizeof(T) < off) return false;
        std::memcpy(&x, &bytes[off], sizeof(T));
        return true;
    }
};

// independent decoding of a binary CRS file:  n | ptr[0..n] | col[0..nnz) | val[0..nnz)
template <class SizeT, class Ptr, class Col, class Val>
struct BinCrs {
    const TmpFile &F;
    bool header; size_t N;
    BinCrs(const TmpFile &F) : F(F), header(false), N(0) {
        SizeT n;
        if (!F.exists || !F.get(0, n) || n < 0) return;
        N = (size_t)n;
        if (sizeof(SizeT) + (N + 1) * sizeof(Ptr) > F.bytes.size()) return;
        header = true;
    }
    Ptr ptr(size_t i) const { Ptr x = 0; F.get(sizeof(SizeT) + i * sizeof(Ptr), x); return x; }
    Col col(size_t j) const { Col x = 0; F.get(sizeof(SizeT) + (N + 1) * sizeof(Ptr) + j * sizeof(Col), x); return x; }
    Val val(size_t j) const { Val x = Val(); F.get(sizeof(SizeT) + (N + 1) * sizeof(Ptr) + (size_t)ptr(N) * sizeof(Col) + j * sizeof(Val), x); return x; }
    bool wf() const {
        if (!header) return false;
        if (ptr(0) != 0) return false;
        for (size_t i = 0; i < N; ++i) if (ptr(i) > ptr(i + 1)) return false;
        size_t nnz = (size_t)ptr(N);
        if (F.bytes.size() != sizeof(SizeT) + (N + 1) * sizeof(Ptr) + nnz * (sizeof(Col) + sizeof(Val))) return false;
        for (size_t j = 0; j < nnz; ++j) if (col(j) < 0) return false;
        return true;
    }
};

template <class SizeT, class Ptr, class Col, class Val>
static int check_read_crs(const TmpFile &F, ptrdiff_t row_beg, ptrdiff_t row_end, bool thrown, const std::string &what,
                          SizeT n, const std::vector<Ptr> &ptr, const std::vector<Col> &col, const std::vector<Val> &val)
{
    BinCrs<SizeT, Ptr, Col, Val> B(F);
    if (thrown) std::cout << "read_crs threw: " << what << std::endl;
    else {
        std::cout << "read_crs returned n=" << (long)n << " ptr=[";
        for (size_t i = 0; i < ptr.size() && i < 40; ++i) std::cout << (i ? "," : "") << (long)ptr[i];
        std::cout << "] col=[";
        for (size_t i = 0; i < col.size() && i < 40; ++i) std::cout << (i ? "," : "") << (long)col[i];
        std::cout << "] val=[";
        for (size_t i = 0; i < val.size() && i < 40; ++i) std::cout << (i ? "," : "") << (double)val[i];
        std::cout << "]" << std::endl;
    }
    if (!F.exists && !thrown) FAIL("read_crs: missing file did not make the reader throw");
    size_t rb = row_beg < 0 ? 0 : (size_t)row_beg;
    if (!thrown) {
        if (!B.header) FAIL("read_crs returned although the header (n, ptr[0..n]) is not inside the file");
        if (n < 0 || (size_t)n != B.N) FAIL("read_crs returned a wrong / negative row count");
        size_t N = B.N, re = row_end < 0 ? N : (size_t)row_end;
        if (!(rb <= re && re <= N)) FAIL("read_crs returned for a row range outside [0, n]");
        if (ptr.size() != re - rb + 1) FAIL("structurally invalid matrix returned: ptr.size() != rows + 1");
        if (ptr[0] != 0) FAIL("structurally invalid matrix returned: ptr[0] != 0");
        for (size_t i = 0; i + 1 < ptr.size(); ++i) if (ptr[i] > ptr[i + 1]) FAIL("structurally invalid matrix returned: ptr not monotone at row " << i);
        if (ptr.back() < 0 || (size_t)ptr.back() != col.size() || col.size() != val.size()) FAIL("structurally invalid matrix returned: ptr.back() != col.size() or col.size() != val.size()");
        for (size_t j = 0; j < col.size(); ++j) if (col[j] < 0) FAIL("structurally invalid matrix returned: negative column index " << (long)col[j]);
        if (!(B.ptr(rb) >= 0 && B.ptr(rb) <= B.ptr(re) && B.ptr(re) <= B.ptr(N)))
            FAIL("inconsistent sizes in the file did not make the reader throw (ptr[row_beg]=" << (long)B.ptr(rb) << " ptr[row_end]=" << (long)B.ptr(re) << " ptr[n]=" << (long)B.ptr(N) << ")");
        if (B.ptr(N) >= 0 && B.ptr(rb) != B.ptr(re) &&
            sizeof(SizeT) + (N + 1) * sizeof(Ptr) + (size_t)B.ptr(N) * sizeof(Col) + (size_t)B.ptr(re) * sizeof(Val) > F.bytes.size())
            FAIL("truncated file did not make the reader throw");
    }
    if (B.wf()) {
        size_t N = B.N, re = row_end < 0 ? N : (size_t)row_end;
        if (rb <= re && re <= N) {
            if (thrown) FAIL("well-formed file and valid row range, but the reader threw: " << what);
            size_t base = (size_t)B.ptr(rb);
            for (size_t i = 0; i <= re - rb; ++i) if ((size_t)ptr[i] != (size_t)B.ptr(rb + i) - base) FAIL("round trip: ptr[" << i << "] differs from the file");
            for (size_t i = 0; i < re - rb; ++i) {
                std::vector<std::pair<long, double> > a, b;
                for (size_t j = (size_t)ptr[i]; j < (size_t)ptr[i + 1]; ++j) {
                    a.push_back(std::make_pair((long)col[j], (double)val[j]));
                    b.push_back(std::make_pair((long)B.col(base + j), (double)B.val(base + j)));
                    if (j + 1 < (size_t)ptr[i + 1] && col[j] > col[j + 1]) FAIL("round trip: row " << i << " is not sorted by column");
                }
                std::sort(a.begin(), a.end()); std::sort(b.begin(), b.end());
                if (a != b) FAIL("round trip: row " << i << " does not hold the (column,value) pairs of the file");
            }
        } else if (!thrown) FAIL("row range outside [0, n] did not make the reader throw");
    }
    std::cout << "property holds on this input" << std::endl;
    return 0;
}

// 64-bit argument stored as <name>_hi (signed) / <name>_lo (unsigned) halves; default -1
static ptrdiff_t arg64(const Witness &w, const std::string &name) {
    if (!w.has(name + "_lo")) return -1;
    unsigned long long lo = (unsigned long long)w.num(name + "_lo"), hi = (unsigned long long)(long long)w.num(name + "_hi");
    return (ptrdiff_t)((hi << 32) | (lo & 0xffffffffULL));
}

template <class SizeT, class Ptr, class Col, class Val>
static int r_read_crs(const Witness &w) {
    TmpFile F(w);
    ptrdiff_t row_beg = arg64(w, "w_row_beg"), row_end = arg64(w, "w_row_end");
    std::cout << "row_beg=" << row_beg << " row_end=" << row_end << std::endl;
    SizeT n = 0; std::vector<Ptr> ptr; std::vector<Col> col; std::vector<Val> val;
    bool thrown = false; std::string what;
    try { io::read_crs(F.path, n, ptr, col, val, row_beg, row_end); }
    catch (const std::exception &e) { thrown = true; what = e.what(); }
    return check_read_crs(F, row_beg, row_end, thrown, what, n, ptr, col, val);
}

// full read and row-range read of the same (well-formed) file: the range read is the slice
template <class SizeT, class Ptr, class Col, class Val>
static int r_read_crs_slice(const Witness &w) {
    TmpFile F(w);
    ptrdiff_t row_beg = arg64(w, "w_row_beg"), row_end = arg64(w, "w_row_end");
    std::cout << "row_beg=" << row_beg << " row_end=" << row_end << std::endl;
    SizeT n1 = 0, n2 = 0; std::vector<Ptr> p1, p2; std::vector<Col> c1, c2; std::vector<Val> v1, v2;
    bool t1 = false, t2 = false; std::string what;
    try { io::read_crs(F.path, n1, p1, c1, v1); } catch (const std::exception &e) { t1 = true; what = e.what(); }
    int rc = check_read_crs(F, -1, -1, t1, what, n1, p1, c1, v1);
    if (rc) return rc;
    try { io::read_crs(F.path, n2, p2, c2, v2, row_beg, row_end); } catch (const std::exception &e) { t2 = true; what = e.what(); }
    rc = check_read_crs(F, row_beg, row_end, t2, what, n2, p2, c2, v2);
    if (rc) return rc;
    if (t1 || t2) { std::cout << "a read threw; nothing to compare" << std::endl; return 0; }
    size_t rb = row_beg < 0 ? 0 : (size_t)row_beg, re = row_end < 0 ? (size_t)n1 : (size_t)row_end;
    if (n1 != n2) FAIL("range read returns a different n");
    if (p2.size() != re - rb + 1) FAIL("range read: wrong number of row pointers");
    for (size_t i = 0; i <= re - rb; ++i) if (p2[i] != p1[rb + i] - p1[rb]) FAIL("range read != slice of the full read: ptr[" << i << "]");
    if (c2.size() != (size_t)(p1[re] - p1[rb]) || v2.size() != c2.size()) FAIL("range read != slice of the full read: number of entries");
    for (size_t j = 0; j < c2.size(); ++j) if (c2[j] != c1[(size_t)p1[rb] + j] || v2[j] != v1[(size_t)p1[rb] + j]) FAIL("range read != slice of the full read: entry " << j);
    std::cout << "range read equals the slice of the full read" << std::endl;
    return 0;
}

template <class IndexType>
static int r_crs_size(const Witness &w) {
    TmpFile F(w);
    bool thrown = false; std::string what; IndexType r = 0;
    try { r = io::crs_size<IndexType>(F.path); } catch (const std::exception &e) { thrown = true; what = e.what(); }
    IndexType first = 0; bool readable = F.exists && F.get(0, first);
    if (thrown) std::cout << "crs_size threw: " << what << std::endl; else std::cout << "crs_size returned " << (long)r << std::endl;
    if (thrown == readable) FAIL("crs_size: throws on a readable file / returns on an unreadable one");
    if (!thrown && r != first) FAIL("crs_size: returned " << (long)r << " but the first field is " << (long)first);
    std::cout << "property holds on this input" << std::endl;
    return 0;
}

template <class SizeT, class Val>
static int r_read_dense(const Witness &w) {
    TmpFile F(w);
    ptrdiff_t row_beg = arg64(w, "w_row_beg"), row_end = arg64(w, "w_row_end");
    std::cout << "row_beg=" << row_beg << " row_end=" << row_end << std::endl;
    SizeT n = 0, m = 0; std::vector<Val> v; bool thrown = false; std::string what;
    try { io::read_dense(F.path, n, m, v, row_beg, row_end); } catch (const std::exception &e) { thrown = true; what = e.what(); }
    if (thrown) std::cout << "read_dense threw: " << what << std::endl;
    else std::cout << "read_dense returned n=" << (long)n << " m=" << (long)m << " v.size()=" << v.size() << std::endl;
    if (!F.exists && !thrown) FAIL("read_dense: missing file did not make the reader throw");
    SizeT fn = 0, fm = 0; bool header = F.exists && F.get(0, fn) && F.get(sizeof(SizeT), fm);
    size_t rb = row_beg < 0 ? 0 : (size_t)row_beg;
    if (!thrown) {
        if (!header || n != fn || m != fm) FAIL("read_dense returned although the size fields are not inside the file / differ from it");
        if (n < 0 || m < 0) FAIL("structurally invalid array returned: negative n or m");
        size_t N = (size_t)n, M = (size_t)m, re = row_end < 0 ? N : (size_t)row_end;
        if (!(rb <= re && re <= N)) FAIL("read_dense returned for a row range outside [0, n]");
        if (v.size() != (re - rb) * M) FAIL("read_dense: v.size() != rows * m");
        if ((re - rb) * M != 0 && 2 * sizeof(SizeT) + re * M * sizeof(Val) > F.bytes.size()) FAIL("truncated file did not make the reader throw");
        for (size_t k = 0; k < v.size(); ++k) { Val x = Val(); F.get(2 * sizeof(SizeT) + (rb * M + k) * sizeof(Val), x); if (!(x == v[k])) FAIL("read_dense: value " << k << " differs from the file"); }
    }
    if (header && fn >= 0 && fm >= 0 && F.bytes.size() == 2 * sizeof(SizeT) + (size_t)fn * (size_t)fm * sizeof(Val)) {
        size_t re = row_end < 0 ? (size_t)fn : (size_t)row_end;
        if (rb <= re && re <= (size_t)fn) { if (thrown) FAIL("well-formed file and valid row range, but the reader threw: " << what); }
        else if (!thrown) FAIL("row range outside [0, n] did not make the reader throw");
    }
    std::cout << "property holds on this input" << std::endl;
    return 0;
}

// detail::sort_row on the witness slice w_col[1..n], w_val[1..n]: the slice occupies a heap block of
// exactly n elements, so that any access outside [0, n) is an AddressSanitizer report
static int r_sort_row(const Witness &w) {
    std::vector<double> wc = w.arr("w_col"), wv = w.arr("w_val");
    int n = (int)w.num("w_n");
    size_t len = (size_t)(n > 0 ? n : 0);
    if (wc.size() < len + 1 || wv.size() < len + 1) { std::cout << "no witness" << std::endl; return 3; }
    signed char *col = new signed char[len]; unsigned char *val = new unsigned char[len];
    std::vector<std::pair<int, int> > a, b;
    std::cout << "n=" << n << " col:val =";
    for (size_t k = 0; k < len; ++k) {
        col[k] = (signed char)(long)wc[k + 1]; val[k] = (unsigned char)(long)wv[k + 1];
        a.push_back(std::make_pair((int)col[k], (int)val[k]));
        std::cout << " " << (int)col[k] << ":" << (int)val[k];
    }
    std::cout << std::endl;
    detail::sort_row(col, val, n);
    std::cout << "sorted:"; for (size_t k = 0; k < len; ++k) std::cout << " " << (int)col[k] << ":" << (int)val[k]; std::cout << std::endl;
    for (size_t k = 0; k < len; ++k) {
        if (k + 1 < len && col[k] > col[k + 1]) FAIL("sort_row: slice not in ascending column order");
        b.push_back(std::make_pair((int)col[k], (int)val[k]));
    }
    std::sort(a.begin(), a.end()); std::sort(b.begin(), b.end());
    if (a != b) FAIL("sort_row: (column,value) pairs not preserved");
    delete[] col; delete[] val;
    std::cout << "property holds on this input" << std::endl;
    return 0;
}

// --------------------------------------------------------------------------- ownership
// array new/delete are replaced in this driver so that every delete[] is observable
static std::map<void *, int> g_deleted;
static bool g_track = false;
void *operator new[](size_t n) { void *p = std::malloc(n ? n : 1); if (!p) throw std::bad_alloc(); return p; }
void operator delete[](void *p) noexcept { if (!p) return; if (g_track) { g_deleted[p]++; return; } std::free(p); }
void operator delete[](void *p, size_t) noexcept { operator delete[](p); }
static int deleted(const void *p) { std::map<void *, int>::iterator it = g_deleted.find((void *)p); return it == g_deleted.end() ? 0 : it->second; }

template <bool direct, bool sq> struct ZC;
template <> struct ZC<false, false> { template <class P, class C> static std::shared_ptr<void> make(size_t n, size_t m, P *p, C *c, double *v) { return adapter::zero_copy(n, m, p, c, v); } };
template <> struct ZC<false, true> { template <class P, class C> static std::shared_ptr<void> make(size_t n, size_t, P *p, C *c, double *v) { return adapter::zero_copy(n, p, c, v); } };
template <> struct ZC<true, false> { template <class P, class C> static std::shared_ptr<void> make(size_t n, size_t m, P *p, C *c, double *v) { return adapter::zero_copy_direct(n, m, p, c, v); } };
template <> struct ZC<true, true> { template <class P, class C> static std::shared_ptr<void> make(size_t n, size_t, P *p, C *c, double *v) { return adapter::zero_copy_direct(n, p, c, v); } };
// zero_copy / zero_copy_direct on canned matrices (the units are loop free: a violated clause does
// not depend on the particular numbers); sq = the (n, ptr, col, val) overloads
template <class P, class C, bool direct, bool sq>
static int r_zero_copy() {
    for (int tc = 0; tc < 3; ++tc) {
        size_t nrows = tc == 0 ? 0 : (tc == 1 ? 2 : 3), ncols = sq ? nrows : nrows + 2;
        P *ptr = new P[nrows + 1]; ptr[0] = 0;
        for (size_t i = 0; i < nrows; ++i) ptr[i + 1] = ptr[i] + (P)((i + tc) % 3);
        size_t nnz = (size_t)ptr[nrows];
        C *col = new C[nnz + 1]; double *val = new double[nnz + 1];
        for (size_t j = 0; j < nnz; ++j) { col[j] = (C)(j % (ncols ? ncols : 1)); val[j] = 1.5 + j; }
        std::vector<P> p0(ptr, ptr + nrows + 1); std::vector<C> c0(col, col + nnz); std::vector<double> v0(val, val + nnz);
        g_deleted.clear(); g_track = true;
        {
            std::shared_ptr<void> A = ZC<direct, sq>::make(nrows, ncols, ptr, col, val);
            typedef typename std::conditional<direct, backend::crs<double, C, P>, backend::crs<double, ptrdiff_t, ptrdiff_t> >::type M;
            M &B = *static_cast<M *>(A.get());
            std::cout << "case " << tc << ": nrows=" << B.nrows << " ncols=" << B.ncols << " nnz=" << B.nnz << " own_data=" << B.own_data << std::endl;
            if (B.nrows != nrows || B.ncols != ncols) { g_track = false; FAIL("zero copy: rows/cols differ from the arguments (expected " << nrows << "x" << ncols << ")"); }
            if (B.nnz != (nrows ? nnz : 0)) { g_track = false; FAIL("zero copy: nnz " << B.nnz << " != ptr[nrows] = " << nnz); }
            if ((void *)B.ptr != (void *)ptr || (void *)B.col != (void *)col || (void *)B.val != (void *)val) { g_track = false; FAIL("zero copy: result does not alias the caller's arrays"); }
            if (B.own_data) { g_track = false; FAIL("zero copy: own_data is true, the matrix would delete[] user memory"); }
        }   // matrix destroyed here
        g_track = false;
        if (deleted(ptr) || deleted(col) || deleted(val)) FAIL("zero copy: destroying the matrix deleted user memory");
        if (!std::equal(p0.begin(), p0.end(), ptr) || !std::equal(c0.begin(), c0.end(), col) || !std::equal(v0.begin(), v0.end(), val)) FAIL("zero copy: user arrays were modified");
        delete[] ptr; delete[] col; delete[] val;
    }
    std::cout << "property holds on the canned inputs" << std::endl;
    return 0;
}

// crs::free_data / ~crs honour own_data
static int r_free_data(bool dtor) {
    typedef backend::crs<double, ptrdiff_t, ptrdiff_t> M;
    for (int own = 0; own < 2; ++own) {
        M *A = new M();
        A->set_size(2, 2, true); A->ptr[1] = 1; A->ptr[2] = 2; A->set_nonzeros(2);
        A->col[0] = 0; A->col[1] = 1; A->val[0] = 1; A->val[1] = 2;
        void *p = A->ptr, *c = A->col, *v = A->val;
        A->own_data = own;
        g_deleted.clear(); g_track = true;
        if (dtor) { A->~M(); } else A->free_data();
        int dp = deleted(p), dc = deleted(c), dv = deleted(v);
        std::cout << "own_data=" << own << ": deletes ptr/col/val = " << dp << "/" << dc << "/" << dv << std::endl;
        if (own) {
            if (dp != 1 || dc != 1 || dv != 1) { g_track = false; FAIL("free_data: owned arrays not deleted exactly once (leak or double delete)"); }
            if (A->ptr || A->col || A->val) { g_track = false; FAIL("free_data: dangling pointer left after delete[]"); }
            A->free_data();
            if (deleted(p) != 1 || deleted(c) != 1 || deleted(v) != 1) { g_track = false; FAIL("free_data: second call deletes again (double delete)"); }
        } else {
            if (dp || dc || dv) { g_track = false; FAIL("free_data: borrowed (own_data == false) arrays were deleted"); }
            if (A->ptr != p || A->col != c || A->val != v) { g_track = false; FAIL("free_data: borrowed arrays were detached/changed"); }
        }
        g_track = false;
        std::free(p); std::free(c); std::free(v);
        A->ptr = 0; A->col = 0; A->val = 0;
        if (!dtor) delete A; else ::operator delete(A);
    }
    std::cout << "property holds on the canned inputs" << std::endl;
    return 0;
}

// ------------------------------------------------------------------- copying constructors
template <class P, class C, class RP, class RC>
static int r_range_ctor(const Witness &w) {
    size_t nrows = (size_t)w.num("w_nrows"), ncols = (size_t)w.num("w_ncols");
    size_t plen = (size_t)w.num("w_plen"), clen = (size_t)w.num("w_clen"), vlen = (size_t)w.num("w_vlen");
    std::vector<double> wp = w.arr("w_ptr"), wc = w.arr("w_col"), wv = w.arr("w_val");
    if (wp.size() < plen || wc.size() < clen || wv.size() < vlen) { std::cout << "no witness" << std::endl; return 3; }
    std::vector<RP> ptr(plen); std::vector<RC> col(clen); std::vector<double> val(vlen);
    for (size_t i = 0; i < plen; ++i) ptr[i] = (RP)wp[i];
    for (size_t j = 0; j < clen; ++j) col[j] = (RC)wc[j];
    for (size_t j = 0; j < vlen; ++j) val[j] = wv[j];
    std::vector<RP> p0 = ptr; std::vector<RC> c0 = col; std::vector<double> v0 = val;
    std::cout << "nrows=" << nrows << " ncols=" << ncols << " |ptr|=" << plen << " |col|=" << clen << " |val|=" << vlen << std::endl;
    bool sizes_ok = plen == nrows + 1 && ptr[nrows] >= 0 && clen == (size_t)ptr[nrows] && vlen == clen;
    typedef backend::crs<double, C, P> M;
    std::unique_ptr<M> A; bool thrown = false;
    try { A.reset(new M(nrows, ncols, ptr, col, val)); } catch (const std::exception &e) { thrown = true; std::cout << "threw: " << e.what() << std::endl; }
    if (thrown == sizes_ok) FAIL("range ctor: throws on consistent ranges / accepts ranges of the wrong length");
    if (!thrown) {
        if (A->nrows != nrows || A->ncols != ncols || A->nnz != (size_t)p0[nrows] || !A->own_data) FAIL("range ctor: rows/cols/nnz/own_data wrong");
        if ((void *)A->ptr == (void *)ptr.data() || (void *)A->col == (void *)col.data()) FAIL("range ctor: arrays are not copies");
        for (size_t i = 0; i <= nrows; ++i) if ((long)A->ptr[i] != (long)p0[i]) FAIL("range ctor: ptr[" << i << "] = " << (long)A->ptr[i] << " differs from the source " << (long)p0[i]);
        for (size_t j = 0; j < (size_t)p0[nrows]; ++j) if ((long)A->col[j] != (long)c0[j] || A->val[j] != v0[j]) FAIL("range ctor: entry " << j << " differs from the source");
    }
    if (ptr != p0 || col != c0 || val != v0) FAIL("range ctor: source ranges modified");
    std::cout << "property holds on this input" << std::endl;
    return 0;
}

// generic row-iterator constructor: destination crs<double, C, P> from a source crs with the OTHER index
// types (so that the template constructor over row iterators is selected, not the copy constructor)
template <class P, class C, class SP, class SC>
static int r_rowiter_ctor(const Witness &w) {
    std::shared_ptr<Crs> A0 = crs_from(w, "A");
    print_crs("A", *A0);
    backend::crs<double, SC, SP> S;
    S.set_size(A0->nrows, A0->ncols, true);
    for (size_t i = 0; i <= A0->nrows; ++i) S.ptr[i] = (SP)A0->ptr[i];
    S.set_nonzeros(S.ptr[S.nrows]);
    for (ptrdiff_t j = 0; j < A0->ptr[A0->nrows]; ++j) { S.col[j] = (SC)A0->col[j]; S.val[j] = A0->val[j]; }
    backend::crs<double, C, P> B(S);
    if (B.nrows != S.nrows || B.ncols != S.ncols || B.nnz != (size_t)S.ptr[S.nrows] || !B.own_data) FAIL("row-iterator ctor: rows/cols/nnz/own_data wrong");
    if ((void *)B.ptr == (void *)S.ptr || (void *)B.col == (void *)S.col || (void *)B.val == (void *)S.val) FAIL("row-iterator ctor: arrays are not copies");
    for (size_t i = 0; i <= S.nrows; ++i) if ((long)B.ptr[i] != (long)S.ptr[i]) FAIL("row-iterator ctor: ptr[" << i << "] = " << (long)B.ptr[i] << " differs from the source " << (long)S.ptr[i]);
    for (size_t j = 0; j < (size_t)S.ptr[S.nrows]; ++j) if ((long)B.col[j] != (long)S.col[j] || B.val[j] != S.val[j]) FAIL("row-iterator ctor: entry " << j << " differs from the source");
    for (size_t i = 0; i <= A0->nrows; ++i) if ((long)S.ptr[i] != (long)A0->ptr[i]) FAIL("row-iterator ctor: source modified");
    for (ptrdiff_t j = 0; j < A0->ptr[A0->nrows]; ++j) if ((long)S.col[j] != (long)A0->col[j] || S.val[j] != A0->val[j]) FAIL("row-iterator ctor: source modified");
    std::cout << "property holds on this input" << std::endl;
    return 0;
}

// ------------------------------------------------------------------------ complex adapter
// canned complex matrices (the unit is loop free: the emission table does not depend on the numbers);
// oracle: dense real-equivalent matrix  [a -b; b a]  per entry, unknowns interleaved (re, im)
static int r_complex_adapter() {
    typedef std::complex<double> Z;
    // wrapped matrix: CRS tuple adapter (complex_adapter needs Base::col_type, which the tuple row iterator has)
    const size_t n = 3, m2 = 2 * n;
    std::vector<ptrdiff_t> ptr = {0, 2, 3, 3}, col = {2, 0, 1};
    std::vector<Z> val = {Z(1.5, -2.5), Z(0.25, 4.0), Z(-3.0, 0.5)};
    auto T = std::make_tuple(n, ptr, col, val);
    auto R = adapter::complex_matrix(T);
    if (R.rows() != 2 * n || R.cols() != 2 * n || R.nonzeros() != 4 * val.size()) FAIL("complex adapter: dimensions are not 2n x 2m with 4 nnz per entry");
    std::vector<double> want(m2 * m2, 0.0), got(m2 * m2, 0.0); std::vector<int> cnt(m2 * m2, 0);
    for (size_t r = 0; r < n; ++r) for (ptrdiff_t j = ptr[r]; j < ptr[r + 1]; ++j) {
        size_t c = col[j]; double a = val[j].real(), b = val[j].imag();
        want[(2 * r) * m2 + 2 * c] = a; want[(2 * r) * m2 + 2 * c + 1] = -b;
        want[(2 * r + 1) * m2 + 2 * c] = b; want[(2 * r + 1) * m2 + 2 * c + 1] = a;
    }
    for (size_t i = 0; i < 2 * n; ++i) {
        std::cout << "row " << i << ":";
        size_t k = 0;
        for (auto it = R.row_begin(i); it; ++it, ++k) {
            std::cout << " (" << it.col() << "," << it.value() << ")";
            if (it.col() < 0 || (size_t)it.col() >= m2) FAIL("complex adapter: column out of range");
            got[i * m2 + it.col()] += it.value(); cnt[i * m2 + it.col()]++;
            if (k > 12) FAIL("complex adapter: row iterator does not terminate");
        }
        std::cout << std::endl;
        if (k != 2 * (size_t)(ptr[i / 2 + 1] - ptr[i / 2])) FAIL("complex adapter: row " << i << " emits " << k << " entries, expected two per complex entry");
    }
    for (size_t q = 0; q < want.size(); ++q) if (want[q] != got[q] || cnt[q] > 1) FAIL("complex adapter: real-equivalent entry (" << q / m2 << "," << q % m2 << ") = " << got[q] << " expected " << want[q]);
    std::cout << "property holds on the canned input" << std::endl;
    return 0;
}

int main(int argc, char **argv) {
    if (argc < 3) return 2;
    std::string unit = argv[1];
    Witness w;
    if (!w.load(std::string(argv[2]) + ".in")) { std::cout << "no witness input" << std::endl; return 3; }
    if (unit == "io_read_crs") {
        if (!w.has("w_file")) { std::cout << "no witness" << std::endl; return 3; }
        return r_read_crs<signed char, signed char, signed char, unsigned char>(w);
    }
    if (unit == "io_read_crs_slice") {
        if (!w.has("w_file")) { std::cout << "no witness" << std::endl; return 3; }
        return r_read_crs_slice<signed char, signed char, signed char, unsigned char>(w);
    }
    if (unit == "io_sort_row") return r_sort_row(w);
    if (unit == "io_crs_size") {
        if (!w.has("w_file")) { std::cout << "no witness" << std::endl; return 3; }
        return (int)w.num("D_IXT", 1) == 4 ? r_crs_size<int>(w) : r_crs_size<signed char>(w);
    }
    if (unit == "io_read_dense") {
        if (!w.has("w_file")) { std::cout << "no witness" << std::endl; return 3; }
        return r_read_dense<signed char, unsigned char>(w);
    }
    int it = (int)w.num("D_IT", 0), zt = (int)w.num("D_ZT", 0);
    if (unit == "adapt_zero_copy") return zt == 1 ? r_zero_copy<unsigned long, unsigned long, false, false>() : r_zero_copy<long, long, false, false>();
    if (unit == "adapt_zero_copy_square") return r_zero_copy<long, long, false, true>();
    if (unit == "adapt_zero_copy_direct" || unit == "adapt_zero_copy_direct_square") {
        const bool sq = unit == "adapt_zero_copy_direct_square";
        if (it == 1) return sq ? r_zero_copy<int, int, true, true>() : r_zero_copy<int, int, true, false>();
        if (it == 2) return sq ? r_zero_copy<size_t, size_t, true, true>() : r_zero_copy<size_t, size_t, true, false>();
        return sq ? r_zero_copy<ptrdiff_t, ptrdiff_t, true, true>() : r_zero_copy<ptrdiff_t, ptrdiff_t, true, false>();
    }
    if (unit == "adapt_crs_range_ctor") {
        int rt = (int)w.num("D_RT", 0);
        if (!w.has("w_ptr")) { std::cout << "no witness" << std::endl; return 3; }
        if (it == 1) return rt == 1 ? r_range_ctor<int, int, int, int>(w) : r_range_ctor<int, int, long, long>(w);
        return rt == 1 ? r_range_ctor<long, long, int, int>(w) : r_range_ctor<long, long, long, long>(w);
    }
    if (unit == "adapt_crs_rowiter_ctor") {
        if (!w.has("w_A_ptr")) { std::cout << "no witness" << std::endl; return 3; }
        return it == 1 ? r_rowiter_ctor<int, int, long, long>(w) : r_rowiter_ctor<long, long, int, int>(w);
    }
    if (unit == "adapt_complex_row_iterator") return r_complex_adapter();
    if (unit == "adapt_crs_free_data") return r_free_data(false);
    if (unit == "adapt_crs_dtor") return r_free_data(true);
    std::cout << "no replay for unit " << unit << std::endl;
    return 3;
}
