// Native replay of the unit builtin_spectral_radius_power (C08 / C10): the power-method branch of
// amgcl::backend::spectral_radius<scale>(A, power_iters > 0).
//
// The bounded unit works on opaque value tokens (uninterpreted functions): a failing trace names a sparsity pattern, not
// numbers.  The native side therefore runs the REAL template on fixed small SPD matrices and evaluates the property text
// of C08 with two independent oracles:
//   (1) bound:  the power-method estimate never exceeds the largest singular value of the (diagonally scaled) matrix
//               (closed form for the sample matrices); any thread count;
//   (2) value:  with one thread the start vector is reproducible (std::mt19937(0), uniform(-1,1)); the estimate must
//               equal  sum_i |s_i * b0_i|  of the LAST iteration, s = [D^-1] A b0, b0 = s_prev / ||s_prev||  (dense
//               restatement of the documented algorithm).
// rc 1 + "REPRODUCED ..." = the real code violates the property, 0 = it does not, 3 = not applicable.
#include "witness.hpp"
#include <random>
#ifdef _OPENMP
#include <omp.h>
#endif

namespace backend = amgcl::backend;

// FAIL(msg) (witness.hpp): print "REPRODUCED on the real code: ..." and return 1

static std::shared_ptr<Crs> laplace1d(size_t n) {
    auto A = std::make_shared<Crs>();
    A->set_size(n, n, true);
    for (size_t i = 0; i < n; ++i) A->ptr[i + 1] = A->ptr[i] + 1 + (i > 0) + (i + 1 < n);
    A->set_nonzeros(A->ptr[n]);
    for (size_t i = 0; i < n; ++i) {
        ptrdiff_t h = A->ptr[i];
        if (i > 0)     { A->col[h] = i - 1; A->val[h] = -1; ++h; }
        A->col[h] = i; A->val[h] = 2; ++h;
        if (i + 1 < n) { A->col[h] = i + 1; A->val[h] = -1; ++h; }
    }
    return A;
}
static std::shared_ptr<Crs> diagonal_matrix(size_t n) {       // diag(1, 2, ..., n)
    auto A = std::make_shared<Crs>();
    A->set_size(n, n, true);
    for (size_t i = 0; i < n; ++i) A->ptr[i + 1] = i + 1;
    A->set_nonzeros(n);
    for (size_t i = 0; i < n; ++i) { A->col[i] = i; A->val[i] = (double)(i + 1); }
    return A;
}
// SPD, non-constant diagonal, unsorted rows: D^-1 A is not symmetric (value oracle only)
static std::shared_ptr<Crs> spd_unsorted() {
    auto A = std::make_shared<Crs>();
    A->set_size(3, 3, true);
    A->ptr[1] = 2; A->ptr[2] = 5; A->ptr[3] = 7;
    A->set_nonzeros(7);
    ptrdiff_t c[7] = {1, 0,   2, 1, 0,   2, 1};
    double    v[7] = {-1, 4,  -2, 5, -1,  6, -2};
    for (int j = 0; j < 7; ++j) { A->col[j] = c[j]; A->val[j] = v[j]; }
    return A;
}

// dense restatement of the documented algorithm, one thread (rng seeded with thread id 0)
static double oracle_power(const Crs &A, bool scale, int K) {
    size_t n = A.nrows;
    std::vector<double> M = dense(A), b0(n), s(n);
    std::mt19937 rng(0);
    std::uniform_real_distribution<double> rnd(-1, 1);
    double nrm = 0;
    for (size_t i = 0; i < n; ++i) { b0[i] = rnd(rng); nrm += std::fabs(b0[i] * b0[i]); }
    nrm = 1 / std::sqrt(nrm);
    for (size_t i = 0; i < n; ++i) b0[i] = nrm * b0[i];
    double radius = -1;
    for (int k = 0; k < K; ++k) {
        radius = 0; nrm = 0;
        for (size_t i = 0; i < n; ++i) {
            double t = 0;
            for (size_t j = 0; j < n; ++j) t += M[i * n + j] * b0[j];
            if (scale) t = (1 / M[i * n + i]) * t;
            s[i] = t;
            nrm += std::fabs(t * t);
            radius += std::fabs(t * b0[i]);
        }
        if (k + 1 < K) { double c = 1 / std::sqrt(nrm); for (size_t i = 0; i < n; ++i) b0[i] = c * s[i]; }
    }
    return radius;
}

static double real_radius(const Crs &A, bool scale, int K) {
    return scale ? backend::spectral_radius<true>(A, K) : backend::spectral_radius<false>(A, K);
}

// sigma_max < 0: no closed form known, bound not checked
static int check_matrix(const char *name, const Crs &A, double sigma_plain, double sigma_scaled) {
    static const int iters[] = {1, 2, 3, 5};
    for (int sc = 0; sc < 2; ++sc) {
        double sigma = sc ? sigma_scaled : sigma_plain;
        for (int q = 0; q < 4; ++q) {
            int K = iters[q];
            if (sigma >= 0) {
                double got = real_radius(A, sc != 0, K);
                std::cout << name << " scale=" << sc << " power_iters=" << K << ": estimate " << got << ", largest singular value " << sigma << std::endl;
                if (!(got <= sigma * (1 + 1e-9)))
                    FAIL("spectral_radius<" << (sc ? "true" : "false") << ">(" << name << ", " << K << ") = " << got
                         << " exceeds the largest singular value " << sigma << " of the " << (sc ? "diagonally scaled " : "") << "matrix");
            }
#ifdef _OPENMP
            int nt = omp_get_max_threads();
            omp_set_num_threads(1);
#endif
            double got1 = real_radius(A, sc != 0, K), want = oracle_power(A, sc != 0, K);
#ifdef _OPENMP
            omp_set_num_threads(nt);
#endif
            std::cout << name << " scale=" << sc << " power_iters=" << K << " (one thread): estimate " << got1 << ", last-iteration sum " << want << std::endl;
            if (!(std::fabs(got1 - want) <= 1e-10 * (1 + std::fabs(want))))
                FAIL("spectral_radius<" << (sc ? "true" : "false") << ">(" << name << ", " << K << ") = " << got1
                     << " but sum_i |s_i * b0_i| of the last iteration (s = " << (sc ? "D^-1 " : "") << "A b0, b0 normalised) = " << want);
        }
    }
    return 0;
}

int main(int argc, char **argv) {
    if (argc < 3) return 2;
    std::string unit = argv[1];
    if (unit != "builtin_spectral_radius_power") { std::cout << "no replay for unit " << unit << std::endl; return 3; }
    Witness w;
    if (w.load(std::string(argv[2]) + ".in") && w.has("w_power_iters"))
        std::cout << "witness: pattern of " << (size_t)w.num("w_A_nrows") << " rows, scale=" << w.num("w_scale") << ", power_iters=" << w.num("w_power_iters")
                  << " (values are opaque tokens; the fixed numerical samples below are run instead)" << std::endl;
    const double pi = std::acos(-1.0);
    const size_t n = 8;
    double lmax = 2 - 2 * std::cos(pi * n / (n + 1));          // tridiag(-1, 2, -1), n = 8
    int rc = check_matrix("laplace1d(8)", *laplace1d(n), lmax, lmax / 2);
    if (!rc) rc = check_matrix("diag(1..6)", *diagonal_matrix(6), 6.0, 1.0);
    if (!rc) rc = check_matrix("spd3 (unsorted rows)", *spd_unsorted(), -1, -1);
    return rc;
}
