#!/bin/bash
# tools/mut.sh <scratchname> <repo-relative-file> <sed-expr> <PROP> <unit>   -- apply a mutant in a scratch copy and run one unit
S=/tmp/mut_$1; F=$2; E=$3; P=$4; U=$5
mkdir -p $S && rm -rf $S/amgcl && cp -r /repo/amgcl $S/
sed -i "$E" $S/$F
if diff -q /repo/$F $S/$F >/dev/null; then echo "MUTANT DID NOT APPLY"; exit 3; fi
diff /repo/$F $S/$F | head -6
cd /verif && VERIF_REPO=$S VERIF_JOBS=${VERIF_JOBS:-4} ./check $P --unit $U 2>&1 | grep -E "VIOLATION|obligation=|ERROR|discharged" | head -8
echo "rc=${PIPESTATUS[0]}"
rm -rf $S
