#!/usr/bin/env python3
"""write MANIFEST.json from props.py (claimed properties) + NOT_APPLICABLE"""
import json, os, sys
sys.dont_write_bytecode = True
V = os.path.dirname(os.path.dirname(os.path.abspath(__file__)))
sys.path.insert(0, V)
import importlib.util
spec = importlib.util.spec_from_file_location('props', os.path.join(V, 'props.py'))
m = importlib.util.module_from_spec(spec); spec.loader.exec_module(m)
from cxc import run as R
units = R.load_units()
checks = []
for pid in sorted(m.PROPS):
    p = m.PROPS[pid]
    us = [u for u in units if pid in u.props]
    if not us:
        continue
    proved = [u.name for u in us if u.mode in ('inductive', 'loopfree')]
    bounded = [u.name for u in us if u.mode not in ('inductive', 'loopfree')]
    checks.append({
        'property_id': pid,
        'quick_cmd': './check %s --tier quick' % pid,
        'thorough_cmd': './check %s --tier thorough' % pid,
        'evidence_file': 'evidence/%s.json' % pid,
        'replay_cmd_template': './check --replay {path}',
        'engine': 'cxc',
        'level_claimed': {'category': p['level'], 'text': p['claim'], 'design_ref': p.get('design_ref', 'DESIGN.md section 6')},
        'level_note': p['note'] + ' Units proved unbounded: %s. Units bounded (stand-in, not counted as proved): %s.' % (', '.join(proved) or 'none', ', '.join(bounded) or 'none'),
        'technique': p['technique'],
    })
man = {
    'version': 1,
    'setup_cmd': 'true',
    'hooks': {'guard': 'AMGCL_VERIF', 'enable': 'native replay drivers are compiled with -DAMGCL_VERIF; the CBMC side needs no hooks (side-car contracts on bodies cut from /repo)',
              'baseline_off_cmd': 'cmake --build /repo/_build && ctest --test-dir /repo/_build -j8 --timeout 900',
              'source_commits': m.HOOK_COMMITS, 'add_only': True},
    'engines': [{'name': 'cxc', 'path': 'cxc/', 'serves_properties': [c['property_id'] for c in checks],
                 'kind_free_text': 'contract-based deductive verification: bodies cut from /repo headers on every run, brought to C by logged must-fire rewrite rules, side-car __CPROVER contracts, goto-instrument --dfcc + CBMC 6.11'}],
    'checks': checks,
    'notes': m.NOTES,
    'not_applicable': [{'property_id': k, 'reason': v} for k, v in sorted(m.NOT_APPLICABLE.items())
                       if k not in [c['property_id'] for c in checks]],
}
json.dump(man, open(os.path.join(V, 'MANIFEST.json'), 'w'), indent=1)
print('claimed:', [c['property_id'] for c in checks])
print('n/a:', [x['property_id'] for x in man['not_applicable']])
try:
    import jsonschema
except ImportError:
    print("jsonschema not importable with this python; run with python3-vt to validate"); sys.exit(0)
jsonschema.validate(man, json.load(open('/root/.vp/MANIFEST.schema.json')))
print('MANIFEST valid')
