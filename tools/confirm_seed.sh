#!/bin/bash
# tools/confirm_seed.sh <PROP>  -- independently confirm a seeded change produced in /tmp/seed_<PROP>:
#   builds the repository test suite WITH the patch in the scratch worktree and runs it, checks that the
#   demonstration fails with the patch and passes without; copies patch/demo/meta to /verif/seeded/<PROP>/
P=$1; W=${2:-/tmp/seed_$P}; OUT=${3:-/verif/seeded/$P}
mkdir -p $OUT; cp $W/seed/patch.diff $W/seed/demo.cpp $W/seed/meta.json $OUT/ 2>/dev/null
L=$OUT/confirm.log; : > $L
cd $W || exit 2
git checkout -q -- amgcl 2>/dev/null
echo "== unchanged tree: demo" >> $L
g++ -std=c++11 -O1 -fopenmp -I $W $W/seed/demo.cpp -o /tmp/demo_$P 2>>$L && (OMP_NUM_THREADS=4 timeout 900 /tmp/demo_$P | tail -3; echo "exit=${PIPESTATUS[0]}") >> $L 2>&1
echo "== apply patch" >> $L
git apply $W/seed/patch.diff >> $L 2>&1 || { echo "PATCH DOES NOT APPLY" >> $L; exit 1; }
echo "== changed tree: demo" >> $L
g++ -std=c++11 -O1 -fopenmp -I $W $W/seed/demo.cpp -o /tmp/demo_$P 2>>$L && (OMP_NUM_THREADS=4 timeout 900 /tmp/demo_$P | tail -3; echo "exit=${PIPESTATUS[0]}") >> $L 2>&1
echo "== changed tree: build + ctest" >> $L
cmake -G Ninja -S $W -B $W/_build -DAMGCL_BUILD_TESTS=ON -DCMAKE_BUILD_TYPE=RelWithDebInfo -DCMAKE_CXX_FLAGS=-Wno-error > /dev/null 2>>$L
cmake --build $W/_build -j${JOBS:-4} > $W/_build/build.log 2>&1; echo "build rc=$?" >> $L
(cd $W/_build && OMP_NUM_THREADS=2 OMP_WAIT_POLICY=passive ctest -j4 --timeout 1800 2>&1 | tail -6) >> $L
rm -rf $W/_build /tmp/demo_$P
echo "== done" >> $L
