#!/bin/bash
# tools/run_all.sh [props...]  -- run the quick check of every (given) claimed property, one after the other; summary at the end
cd "$(dirname "$0")/.."
P=${@:-$(python3 -c "import json;print(' '.join(c['property_id'] for c in json.load(open('MANIFEST.json'))['checks']))")}
mkdir -p build/logs
for p in $P; do
  s=$(date +%s); ./check $p --tier ${TIER:-quick} > build/logs/$p.log 2>&1; rc=$?; e=$(date +%s)
  echo "$p rc=$rc $((e-s))s $(tail -1 build/logs/$p.log | cut -c1-120)"
done
