#!/bin/bash
# tools/try_seed.sh <PROP> [check-args...]  -- apply /tmp/seed_<PROP>/seed/patch.diff (or seeded/<PROP>/patch.diff) to a scratch copy and run the property's check
P=$1; shift
D=/verif/seeded/$P/patch.diff; [ -f $D ] || D=/tmp/seed_$P/seed/patch.diff; CP=${CHECKPROP:-$(echo $P | cut -c1-3)}
S=/tmp/ms_$P; rm -rf $S; mkdir -p $S; cp -r /repo/amgcl $S/
(cd $S && patch -p1 < $D > /dev/null) || { echo "PATCH FAILED"; exit 3; }
cd /verif && VERIF_REPO=$S VERIF_JOBS=${VERIF_JOBS:-6} ./check $CP "$@" 2>&1 | grep -E "VIOLATION|obligation=|ERROR|discharged" | head -12
rm -rf $S
