"""Per-property meta data: level claimed, what is decided / not decided, trusted base.
The units that serve a property are found through Unit.props.  MANIFEST.json is
generated from this file by tools/gen_manifest.py (a property without units is
listed under not_applicable with the reason given in NOT_APPLICABLE)."""

HOOK_COMMITS = []

NOTES = ('Contract-based deductive verification with CBMC 6.11 code contracts (goto-instrument --dfcc). '
         'The verified text is cut from /repo headers on every run (cxc/extract.py) and brought to C by logged '
         'must-fire rewrite rules; contracts are side-car specs in units/*.py. Units are tagged proved '
         '(inductive / loop-free, unbounded) or bounded (unwound, all inputs up to the stated size); only the '
         'former count as proof. Exit 2 = tool problem (timeout, extraction break, vacuity guard), never a violation.')

COMMON_TRUST = [
    'A-extract: the logged C++->C rewrite rules preserve meaning (bodies are cut from /repo on every run; unit rules must fire the declared number of times; see build/<unit>/drop_report.json)',
    'A-inst: templates are verified at the listed instantiations only',
    'CBMC 6.11.0 (goto-cc, goto-instrument --dfcc, SAT back end) is sound',
]

PROPS = {
    'C07': dict(
        level='proof',
        claim='Function contracts (requires/ensures/assigns + inductive loop invariants) on the builtin backend primitives; every obligation is discharged by CBMC for all vector lengths and, through the uninterpreted value model, for every value type. Proof is the right level because the property is a per-call functional identity.',
        note='Decides the builtin-backend clause only (numa_vector / std::vector / iterator_range vectors, crs matrices); block_crs, Eigen, hybrid backends and the reinterpret_cast scalar-as-block overloads are outside the C view. OpenMP pragmas are dropped (iterations verified sequentially; disjoint writes are part of the invariant).',
        technique='CBMC code contracts (dfcc) on function bodies extracted from /repo; inductive loop invariants with ghost index; uninterpreted value algebra',
        explanation='Code contracts on the builtin backend primitives, enforced by goto-instrument --dfcc + CBMC on bodies cut from /repo on every run.',
        decided=['axpby/axpbypcz/vmul/copy/clear on builtin vectors equal their defining formula at every index, for every n (inductive, UF value model = every value type); zero output coefficient: result term does not mention the old output'],
        not_decided=['block_crs / Eigen / hybrid backends', 'scalar-as-block reinterpret_cast overloads', 'conjugate-linearity of complex inner product'],
        trusted=COMMON_TRUST),
}

PROPS['C08'] = dict(
    level='other',
    claim='Bounded contract check: function contracts (well-formed CRS out, dense view equals the defining formula) enforced by CBMC on the real kernel bodies for ALL inputs up to a stated size (pattern and values symbolic); index-safety/frame obligations included. Bounded stand-in, not a proof: loop invariants over marker arrays / counting sorts need quantifiers CBMC cannot use here.',
    note='Bounds per unit are listed in the evidence. Values at a commutative ring (int32) so that the dense definition is order independent.',
    technique='CBMC code contracts (dfcc) on extracted bodies, loops unwound with unwinding assertions (bounded); spec = dense view',
    explanation='Contracts on sparse kernels enforced for all inputs up to the bound; see units[].mode for the bound of each unit.',
    decided=[], not_decided=['Gershgorin bound vs true spectral radius (theorem about the formula)', 'power-method bound'],
    trusted=COMMON_TRUST)


def _bounded(pid, what, not_decided):
    PROPS[pid] = dict(
        level='other',
        claim='Bounded contract check (' + what + '): function contracts enforced by CBMC on the real function bodies for ALL inputs up to a stated size (structure and values symbolic), index-safety obligations included; units that could be closed with inductive loop contracts are proved without bound and are listed separately in the evidence.',
        note='Bounds per unit are listed in the evidence (units[].mode).',
        technique='CBMC code contracts on function bodies extracted from /repo: inductive (dfcc, loop contracts) where invariants are quantifier-free, otherwise harness-enforced contract with loops unwound (bounded)',
        explanation='Contracts on the functions the property depends on; see units[] for mode and bound of each unit.',
        decided=[], not_decided=not_decided, trusted=COMMON_TRUST)


_bounded('C04', 'aggregates partition the grid; tentative prolongation structure', [])
_bounded('C06', 'relaxation sweeps', [])
_bounded('C09', 'level schedules of the parallel Gauss-Seidel / ILU solves', [])
_bounded('C10', 'memory safety and frame obligations of every unit', [])
_bounded('C13', 'block / complex adapters', [])
_bounded('C16', 'reordering and skyline LU structure', [])
_bounded('C17', 'matrix adapters', [])
_bounded('C19', 'binary reader safety', [])
PROPS['C10']['safety_only'] = True
for _p in ('C01', 'C15', 'C05', 'C02', 'C03', 'C18'):
    PROPS[_p] = dict(
        level='proof',
        claim='Typestate + ghost-trace contracts on the real orchestration bodies (solver operator(), cycle, apply), every backend primitive replaced by its contract; inductive loop contracts, no bound on sizes or iteration counts.',
        note='Decides the data-flow / call-sequence clauses of the property (see evidence clauses_decided / clauses_not_decided); spectral and floating-point clauses are not decided by this family.',
        technique='CBMC code contracts (dfcc) on solver/preconditioner bodies extracted from /repo; callee contracts replaced at call sites; typestate and ghost call-trace; uninterpreted scalar algebra',
        explanation='Contracts on the orchestration layer: see units[].',
        decided=[], not_decided=[], trusted=COMMON_TRUST)


NOT_APPLICABLE = {
    'C01': 'units not built yet (planned: typestate contracts on the solver bodies)',
    'C02': 'units not built yet (planned: typestate + trace contracts on amg::cycle/apply)',
    'C03': 'units not built yet',
    'C04': 'units not built yet',
    'C05': 'units not built yet',
    'C06': 'units not built yet',
    'C08': 'units not built yet',
    'C09': 'units not built yet',
    'C10': 'units not built yet',
    'C11': 'Distributed (MPI) algebra: CBMC has no model of MPI or of message arrival order; no contract within reach expresses "equals the serial operation on the assembled matrix for every partition".',
    'C12': 'Distributed solve: same as C11 (MPI_* calls, communicators, rank-dependent control flow are outside the C view and outside CBMC).',
    'C13': 'units not built yet',
    'C14': 'Run-time configuration goes through boost::property_tree, string keys, macros and type-erased wrappers; none of it can be brought into CBMC\'s C front end and the statement is about consistency of hand-mirrored parameter lists, not a function pre/postcondition.',
    'C15': 'units not built yet',
    'C16': 'units not built yet',
    'C17': 'units not built yet',
    'C18': 'units not built yet',
    'C19': 'units not built yet',
    'C20': 'lib/amgcl.cpp is boost property_tree / iterator_range / transform iterators with lambdas over type-erased runtime wrappers; nothing in it is within the C view, and the statement is an equivalence of two whole-library executions.',
}
