"""Per-property meta data: level claimed, what is decided / not decided, trusted base.
The units that serve a property are found through Unit.props.  MANIFEST.json is
generated from this file by tools/gen_manifest.py (a property without units is
listed under not_applicable with the reason given in NOT_APPLICABLE)."""

HOOK_COMMITS = []

NOTES = ('Contract-based deductive verification with CBMC 6.11 code contracts (goto-instrument --dfcc). '
         'The verified text is cut from /repo headers on every run (cxc/extract.py) and brought to C by logged '
         'must-fire rewrite rules; contracts are side-car specs in units/*.py. Units are tagged proved '
         '(inductive / loop-free, unbounded) or bounded (harness-enforced contract, loops unwound, all inputs up to the '
         'stated size); only the former count as proof. Exit 2 = tool problem (timeout, extraction break, vacuity guard), '
         'never a violation. See DESIGN.md sections 8-10.')

COMMON_TRUST = [
    'A-extract: the logged C++->C rewrite rules preserve meaning (bodies are cut from /repo on every run; unit rules must fire the declared number of times; see build/<unit>/drop_report.json)',
    'A-inst: templates are verified at the listed instantiations only',
    'CBMC 6.11.0 (goto-cc, goto-instrument --dfcc, SAT back end) is sound',
]

TECH_PROOF = 'CBMC code contracts (goto-instrument --dfcc) on function bodies extracted from /repo: requires/ensures/assigns, inductive loop invariants, callee contracts replaced at call sites, typestate + ghost trace, uninterpreted value algebra'
TECH_BOUNDED = 'CBMC contracts on function bodies extracted from /repo; inductive (dfcc, loop contracts) where invariants are quantifier-free, otherwise harness-enforced contract with loops unwound (bounded: all inputs up to a stated size)'

PROPS = {}


def _p(pid, level, claim, note, technique, decided, not_decided, design_ref, safety_only=False):
    PROPS[pid] = dict(level=level, claim=claim, note=note, technique=technique, explanation=claim,
                      decided=decided, not_decided=not_decided, trusted=COMMON_TRUST, design_ref=design_ref,
                      safety_only=safety_only)


_p('C01', 'proof',
   'Function contracts on the real solver bodies (operator()(A,P,rhs,x)), every backend primitive replaced by its typestate contract, inductive loop contracts: all obligations discharged for all sizes and iteration counts. Decides the data-flow clauses: iteration budget; the number returned is (last norm evaluated)/||rhs|| and that norm was taken of the solver\'s residual vector in its final state (for Richardson and the GMRES family: of residual(rhs,A,x) of the x that is returned); stopping before the budget means the reported residual passed the test.',
   'Not decided: that a recursively updated residual equals f - A x up to rounding (real-vector algebra), rounding bounded by conditioning, convergence of every coarsening x relaxation x solver combination within 100 iterations, Richardson rate. Trusted: typestate abstraction of the backend primitives (justified by the C07 units), preconditioner honours its contract.',
   TECH_PROOF,
   ['iteration count <= maxiter', 'returned residual == norm of the solver residual vector at exit / ||rhs||', 'x and residual updates paired', 'early stop implies test passed'],
   ['carried residual equals true residual up to rounding', 'convergence within budget', 'Richardson contraction rate'],
   'DESIGN.md sections 4.2, 6 (C01), 8.4')

_p('C02', 'proof',
   'Contracts on amg::cycle (recursion by contract) and amg::apply: every scratch vector of every level may hold anything on entry (independence of earlier applications), x is output only for apply, and one visit of a level performs exactly the prescribed call sequence with the prescribed arguments for any ncycle/npre/npost/pre_cycles; Gauss-Seidel uses the forward sweep as pre- and the backward sweep as post-smoother.',
   'Hierarchy depth <= 4 (the well-formedness of the hierarchy is an explicit conjunction over levels); linearity follows from the proved call structure given linear primitives but is not machine-checked. Not decided: symmetry/positive definiteness of the cycle operator, spectral radius of I - BA, exact power-of-two scaling.',
   TECH_PROOF,
   ['cycle/apply are functions of (rhs, hierarchy) only: no scratch vector read before written', 'exact call sequence and arguments per level visit', 'forward/backward Gauss-Seidel dispatch'],
   ['B symmetric positive definite', 'rho(I - BA) < 1', 'power-of-two scaling'],
   'DESIGN.md sections 6 (C02), 8.4')

_p('C03', 'other',
   'MIXED: call-level clauses proved without bound, kernel-level clauses bounded (see units_proved_unbounded / units_bounded_standin and the two obligation counts in the evidence). Provenance contracts on the setup call chain: galerkin == product(R, product(A,P)); scaled_galerkin == scale of it; aggregation::coarse_operator uses 1/over_interp; level::step_down keeps and stores exactly the transfer operators chosen and returns coarse_operator(A,P,R); level::rebuild recomputes level operator, smoother, coarse solver from the new matrix and the coarse matrix from the new matrix and the STORED operators; amg::rebuild refuses without allow_rebuild / on shape mismatch and rebuilds every level once, in order, each from the previous level\'s result. The kernels the chain is built from (product through both SpGEMM algorithms, transpose, scale, sort_rows) are the C08 units, listed here as supporting units: bounded unless marked proved.',
   'The call chain is proved (no bound); that product/transpose/scale/sort_rows equal their dense definitions is decided by the C08 kernel units that also serve this property (bounded stand-ins, listed separately in the evidence: units_bounded_standin / obligations_in_bounded_units). Not decided: strict decrease of level sizes (data dependent), Ruge-Stuben R, do_init last-level decision (unit not built), bitwise equality of rebuilt and fresh hierarchy.',
   TECH_BOUNDED,
   ['coarse = R*A*P (re-scaled for plain aggregation) as a term over product/scale', 'rebuild reuses stored P,R and the new A', 'rebuild order and chaining'],
   ['level sizes strictly decrease', 'last level direct/smoother decision in do_init', 'Ruge-Stuben'],
   'DESIGN.md sections 6 (C03), 8.4')

_p('C04', 'other',
   'Bounded contract check of the aggregation kernels (plain_aggregates, pointwise_aggregates block path, tentative_prolongation without null space): for ALL matrices up to the stated size (pattern and values symbolic) the aggregates partition the strongly connected variables into non-empty contiguous aggregates, isolated variables are removed, block unknowns travel together, tentative P has one unit entry per aggregated row.',
   'Bounded stand-in (marker arrays / greedy passes need quantified invariants). Not decided: near-null-space branch (floating-point QR), smoothed-aggregation values, Ruge-Stuben, emin.',
   TECH_BOUNDED,
   ['aggregates partition (bounded)', 'block path consistency (bounded)', 'tentative prolongation structure (bounded)'],
   ['near-null-space QR branch', 'smoothed P values and row sums', 'Ruge-Stuben interpolation'],
   'DESIGN.md section 6 (C04)')

_p('C05', 'proof',
   'Richardson: the k-th iterate is k repetitions of { s = P r; x = damping*s + 1*x; r = rhs - A x; ||r|| } after one initial residual (call-sequence contract, inductive, any k); preonly: exactly one P.apply(rhs, x). For CG, BiCGStab, BiCGStab(L), GMRES, FGMRES, LGMRES and IDR(s) the solver contracts pin the DATA-FLOW SKELETON of the iterates only: which vectors are combined into x and when (e.g. GMRES family: x advanced once per restart cycle by lin_comb over the Krylov basis written in this call; budget; no vector of an earlier call enters).',
   'Decides the Richardson / preonly clause and the data-flow skeleton of the other methods. Not decided: A-norm optimality of CG, residual minimisation of GMRES/FGMRES/LGMRES, agreement with a dense reference, finite termination (real/floating-point vector algebra: the values of the Hessenberg / small-system coefficients are not tracked).',
   TECH_PROOF,
   ['Richardson returns x + omega P (f - A x) repeated k times (as a call sequence)', 'preonly is one preconditioner application', 'Krylov solvers: which vectors are combined into x, once per cycle / step, from data of this call only'],
   ['CG / GMRES optimality', 'agreement with dense reference', 'finite termination'],
   'DESIGN.md section 6 (C05)')

_p('C06', 'other',
   'MIXED: call-level clauses proved without bound, kernel-level clauses bounded (see units_proved_unbounded / units_bounded_standin and the two obligation counts in the evidence). Call-level contracts (loop-free, proved): apply_pre/apply_post/apply of damped Jacobi, SPAI-0, ILU(0)/ILU(k)/ILUT and Gauss-Seidel are exactly residual(rhs,A,x,tmp) from the incoming x followed by the documented M^-1 application and update. Kernel level (bounded units, listed in the evidence): Gauss-Seidel serial sweep, ILU triangular solve, SPAI-0 / ILU(0) constructors.',
   'ILU(0) constructor (bounded): every stored L / U / D value equals its term of the IKJ recurrence over uninterpreted arithmetic and updates for positions outside the pattern are discarded. Not decided: the product identity (LU)_ij = a_ij itself / exactness on tridiagonal matrices (needs exact division; follows from the recurrence the units pin), SPAI-1, that the Chebyshev coefficients realise the minimal polynomial.',
   TECH_BOUNDED,
   ['each sweep is x + M^-1 (f - A x) as a call sequence (proved)', 'kernels: see bounded units'],
   ['ILU factor exactness', 'SPAI-1', 'Chebyshev polynomial'],
   'DESIGN.md sections 6 (C06), 8.4')

_p('C07', 'other',
   'MIXED: builtin backend proved without bound (all vector and matrix-vector primitives, every value type), block_crs backend bounded (see the two obligation counts in the evidence). Function contracts (requires/ensures/assigns + inductive loop invariants with a ghost index) on the builtin backend primitives axpby, axpbypcz, vmul, copy, clear; spmv/residual (matrix_ops.hpp) where present: every obligation discharged for all vector lengths and, through the uninterpreted value model, for every value type; with a zero output coefficient the result term does not mention the old output (NaN/Inf clause).',
   'Decides the builtin backend (proved) and block_crs spmv / residual / constructor (bounded); Eigen, hybrid backends and the reinterpret_cast scalar-as-block overloads are outside the C view. OpenMP pragmas are dropped (iterations verified sequentially; disjoint writes are part of the invariant).',
   TECH_BOUNDED,
   ['axpby/axpbypcz/vmul/copy/clear equal their defining formula at every index, every n, every value type', 'zero coefficient: old output not read'],
   ['Eigen / hybrid backends', 'scalar-as-block overloads'],
   'DESIGN.md section 6 (C07)')

_p('C08', 'other',
   'Bounded contract check of the sparse kernels (transpose, product/spgemm_saad, sum, scale, sort_row(s), diagonal, pointwise_matrix, CRS constructors, Gershgorin branch of spectral_radius ...): for ALL inputs up to the stated size (pattern and values symbolic, unsorted rows, duplicates, empty rows/columns, rectangular) the result is well-formed CRS and its dense view equals the defining formula; index-safety and frame obligations included. Units closed with inductive loop contracts are listed as proved.',
   'Bounded stand-in: invariants over marker arrays / counting sorts need quantifiers CBMC cannot use here. Values at a commutative ring (int32) so that the dense definition is order independent. Power-method branch of spectral_radius (bounded): the estimate is the Rayleigh sum of the last iteration over uninterpreted arithmetic. Not decided: Gershgorin bound vs true spectral radius (a theorem about the proved formula), that the Rayleigh quotient bounds the spectrum, the random start vector.',
   TECH_BOUNDED,
   ['kernels equal their dense definitions up to the bound', 'well-formed CRS output'],
   ['Gershgorin / power-method bounds on the true spectrum'],
   'DESIGN.md section 6 (C08)')

_p('C09', 'other',
   'Bounded contract check of the level schedules of the parallel Gauss-Seidel sweep and the level-scheduled ILU triangular solves: for ALL matrices up to the stated size and thread counts no two rows that read or write each other\'s unknown share a level, the order is a permutation sorted by level, per-thread task ranges partition each level, the packed per-thread copies reproduce the rows.',
   'CBMC has no thread semantics for this code: the claim is the schedule (the last sentence of the property); that the OpenMP runtime runs each task once and separates levels by barriers is assumed (A-omp). Not decided: bitwise identity of whole setups across thread counts, reductions.',
   TECH_BOUNDED,
   ['schedule never co-schedules dependent rows (bounded)', 'order/ranges/packed copies consistent (bounded)'],
   ['OpenMP runtime behaviour', 'bitwise identity across thread counts', 'reduction rounding'],
   'DESIGN.md section 6 (C09)')

_p('C10', 'other',
   'Union of the memory-safety and frame obligations (pointer dereference, array bounds, logical bounds of output arrays, signed overflow, conversion, assigns-clause inclusion, unwinding assertions) of EVERY unit under contract, proved units and bounded units reported separately; fresh allocations have nondeterministic content, so every postcondition proved holds for every prior heap content; object workspaces enter every call undefined (typestate units).',
   'Only safety-class obligations count for this property. Quick tier: first size-variant of every unit (vacuity guard exercised by the functional properties\' checks of the same units); thorough tier: every variant. Not decided: leak freedom and shared_ptr lifetimes, allocation-address independence, third-party paths, functions that are not under contract.',
   TECH_BOUNDED,
   ['no out-of-bounds / overflow / frame violation in any unit under contract (proved units: all sizes; bounded units: up to the bound)', 'no dependence on uninitialised memory in the units under contract'],
   ['leaks / lifetimes', 'functions outside the listed units'],
   'DESIGN.md section 6 (C10)', safety_only=True)
# C10 re-runs every unit under contract: the quick tier takes the first size-variant of each unit and leaves the vacuity guard to
# the functional properties' own checks of the same units; the thorough tier runs everything
PROPS['C10']['quick_first_variant_only'] = True
PROPS['C10']['skip_vacuity'] = True

_p('C13', 'other',
   'Contracts on the complex / block matrix adapters\' row iterators and unblock_matrix where present (loop-free parts proved, loops bounded); mixed precision: builtin spmv / residual accumulate the row sum in a type of at least the precision of the result vector (precision ranks of the template arguments are symbolic ghost inputs; proved); make_block_solver forwards the caller\'s matrix and the block views of rhs / x to the wrapped solver exactly once and returns its result (call-level, proved).',
   'Solutions through the wrappers, mixed precision actually reaching 1e-8 (a floating-point convergence statement) and the hybrid backend are not decided.',
   TECH_BOUNDED, ['adapter row iterators reproduce the scalar entries', 'row sums of spmv / residual are not rounded to a lower-precision matrix type'], ['wrapper solves', 'mixed precision convergence', 'hybrid backend'],
   'DESIGN.md section 6 (C13)')

_p('C15', 'proof',
   'Same contracts as C01/C02/C03/C18: every mutable member (Krylov work vectors, level scratch, composite-preconditioner work vectors) enters the call undefined, i.e. holding whatever any earlier call -- diverged, NaN, thrown -- left there, and no primitive precondition fails, so each call\'s outputs are a function of that call\'s arguments and the immutable setup; zero right-hand side returns the zero vector in zero iterations; an initial guess within tolerance is returned unchanged in zero iterations; rhs and the matrix are never written.',
   'Documented exceptions are stated as preconditions (LGMRES with always_reset false; BiCGStab with check_after). Scalar workspace arrays of the GMRES family / IDR(s) as far as the solver units cover them.',
   TECH_PROOF,
   ['no state leaks between calls (typestate)', 'zero rhs exit', 'converged guess returned unchanged', 'rhs / A never modified'],
   ['solver bodies without a unit'],
   'DESIGN.md sections 4.2, 6 (C15), 8.4')

_p('C16', 'other',
   'Bounded contract check: Cuthill-McKee returns a permutation of 0..n-1 for every pattern up to the bound (disconnected, non-symmetric, with/without diagonal); skyline LU: permutation/profile structure, index safety of factorize and solve, every factor cell read was written.',
   'Not decided: factors multiply back to A / exact or backward-stable solve (needs field arithmetic), detail::inverse, detail::QR, static_matrix identities, solver/eigen.hpp.',
   TECH_BOUNDED, ['Cuthill-McKee permutation (bounded)', 'skyline LU structure and safety (bounded)'],
   ['exactness of LU', 'inverse', 'QR', 'static_matrix algebra'],
   'DESIGN.md section 6 (C16)')

_p('C17', 'other',
   'zero_copy / zero_copy_direct alias the caller\'s arrays, own_data false, nothing allocated or freed, free_data honours own_data (loop-free, proved); CRS range / row-iterator constructors reproduce the source matrix (bounded).',
   'Eigen, uBlas, crs_builder, reorder/scaled_problem adapters, CPR/Schur acceptance of unsorted input are not decided.',
   TECH_BOUNDED, ['zero-copy adapters never copy or free user memory (proved)', 'CRS constructors reproduce the source (bounded)'],
   ['Eigen / uBlas / crs_builder', 'reorder and scaling adapters'],
   'DESIGN.md section 6 (C17)')

_p('C18', 'other',
   'MIXED: call-level clauses proved without bound, kernel-level clauses bounded (see units_proved_unbounded / units_bounded_standin and the two obligation counts in the evidence). Call-sequence contracts (loop-free, proved for all inputs): schur_pressure_correction::apply realises the block elimination of type 1 and the block-triangular solve of type 2 step by step with the prescribed operands, its matrix-free spmv is beta y + alpha Kpp\' x - alpha Kpu (U^-1|M) Kup x for every adjust_p / approx_schur setting; cpr::apply is x = S f + Scatter P Fpp (f - A S f); preonly is one preconditioner application; work vectors enter undefined.',
   'That the proved sequence is the exact inverse given exact inner solves is the textbook block-LU identity (not machine-checked). Not decided: sub-block extraction (unless a bounded unit is listed), CPR pressure weighting (floating-point block inverse), deflated solver.',
   TECH_BOUNDED,
   ['Schur type 1 / type 2 call sequences', 'Schur complement product formula', 'CPR two-stage formula'],
   ['exact-inverse identity', 'CPR weighting', 'deflated solver'],
   'DESIGN.md sections 6 (C18), 8.4')

_p('C19', 'other',
   'Bounded contract checks of the readers.  Binary reader (io::read_crs, read_dense, crs_size; abstract file = symbolic byte array of symbolic length up to the bound): for EVERY file content and length the reader either throws or returns with every access in bounds and a structurally valid matrix; row-range read equals the slice of the full read on well-formed files.  MatrixMarket coordinate and dense readers (io::mm_reader::operator(), real bodies, text parsing abstracted to an entry stream with symbolic per-line parse failures, truncation and index values): range read == slice of the full read, symmetric storage expanded to the full matrix, sorted well-formed CRS, throws exactly on wrong kind / bad or negative sizes / truncation / unparsable line / index outside the matrix, every vector access in bounds.',
   'Text parsing itself (number syntax, the decimal round trip of values), the MatrixMarket banner parsing and all writers are outside CBMC\'s reach. The abstract file (read/seekg/fail bit) and the abstract entry stream are trusted models.',
   TECH_BOUNDED, ['binary reader: no out-of-bounds, no invalid matrix for any file up to the bound', 'MatrixMarket coordinate reader: slice property, symmetric expansion, clean failure on damaged entries (parsing abstracted)'],
   ['decimal round trip', 'writers', 'MatrixMarket banner parsing'],
   'DESIGN.md sections 6 (C19), 9 (F4, F14), 10 (C19d)')

NOT_APPLICABLE = {
    'C01': 'units not present',
    'C02': 'units not present',
    'C03': 'units not present',
    'C04': 'units not present',
    'C05': 'units not present',
    'C06': 'units not present',
    'C08': 'units not present',
    'C09': 'units not present',
    'C10': 'units not present',
    'C11': 'Distributed (MPI) algebra: CBMC has no model of MPI or of message arrival order; no contract within reach expresses "equals the serial operation on the assembled matrix for every partition".',
    'C12': 'Distributed solve: same as C11 (MPI_* calls, communicators, rank-dependent control flow are outside the C view and outside CBMC).',
    'C13': 'No unit finished: block_matrix_adapter / complex adapter iterators are operator-overloaded class code outside the C view built so far; wrapper solves and mixed precision are floating-point convergence statements.',
    'C14': 'Run-time configuration goes through boost::property_tree, string keys, macros and type-erased wrappers; none of it can be brought into CBMC\'s C front end and the statement is about consistency of hand-mirrored parameter lists, not a function pre/postcondition.',
    'C15': 'units not present',
    'C16': 'units not present',
    'C17': 'units not present',
    'C18': 'units not present',
    'C19': 'units not present',
    'C20': 'lib/amgcl.cpp is boost property_tree / iterator_range / transform iterators with lambdas over type-erased runtime wrappers; nothing in it is within the C view, and the statement is an equivalence of two whole-library executions.',
}
