"""cxc.run -- run every unit that serves a property, decide, write evidence."""
import concurrent.futures as cf
import glob
import hashlib
import importlib.util
import json
import os
import re
import subprocess
import sys
import time

from . import driver as D
from . import extract as X

VERIF = D.VERIF
SAFETY_PAT = re.compile(r'pointer_dereference|array_bounds|overflow|pointer_arithmetic|assigns|'
                        r'division|pointer_primitives|unwind|\.idx\.|is_fresh|frees|conversion|'
                        r'precondition_instance|pointer\b|safety|frame:|not modified|uninitiali|never freed|leak', re.I)


def load_units():
    units = []
    if os.path.join(VERIF, 'units') not in sys.path:
        sys.path.insert(0, os.path.join(VERIF, 'units'))
    for p in sorted(glob.glob(os.path.join(VERIF, 'units', '*.py'))):
        if os.path.basename(p).startswith('_'):
            continue
        spec = importlib.util.spec_from_file_location('units.' + os.path.basename(p)[:-3], p)
        m = importlib.util.module_from_spec(spec)
        spec.loader.exec_module(m)
        units.extend(getattr(m, 'UNITS', []))
    names = [u.name for u in units]
    assert len(names) == len(set(names)), 'duplicate unit names'
    return units


def load_props():
    spec = importlib.util.spec_from_file_location('props', os.path.join(VERIF, 'props.py'))
    m = importlib.util.module_from_spec(spec)
    spec.loader.exec_module(m)
    return m.PROPS


def known_findings():
    p = os.path.join(VERIF, 'known_findings.json')
    if not os.path.exists(p):
        return []
    with open(p) as f:
        return json.load(f).get('findings', [])


def is_safety(ob):
    return bool(SAFETY_PAT.search(ob['name'])) or bool(SAFETY_PAT.search(ob.get('description', '')))


def repo_rev():
    try:
        h = subprocess.check_output(['git', '-C', X.REPO, 'rev-parse', '--short', 'HEAD'], stderr=subprocess.DEVNULL).decode().strip()
        d = subprocess.check_output(['git', '-C', X.REPO, 'status', '--porcelain', '--', 'amgcl', 'lib'], stderr=subprocess.DEVNULL).decode().strip()
        return h + ('+dirty' if d else '')
    except Exception:
        return 'unknown'


_REPLAY_BUILT = {}


def native_replay(unit, replay_path):
    """compile replay/<driver>.cpp against the real /repo headers and run it on the
    replay file.  returns dict(reproduced=bool|None, detail=str)"""
    if not unit.replay:
        return {'reproduced': None, 'detail': 'no native replay driver for this unit'}
    src = os.path.join(VERIF, 'replay', unit.replay + '.cpp')
    if not os.path.exists(src):
        return {'reproduced': None, 'detail': 'replay driver missing: ' + src}
    bdir = os.path.join(D.BUILD, 'replay')
    os.makedirs(bdir, exist_ok=True)
    try:
        with open(replay_path) as fh:
            doc = json.load(fh)
        wit = doc.get('witness') or {}
        with open(replay_path + '.in', 'w') as fh:
            for k, v in sorted(wit.items()):
                if isinstance(v, list):
                    vals = [x for x in v]
                else:
                    vals = [v]
                vals = [(1 if x is True else 0 if x is False or x is None else x) for x in vals]
                if all(isinstance(x, (int, float)) for x in vals):
                    fh.write('%s %d %s\n' % (k, len(vals), ' '.join(repr(float(x)) if isinstance(x, float) else str(x) for x in vals)))
            for k, v in sorted((doc.get('variant') or {}).items()):
                fh.write('D_%s 1 %s\n' % (k, v))
    except Exception as e:
        return {'reproduced': None, 'detail': 'cannot write witness input: %r' % (e,)}
    exe = os.path.join(bdir, unit.replay)
    cmd = ['g++', '-std=c++11', '-O1', '-g', '-fopenmp', '-DAMGCL_VERIF', '-D_GLIBCXX_ASSERTIONS',   # checked std::vector subscripts in the real library
           '-I', X.REPO,
           '-I', os.path.join(VERIF, 'replay'), src, '-o', exe]
    if getattr(unit, 'replay_asan', False):
        cmd[1:1] = ['-fsanitize=address,undefined', '-fno-omit-frame-pointer']
    # one compile per (driver, flags, tree) and process: a defect that fails many obligations is replayed once per
    # obligation, the driver binary is the same for all of them
    ckey = (src, tuple(cmd), os.path.realpath(X.REPO))
    if not os.path.exists(exe) or _REPLAY_BUILT.get(ckey) != os.path.getmtime(exe):   # also rebuilt when another run replaced the binary
        try:
            p = subprocess.run(cmd, stdout=subprocess.PIPE, stderr=subprocess.STDOUT, timeout=600)
        except subprocess.TimeoutExpired:
            return {'reproduced': None, 'detail': 'replay compile timeout'}
        if p.returncode != 0:
            return {'reproduced': None, 'detail': 'replay driver does not compile against the current tree: '
                    + p.stdout.decode('utf-8', 'replace')[-1500:]}
        _REPLAY_BUILT[ckey] = os.path.getmtime(exe)
    try:
        env = dict(os.environ)
        env.setdefault('OMP_NUM_THREADS', '4')
        env['ASAN_OPTIONS'] = 'detect_leaks=0:abort_on_error=0:exitcode=77'
        p = subprocess.run([exe, unit.name, replay_path], stdout=subprocess.PIPE, stderr=subprocess.PIPE,
                           timeout=300, env=env)
    except subprocess.TimeoutExpired:
        return {'reproduced': None, 'detail': 'replay run timeout'}
    out = p.stdout.decode('utf-8', 'replace')
    err = p.stderr.decode('utf-8', 'replace')
    if p.returncode == 1:
        return {'reproduced': True, 'detail': out[-3000:]}
    if p.returncode == 77 or 'AddressSanitizer' in err or 'runtime error' in err:
        return {'reproduced': True, 'detail': (out[-1000:] + '\n' + err[-3000:])}
    if p.returncode == 0:
        return {'reproduced': False, 'detail': out[-2000:]}
    return {'reproduced': None, 'detail': 'replay driver rc=%d: %s' % (p.returncode, (out + err)[-1500:])}


def run_property(pid, tier, seed, only_units=None, quiet=False):
    t0 = time.time()
    PROPS = load_props()
    meta = PROPS[pid]
    units = [u for u in load_units() if pid in u.props]
    if only_units:
        units = [u for u in units if u.name in only_units]
    if not units:
        print('no units serve', pid)
        return 2
    errors = []
    jobs = []
    reports = {}
    del X.DEVIATIONS[:]
    for u in units:
        bdir = os.path.join(D.BUILD, u.name)
        try:
            D.clean(u)
            cpath, rep, ranges = D.assemble(u, bdir)
            reports[u.name] = rep
        except X.ExtractError as e:
            errors.append('%s: extraction: %s' % (u.name, e))
            continue
        variants = u.variants
        if tier == 'thorough' and u.thorough_variants:
            variants = u.thorough_variants
        if tier == 'quick' and meta.get('quick_first_variant_only'):
            # the aggregate property (C10) re-runs every unit: in the quick tier one variant per unit, all in thorough
            variants = variants[:1]
        for k, d in enumerate(variants):
            jobs.append((u, cpath, ranges, 'v%d' % k, d, bdir))
    results = []
    workers = int(os.environ.get('VERIF_JOBS', '16'))
    with cf.ThreadPoolExecutor(max_workers=workers) as ex:
        skipv = bool(meta.get('skip_vacuity'))
        futs = [ex.submit(D.verify_variant, u, cpath, ranges, vn, dict(d, CXC_NOCOVER=1) if skipv else d, bdir, tier)
                for (u, cpath, ranges, vn, d, bdir) in jobs]
        for f in futs:
            results.append(f.result())

    # ------------------------------------------------------------ vacuity, per unit:
    # every line / canary of the extracted bodies must be reachable in at least one variant
    for u in units:
        rs = [r for r in results if r.unit is u and r.cover and 'unreached' in r.cover and not r.error]
        if not rs:
            continue
        dead = set(rs[0].cover['unreached'])
        for r in rs[1:]:
            dead &= set(r.cover['unreached'])
        if dead:
            txt = {}
            for r in rs:
                txt.update(r.cover.get('unreached_text', {}))
            errors.append('%s: vacuity: unreachable under the contract in every variant: %s'
                          % (u.name, '; '.join('%s %s' % (d, txt.get(d, '')) for d in sorted(dead, key=str)[:6])))
    # ------------------------------------------------------------ decide
    safety_only = meta.get('safety_only', False)
    viol = []
    ignored_functional = 0
    for r in results:
        if r.error:
            errors.append('%s/%s: %s' % (r.unit.name, r.vname, r.error))
        # a failed UNWINDING ASSERTION means the verification bound of a bounded unit was too small for this variant: a
        # tool artefact (exit 2), never a violation
        unw = [f for f in r.failed if '.unwind.' in f['name'] or 'unwinding assertion' in f.get('description', '')]
        if unw:
            errors.append('%s/%s: verification bound too small: unwinding assertion failed (%s)' % (r.unit.name, r.vname, unw[0]['name']))
            # other FAILED obligations of the run are real counterexamples (a failing path within the bound); only the
            # SUCCESSES of a run with incomplete unwinding are not to be trusted -- hence the tool error
            r.failed = [f for f in r.failed if f not in unw]
        for f in r.failed:
            if safety_only and not is_safety(f):
                ignored_functional += 1
                continue
            viol.append((r, f))

    REPLAYS = os.path.join(VERIF, 'replays') if os.path.realpath(X.REPO) == '/repo' else os.path.join(D.BUILD, 'replays_scratch')
    os.makedirs(REPLAYS, exist_ok=True)
    kf = [k for k in known_findings() if (k.get('property') == pid or pid in k.get('also', [])) and k.get('status', 'open') == 'open']
    printed = []
    nviol = 0
    seen = set()
    known_hit = set()
    for r, f in viol:
        u = r.unit
        key = (u.name, re.sub(r'\.\d+$', '', f['name']), f.get('description', '')[:80])
        if key in seen:
            continue
        seen.add(key)
        hid = hashlib.sha1(repr(key).encode()).hexdigest()[:10]
        rp = os.path.join(REPLAYS, '%s_%s_%s.json' % (pid, u.name, hid))
        doc = {'property': pid, 'unit': u.name, 'functions': u.functions,
               'failed_obligation': f['name'], 'description': f.get('description'),
               'c_line': f.get('line'), 'variant': r.defines, 'mode': u.mode,
               'clause': next((v for k, v in u.clauses.items() if re.search(k, f['name'] + ' ' + f.get('description', ''))), None),
               'verifier': r.backend, 'verifier_cmds': r.cmds,
               'verifier_output': os.path.join(D.BUILD, u.name, r.vname + '.cbmc.json'),
               'witness': f.get('witness'), 'repo_rev': repo_rev()}
        os.makedirs(REPLAYS, exist_ok=True)     # (a concurrent clean-up may have removed the directory)
        with open(rp, 'w') as fh:
            json.dump(doc, fh, indent=1, default=str)
        rr = native_replay(u, rp)
        doc['native_replay'] = rr
        with open(rp, 'w') as fh:
            json.dump(doc, fh, indent=1, default=str)
        # known finding?
        hit = None
        for k in kf:
            if re.fullmatch(k.get('unit', ''), u.name) and re.search(k.get('obligation', '.'), f['name'] + ' ' + f.get('description', '')):
                if rr.get('reproduced') and k.get('signature') and k['signature'] not in rr.get('detail', ''):
                    continue
                hit = k
                break
        if hit:
            if hit['id'] not in known_hit:
                known_hit.add(hit['id'])
                printed.append('KNOWN-FINDING: property=%s %s' % (pid, hit['what']))
            continue
        nviol += 1
        line = 'VIOLATION property=%s replay=%s' % (pid, rp)
        if not rr.get('reproduced'):
            line += ' no-failing-input-found'
        printed.append(line)
        printed.append('  unit=%s obligation=%s (%s)' % (u.name, f['name'], f.get('description', '')[:120]))

    # ------------------------------------------------------------ evidence
    tot_ob = sum(r.obligations for r in results)
    tot_ok = sum(r.discharged for r in results)
    proved_units, bounded_units = [], []
    udesc = []
    samples = []
    trusted = set()
    for u in units:
        rs = [r for r in results if r.unit is u]
        ent = {'unit': u.name, 'functions_under_contract': u.functions, 'what': u.desc,
               'mode': 'proved (inductive: loop contracts close every loop, no bound)' if u.mode == 'inductive'
               else ('proved (loop-free, full-domain symbolic inputs)' if u.mode == 'loopfree'
                     else 'bounded: ' + (u.bound_text or 'unwound')),
               'value_model': u.model,
               'variants': len(rs),
               'obligations': sum(r.obligations for r in rs),
               'discharged': sum(r.discharged for r in rs),
               'solver_seconds': round(sum(r.seconds for r in rs), 2),
               'backend': rs[0].backend if rs else None,
               'reachability': [r.cover for r in rs if r.cover][:1],
               'source': {k: {'file': v['source'], 'lines': v['lines'], 'sha': v['repo_text_sha'],
                              'rules_fired': sum(x.get('fired', 0) for x in v['rules']),
                              'dropped_pragmas': len(v['dropped_pragmas'])}
                          for k, v in reports.get(u.name, {}).items()},
               'replaced_callee_contracts': u.replace,
               'not_decided': u.not_decided}
        if rs and rs[0].cmds:
            ent['checker_cmds'] = rs[0].cmds
        udesc.append(ent)
        (proved_units if u.mode in ('inductive', 'loopfree') else bounded_units).append(u.name)
        for a in u.assumptions:
            trusted.add(a)
        for r in rs[:1]:
            for s in r.samples[:2]:
                samples.append(dict(s, unit=u.name))
    if not samples:
        samples = [{'unit': r.unit.name, 'variant': r.defines, 'obligations': r.obligations} for r in results[:3]]
    level = meta['level']
    wall = time.time() - t0
    ev = {
        'property_id': pid, 'tier': tier, 'seed': seed, 'level': level,
        'coverage': {
            'obligations': tot_ob, 'discharged': tot_ok,
            'checker_cmd': 'goto-cc --function <harness> <unit>.c ; goto-instrument --dfcc <harness> '
                           '--enforce-contract <f> [--replace-call-with-contract g]* [--apply-loop-contracts] ; '
                           'cbmc ' + ' '.join(D.BASE_CHECKS) + ' [--unwind k --unwinding-assertions] (cbmc 6.11.0)',
            'trusted_base': sorted(trusted) + meta.get('trusted', []),
            'explanation': meta['explanation'],
            'samples': samples[:12],
            'obligations_in_proved_units': sum(r.obligations for r in results if r.unit.mode in ('inductive', 'loopfree')),
            'obligations_in_bounded_units': sum(r.obligations for r in results if r.unit.mode not in ('inductive', 'loopfree')),
            'units_proved_unbounded': proved_units,
            'units_bounded_standin': bounded_units,
            'units': udesc,
            'clauses_decided': meta.get('decided', []),
            'clauses_not_decided': meta.get('not_decided', []),
            'evaluations': len(results),
            'distinct_nontrivial': len(set((r.unit.name, r.vname) for r in results if r.obligations > 0)),
            'rule': 'one evaluation = one (unit, size-variant) CBMC run with all inputs symbolic; non-trivial = generated >0 obligations',
            'repo_rev': repo_rev(),
            'tool_errors': errors,
            'rule_count_deviations': list(X.DEVIATIONS)[:50],
            'safety_only_filter': safety_only,
            'functional_failures_not_counted_for_this_property': ignored_functional,
        },
        'assumptions': sorted(trusted) + meta.get('trusted', []),
        'wall_s': round(wall, 2),
        'violations': nviol,
    }
    # runs against a scratch copy (mutant testing) or of a unit subset never overwrite the evidence
    evdir = os.path.join(VERIF, 'evidence')
    if os.path.realpath(X.REPO) != '/repo' or only_units:
        evdir = os.path.join(D.BUILD, 'evidence_scratch')
    os.makedirs(evdir, exist_ok=True)
    with open(os.path.join(evdir, pid + '.json'), 'w') as fh:
        json.dump(ev, fh, indent=1, default=str)

    for ln in printed:
        print(ln)
    if not quiet:
        for u in udesc:
            print('  [%s] %-34s %5d/%-5d obligations  %6.1fs  %s' % (
                pid, u['unit'], u['discharged'], u['obligations'], u['solver_seconds'], u['mode'][:40]))
    if nviol:
        return 1
    if errors:
        for e in errors:
            print('ERROR (not a violation): ' + e, file=sys.stderr)
        return 2
    print('%s: %d/%d obligations discharged over %d units (%d runs) in %.1fs' % (
        pid, tot_ok, tot_ob, len(units), len(results), wall))
    return 0
