"""cxc.extract -- cut real function bodies out of /repo headers and bring them to C.

Nothing here knows about any particular amgcl function.  A unit spec names
  * a source file under the repository root,
  * an anchor (regex) that must match exactly once (or the nth match is named),
  * the rewrite rules.  Generic rules may fire any number of times (logged);
    unit rules carry an expected count and the run aborts (ExtractError -> exit 2)
    when the count differs -- a change of the source text that the rules do not
    anticipate is an extraction break, never a violation and never silently ignored.
The result is the C text of the body plus a drop report (what was cut from where,
which rule fired how often, which lines were dropped).
"""
import os
import re

REPO = os.environ.get('VERIF_REPO', '/repo')


class ExtractError(Exception):
    pass


# A unit rule carries the number of times it is expected to fire on the unchanged tree.  A different count means the
# repository text changed.  That is NOT by itself a reason to give up (exit 2): text the rules no longer translate
# reaches goto-cc as C++ and fails to compile (exit 2 then), and text that still translates is judged by the contract --
# which is the whole point.  Deviations are therefore logged (drop report, evidence) and only fatal with
# CXC_STRICT_RULES=1 (used while developing a unit, to notice rules that are dead on the unchanged tree).
STRICT = os.environ.get('CXC_STRICT_RULES', '0') == '1'
DEVIATIONS = []


def _count_deviation(what, pat, n, expected, log):
    if STRICT:
        raise ExtractError('%s %r fired %d times, expected %s' % (what, pat, n, expected))
    d = {'rule': pat, 'fired': n, 'expected': expected, 'note': 'count differs from the unchanged tree'}
    DEVIATIONS.append(d)
    log.append(dict(d, deviation=True))


# ----------------------------------------------------------------------------
# brace / paren matching that skips comments, strings and char literals
# ----------------------------------------------------------------------------
def _skip_trivia(s, i):
    """if s[i:] starts a comment/string/char literal return index after it, else i"""
    if s.startswith('//', i):
        j = s.find('\n', i)
        return len(s) if j < 0 else j
    if s.startswith('/*', i):
        j = s.find('*/', i + 2)
        if j < 0:
            raise ExtractError('unterminated comment')
        return j + 2
    if s[i] == '"' or s[i] == "'":
        q = s[i]
        j = i + 1
        while j < len(s) and s[j] != q:
            if s[j] == '\\':
                j += 1
            j += 1
        return j + 1
    return i


def match_close(s, i):
    """s[i] is one of ( [ { ; return index of the matching closer"""
    pairs = {'(': ')', '[': ']', '{': '}'}
    op = s[i]
    cl = pairs[op]
    depth = 0
    j = i
    while j < len(s):
        k = _skip_trivia(s, j)
        if k != j:
            j = k
            continue
        c = s[j]
        if c == op:
            depth += 1
        elif c == cl:
            depth -= 1
            if depth == 0:
                return j
        j += 1
    raise ExtractError('unbalanced %r starting at offset %d' % (op, i))


def line_of(s, off):
    return s.count('\n', 0, off) + 1


# ----------------------------------------------------------------------------
# cuts
# ----------------------------------------------------------------------------
class Cut(object):
    """One piece of repository text.

    kind 'body'   : anchor matches the signature (up to but excluding the opening
                    brace); the cut is the brace-balanced body *without* the outer
                    braces.  `nth` selects among several matches (default: must be
                    unique).
    kind 'region' : text from the start of the match of `anchor` to the start (or
                    end, with end_inclusive) of the first later match of `end`.
    """

    def __init__(self, src, anchor, kind='body', end=None, nth=None,
                 end_inclusive=False, begin_exclusive=False, rules=(), uf=(),
                 loops=(), name=None, flags=re.S):
        self.src = src
        self.anchor = anchor
        self.kind = kind
        self.end = end
        self.nth = nth
        self.end_inclusive = end_inclusive
        self.begin_exclusive = begin_exclusive
        self.rules = list(rules)
        self.uf = list(uf)
        self.loops = list(loops)
        self.name = name
        self.flags = flags

    def locate(self, text):
        ms = list(re.finditer(self.anchor, text, self.flags))
        if not ms:
            raise ExtractError('anchor not found in %s: %s' % (self.src, self.anchor))
        if self.nth is None:
            if len(ms) != 1:
                raise ExtractError('anchor matches %d times in %s (need 1): %s'
                                   % (len(ms), self.src, self.anchor))
            m = ms[0]
        else:
            if self.nth >= len(ms):
                raise ExtractError('anchor has only %d matches in %s (need #%d): %s'
                                   % (len(ms), self.src, self.nth, self.anchor))
            m = ms[self.nth]
        if self.kind == 'body':
            i = m.end()
            while i < len(text) and text[i] != '{':
                k = _skip_trivia(text, i)
                if k != i:
                    i = k
                    continue
                if text[i] in ';}':
                    raise ExtractError('no body after anchor %s' % self.anchor)
                i += 1
            j = match_close(text, i)
            return i + 1, j, m.group(0)
        else:
            b = m.end() if self.begin_exclusive else m.start()
            m2 = re.compile(self.end, self.flags).search(text, m.end())
            if not m2:
                raise ExtractError('region end not found in %s: %s' % (self.src, self.end))
            e = m2.end() if self.end_inclusive else m2.start()
            return b, e, m.group(0)


class Rule(object):
    """regex rewrite with an expected number of firings.

    count: None = any (generic), int = exactly, '+' = at least once.
    repl may be a string (re.sub syntax) or a callable(match)->str.
    """

    def __init__(self, pat, repl, count=None, flags=re.M, why='', early=False):
        self.early = early
        self.pat = pat
        self.repl = repl
        self.count = count
        self.flags = flags
        self.why = why

    def apply(self, text, log, generic=False):
        new, n = re.subn(self.pat, self.repl, text, flags=self.flags)
        if self.count is not None:
            ok = (n >= 1) if self.count == '+' else (n == self.count)
            if not ok:
                _count_deviation('rule', self.pat, n, self.count, log)
        if n or not generic:
            log.append({'rule': self.pat, 'repl': self.repl if isinstance(self.repl, str) else '<fn>',
                        'fired': n, 'why': self.why})
        return new


def _static_cast(text, log):
    """static_cast<T>(e) -> ((T)(e)) with paren matching"""
    out = []
    i = 0
    n = 0
    pat = re.compile(r'\b(?:static_cast|reinterpret_cast|const_cast)\s*<')
    while True:
        m = pat.search(text, i)
        if not m:
            out.append(text[i:])
            break
        out.append(text[i:m.start()])
        # find matching '>' (types here never contain '>' except nested templates)
        j = m.end()
        depth = 1
        while depth:
            if text[j] == '<':
                depth += 1
            elif text[j] == '>':
                depth -= 1
            j += 1
        ty = text[m.end():j - 1].strip()
        k = j
        while text[k].isspace():
            k += 1
        if text[k] != '(':
            raise ExtractError('static_cast without ( at %d' % k)
        e = match_close(text, k)
        inner = text[k + 1:e]
        out.append('((%s)(%s))' % (ty, inner))
        i = e + 1
        n += 1
    if n:
        log.append({'rule': 'R-cast static_cast<T>(e) -> ((T)(e))', 'fired': n})
    res = ''.join(out)
    if n and pat.search(res):
        return _static_cast(res, log)
    return res


class IdxRule(object):
    """logical-bounds obligations: every subscript  <array>[e]  (array given as a regex
    on the text before the bracket) becomes  <array>[IDX(e, <len>)]; IDX asserts
    0 <= e < len against the *logical* length (allocation is capacity-sized in bounded
    units).  Must fire `count` times ('+' = at least once)."""
    early = False

    def __init__(self, array, length, count='+'):
        self.array = array
        self.length = length
        self.count = count
        self.pat = 'IDX ' + array

    def apply(self, text, log, generic=False):
        out = []
        i = 0
        n = 0
        pat = re.compile(r'(?<![\w.>])(?:%s)\s*\[' % self.array)
        while True:
            m = pat.search(text, i)
            if not m:
                out.append(text[i:])
                break
            k = m.end() - 1
            e = match_close(text, k)
            inner = text[k + 1:e]
            arr = text[m.start():k].strip()
            ln = m.expand(self.length) if '\\' in self.length else self.length
            out.append(text[i:k] + '[IDX(%s, %s, "%s")]' % (inner, ln, arr.replace('"', '')))
            i = e + 1
            n += 1
        ok = (n >= 1) if self.count == '+' else (self.count is None or n == self.count)
        if not ok:
            _count_deviation('IDX rule', self.array, n, self.count, log)
        log.append({'rule': 'R-idx %s[e] -> [IDX(e,%s)]' % (self.array, self.length), 'fired': n})
        return ''.join(out)


GENERIC_RULES = [
    Rule(r'^[ \t]*#[ \t]*pragma[ \t]+omp[^\n]*\n', '/* R-omp: pragma dropped */\n', why='R-omp'),
    Rule(r'^[ \t]*AMGCL_T[IO]C\([^\n]*\);[ \t]*\n', '', why='R-tic'),
    Rule(r'\bmath::(\w+)<\s*([\w:]+)\s*>\(\)', r'MATH_\1(\2)', why='R-ns math::f<T>() -> MATH_f(T)'),
    Rule(r'\bmath::(\w+)\(', r'math_\1(', why='R-ns'),
    Rule(r'\bamgcl::detail::', '', why='R-ns'),
    Rule(r'\bbackend::', '', why='R-ns'),
    Rule(r'\bstd::(\w+)', r'std_\1', why='R-ns std::f -> std_f (prelude)'),
    Rule(r'\bprecondition\(', 'PRECONDITION(', why='R-pre'),
    Rule(r'\bstatic const\b', 'const', why='R-static'),
    Rule(r'\btypename\s+', '', why='R-tmpl'),
    Rule(r'\bnew\s+(\w+)\s*\[([^\]\n]+)\]', r'NEW(\1, \2)', why='R-new'),
    Rule(r'\bdelete\s*\[\]\s*(\w+)\s*;', r'DELETE(\1);', why='R-new'),
    Rule(r'\btrue\b', '1', why='R-bool'),
    Rule(r'\bfalse\b', '0', why='R-bool'),
    Rule(r'\bbool\b', '_Bool', why='R-bool'),
    Rule(r'\bnullptr\b', '0', why='R-bool'),
]


# ----------------------------------------------------------------------------
# value arithmetic -> uninterpreted functions (small precedence parser)
# ----------------------------------------------------------------------------
_tok = re.compile(r'\s*(?:(?P<num>(?:\d+\.\d*|\.\d+|\d+)(?:[eE][-+]?\d+)?[fFuUlL]*)'
                  r'|(?P<id>[A-Za-z_]\w*)'
                  r'|(?P<op>->|[-+*/()\[\],.?:!<>=&|]))')


class _P(object):
    def __init__(self, s):
        self.s = s
        self.i = 0
        self.tok = None
        self.next()

    def next(self):
        m = _tok.match(self.s, self.i)
        if not m:
            if self.s[self.i:].strip() == '':
                self.tok = ('end', '')
                return
            raise ExtractError('UF parser: cannot tokenise %r in %r' % (self.s[self.i:self.i + 10], self.s))
        self.i = m.end()
        self.tok = (m.lastgroup, m.group(m.lastgroup))

    def raw_until_close(self, opener):
        # self.tok is the opener; position self.i is just after it
        start = self.i - 1
        end = match_close(self.s, start)
        txt = self.s[start + 1:end]
        self.i = end + 1
        self.next()
        return txt

    def expr(self):
        left = self.term()
        while self.tok in (('op', '+'), ('op', '-')):
            op = self.tok[1]
            self.next()
            right = self.term()
            left = '%s(%s, %s)' % ('UF_ADD' if op == '+' else 'UF_SUB', left, right)
        return left

    def term(self):
        left = self.unary()
        while self.tok in (('op', '*'), ('op', '/')):
            op = self.tok[1]
            self.next()
            right = self.unary()
            left = '%s(%s, %s)' % ('UF_MUL' if op == '*' else 'UF_DIV', left, right)
        return left

    def unary(self):
        if self.tok == ('op', '-'):
            self.next()
            return 'UF_NEG(%s)' % self.unary()
        if self.tok == ('op', '+'):
            self.next()
            return self.unary()
        if self.tok in (('op', '*'), ('op', '&')):      # pointer deref / address-of: not arithmetic
            op = self.tok[1]
            self.next()
            return '(%s%s)' % (op, self.unary())
        return self.postfix()

    def postfix(self):
        k, v = self.tok
        if k == 'num':
            self.next()
            base = 'UF_CONST(%s)' % v
        elif k == 'id':
            self.next()
            base = v
        elif (k, v) == ('op', '('):
            inner = self.raw_until_close('(')
            # a C cast "(T)(e)" produced by R-cast: keep the type, parse the operand
            if _is_type(inner) and self.tok == ('op', '('):
                arg = self.raw_until_close('(')
                base = '((%s)(%s))' % (inner.strip(), _P(arg).full())
            else:
                base = '(%s)' % _P(inner).full()
        else:
            raise ExtractError('UF parser: unexpected token %r in %r' % (v, self.s))
        while True:
            if self.tok == ('op', '['):
                idx = self.raw_until_close('[')
                base = '%s[%s]' % (base, idx)        # index arithmetic is left alone
            elif self.tok == ('op', '('):
                args = self.raw_until_close('(')
                parts = _split_args(args)
                if base in OPAQUE_CALLS:
                    # call-like macro whose arguments are index expressions (not value arithmetic)
                    base = '%s(%s)' % (base, args)
                else:
                    base = '%s(%s)' % (base, ', '.join(_P(a).full() if a.strip() else '' for a in parts))
            elif self.tok in (('op', '.'), ('op', '->')):
                op = self.tok[1]
                self.next()
                if self.tok[0] != 'id':
                    raise ExtractError('UF parser: member expected in %r' % self.s)
                base = '%s%s%s' % (base, op, self.tok[1])
                self.next()
            else:
                return base

    def full(self):
        e = self.expr()
        if self.tok[0] != 'end':
            raise ExtractError('UF parser: trailing %r in %r' % (self.tok[1], self.s))
        return e


_TYPES = set()
# names of call-like macros whose arguments the UF parser leaves verbatim (index expressions such as
# VREF(b, j+1)); empty by default, units add to it
OPAQUE_CALLS = set()


def _is_type(t):
    return t.strip() in _TYPES or t.strip().endswith('_t') or t.strip() in (
        'int', 'unsigned', 'long', 'double', 'float', 'V', 'S', 'Val', 'Col', 'Ptr', 'C', 'P')


def _split_args(s):
    out = []
    depth = 0
    cur = []
    for ch in s:
        if ch in '([{':
            depth += 1
        elif ch in ')]}':
            depth -= 1
        if ch == ',' and depth == 0:
            out.append(''.join(cur))
            cur = []
        else:
            cur.append(ch)
    out.append(''.join(cur))
    return out


def uf_expr(s):
    return _P(s).full()


class UF(object):
    """rewrite the named group 'e' of every match of pat to UF form.
    count as for Rule."""

    def __init__(self, pat, count='+', flags=re.M):
        self.pat = pat
        self.count = count
        self.flags = flags

    def apply(self, text, log):
        fired = []

        def sub(m):
            e = m.group('e')
            new = uf_expr(e)
            fired.append((e.strip(), new))
            s, t = m.span('e')
            return m.group(0)[:s - m.start()] + new + m.group(0)[t - m.start():]

        new, n = re.subn(self.pat, sub, text, flags=self.flags)
        ok = (n >= 1) if self.count == '+' else (self.count is None or n == self.count)
        if not ok:
            _count_deviation('UF rule', self.pat, n, self.count, log)
        log.append({'rule': 'R-arith ' + self.pat, 'fired': n,
                    'rewrites': [{'from': a, 'to': b} for a, b in fired]})
        return new


class UFArgs(object):
    """rewrite the arithmetic inside every argument of calls  name(args)  (name matched by
    the regex `names`) to UF form.  skip = argument positions that are not value-typed."""
    early = False

    def __init__(self, names, count='+', skip=()):
        self.names = names
        self.count = count
        self.skip = set(skip)
        self.pat = 'UFArgs ' + names

    def apply(self, text, log, generic=False):
        pat = re.compile(r'(?<![\w.>])(?:%s)\s*\(' % self.names)
        out = []
        i = 0
        n = 0
        fired = []
        while True:
            m = pat.search(text, i)
            if not m:
                out.append(text[i:])
                break
            k = m.end() - 1
            e = match_close(text, k)
            args = _split_args(text[k + 1:e])
            new = []
            for j, a in enumerate(args):
                if j in self.skip or not a.strip():
                    new.append(a.strip())
                else:
                    new.append(uf_expr(a))
            out.append(text[i:k] + '(' + ', '.join(new) + ')')
            fired.append(text[m.start():e + 1])
            i = e + 1
            n += 1
        ok = (n >= 1) if self.count == '+' else (self.count is None or n == self.count)
        if not ok:
            _count_deviation('UFArgs rule', self.names, n, self.count, log)
        log.append({'rule': 'R-arith args of ' + self.names, 'fired': n, 'calls': fired[:20]})
        return ''.join(out)


class Cmp(object):
    """comparisons between scalar-valued atoms -> uninterpreted predicates:
    a < b -> UF_LESS(a,b); a > b -> UF_LESS(b,a); a <= b -> UF_LE(a,b); a >= b -> UF_LE(b,a).
    `atom` is a regex for the scalar-valued operands of the unit (names, math_norm(x), ...)."""
    early = False

    def __init__(self, atom, count='+'):
        self.atom = atom
        self.count = count
        self.pat = 'Cmp ' + atom

    def apply(self, text, log, generic=False):
        rx = re.compile(r'(?P<a>%s)\s*(?P<op><=|>=|<|>)\s*(?P<b>%s)' % (self.atom, self.atom))
        fired = []

        def sub(m):
            a, b, op = m.group('a'), m.group('b'), m.group('op')
            fired.append(m.group(0))
            if op == '<':
                return 'UF_LESS(%s, %s)' % (a, b)
            if op == '>':
                return 'UF_LESS(%s, %s)' % (b, a)
            if op == '<=':
                return 'UF_LE(%s, %s)' % (a, b)
            return 'UF_LE(%s, %s)' % (b, a)

        new, n = rx.subn(sub, text)
        ok = (n >= 1) if self.count == '+' else (self.count is None or n == self.count)
        if not ok:
            _count_deviation('Cmp rule', self.atom, n, self.count, log)
        log.append({'rule': 'R-cmp scalar comparisons -> UF_LESS/UF_LE', 'fired': n, 'sites': fired})
        return new


# ----------------------------------------------------------------------------
# loop contracts, keyed by the text of the loop header in the *repository* text
# ----------------------------------------------------------------------------
class Loop(object):
    """header: literal text of the loop header as written in the repository
    (whitespace-insensitive), e.g. 'for(ptrdiff_t i = 0; i < n; ++i)'.
    nth: which occurrence inside the cut (0-based); None = must be unique.
    clauses: the __CPROVER_ loop contract clauses.
    """

    def __init__(self, header, clauses, nth=None, prefix=False, optional=False):
        # optional=True: a loop that may legitimately be absent (then its contract is simply not attached and the
        # function contract has to hold without it -- a dropped loop shows up as a failed postcondition, not as exit 2)
        self.optional = optional
        self.header = header
        self.clauses = clauses
        self.nth = nth
        # prefix=True: `header` is a REGEX matched at the loop keyword (for/while); the
        # clauses are placed after the balanced (...) group that follows the keyword, so
        # that a changed loop condition keeps its contract (and then fails an obligation)
        # instead of breaking extraction
        self.prefix = prefix


def _ws_regex(lit):
    parts = re.findall(r'\w+|[^\w\s]', lit)
    return r'\s*'.join(re.escape(p) for p in parts)


def mark_loops(text, loops, log):
    marks = {}
    for k, lp in enumerate(loops):
        ms = list(re.finditer(lp.header if lp.prefix else _ws_regex(lp.header), text))
        if not ms or (lp.nth is not None and lp.nth >= len(ms)):
            if getattr(lp, 'optional', False):
                log.append({'rule': 'loop-contract NOT attached (optional loop absent)', 'header': lp.header})
                continue
        if not ms:
            raise ExtractError('loop header not found: %s' % lp.header)
        if lp.nth is None:
            if len(ms) != 1:
                raise ExtractError('loop header occurs %d times (give nth): %s' % (len(ms), lp.header))
            m = ms[0]
        else:
            if lp.nth >= len(ms):
                raise ExtractError('loop header occurs only %d times: %s' % (len(ms), lp.header))
            m = ms[lp.nth]
        if lp.prefix:
            kw = re.compile(r'\b(?:for|while)\s*\(').match(text, m.start())
            if not kw:
                raise ExtractError('prefix loop header must start at for/while: %s' % lp.header)
            end = match_close(text, kw.end() - 1) + 1
            marks[k] = end
            log.append({'rule': 'loop-contract attached', 'header': ' '.join(text[m.start():end].split()), 'nth': lp.nth})
            continue
        marks[k] = m.end()
        log.append({'rule': 'loop-contract attached', 'header': lp.header, 'nth': lp.nth})
    # insert from the back so offsets stay valid
    for k, off in sorted(marks.items(), key=lambda kv: -kv[1]):
        text = text[:off] + ' /*@LOOP%d@*/ ' % k + text[off:]
    return text


def fill_loops(text, loops):
    for k, lp in enumerate(loops):
        tag = '/*@LOOP%d@*/' % k
        if getattr(lp, 'optional', False) and text.count(tag) == 0:
            continue
        if text.count(tag) != 1:
            raise ExtractError('loop marker %d lost during rewriting' % k)
        text = text.replace(tag, '\n' + lp.clauses.strip() + '\n')
    return text


# ----------------------------------------------------------------------------
def read_repo(path):
    with open(os.path.join(REPO, path)) as f:
        return f.read()


def add_canaries(text, prefix):
    """insert CANARY("<prefix>.k") after every '{' that opens a compound statement
    following ')' / else / do, and at the start of the text.  With -DCXC_CANARY each
    becomes assert(0) and must FAIL (= the block is reachable under the precondition)."""
    out = []
    n = 0
    i = 0
    last_sig = ''
    out.append(' CANARY("%s.%d");' % (prefix, n))
    n += 1
    while i < len(text):
        k = _skip_trivia(text, i)
        if k != i:
            out.append(text[i:k])
            i = k
            continue
        c = text[i]
        out.append(c)
        if c == '{' and (last_sig == ')' or last_sig in ('else', 'do')):
            out.append(' CANARY("%s.%d");' % (prefix, n))
            n += 1
        if not c.isspace():
            if c.isalnum() or c == '_':
                if last_sig and (last_sig[-1].isalnum() or last_sig[-1] == '_') and i > 0 and (text[i - 1].isalnum() or text[i - 1] == '_'):
                    last_sig += c
                else:
                    last_sig = c
            else:
                last_sig = c
        i += 1
    return ''.join(out), n


def extract(cut, extra_types=(), canaries=None):
    """returns (c_text, report)"""
    for t in extra_types:
        _TYPES.add(t)
    src = read_repo(cut.src)
    b, e, sig = cut.locate(src)
    body = src[b:e]
    log = []
    rep = {'source': cut.src, 'kind': cut.kind,
           'lines': [line_of(src, b), line_of(src, e)],
           'anchor_text': ' '.join(sig.split())[:300],
           'rules': log}
    text = mark_loops(body, cut.loops, log)
    # drops are counted before rewriting
    rep['dropped_pragmas'] = re.findall(r'^[ \t]*#[ \t]*pragma[ \t]+omp[^\n]*', text, re.M)
    for r in cut.rules:
        if getattr(r, 'early', False):
            text = r.apply(text, log)
    text = _static_cast(text, log)
    for r in GENERIC_RULES:
        text = r.apply(text, log, generic=True)
    for r in cut.rules:
        if not getattr(r, 'early', False):
            text = r.apply(text, log)
    for u in cut.uf:
        text = u.apply(text, log)
    text = fill_loops(text, cut.loops)
    if canaries:
        text, nc = add_canaries(text, canaries)
        rep['canaries'] = nc
    rep['repo_text_sha'] = _sha(body)
    return text, rep


def _sha(s):
    import hashlib
    return hashlib.sha1(s.encode()).hexdigest()[:12]
