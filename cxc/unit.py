"""Unit = one function of /repo under contract = one C translation unit + one
goto-instrument --enforce-contract target (+ replaced callee contracts)."""


class Unit(object):
    def __init__(self, name, props, cuts, template, enforce=None, entry=None,
                 replace=(), mode='inductive', unwind=None, variants=None,
                 thorough_variants=None, flags=(), timeout=300, model='uf',
                 assumptions=(), replay=None, desc='', functions=None,
                 types=(), witness=None, bound_text='', cover=True,
                 clauses=None, solver=None, loop_contracts=None, obj_bits=None,
                 defines=None, not_decided=()):
        self.name = name
        self.props = list(props)          # property ids served
        self.cuts = cuts                  # {placeholder: Cut}
        self.template = template          # C text with /*@CUT:placeholder@*/
        self.enforce = enforce            # C function whose contract is enforced
        self.entry = entry or ('h_' + str(enforce))
        self.replace = list(replace)      # callee contracts used instead of bodies
        self.mode = mode                  # 'inductive' | 'unwound'
        self.unwind = unwind
        self.variants = variants or [{}]  # list of {-D name: value}
        self.thorough_variants = thorough_variants
        self.flags = list(flags)
        self.timeout = timeout
        self.model = model                # value model: uf | int32 | double | none
        self.assumptions = list(assumptions)
        self.replay = replay              # name of native replay driver (replay/<name>.cpp)
        self.desc = desc
        self.functions = functions or []  # repo functions under contract (for evidence)
        self.types = list(types)
        self.witness = witness            # list of global names to read from a trace
        self.bound_text = bound_text
        self.cover = cover
        self.clauses = clauses or {}      # obligation name pattern -> property clause text
        self.solver = solver
        self.loop_contracts = (mode == 'inductive') if loop_contracts is None else loop_contracts
        self.obj_bits = obj_bits
        self.defines = defines or {}
        self.not_decided = list(not_decided)
