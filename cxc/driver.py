"""cxc.driver -- extraction -> goto-cc -> goto-instrument --dfcc -> cbmc, per unit
variant; result parsing; vacuity (reachability) run; trace -> witness."""
import json
import os
import re
import resource
import shutil
import signal
import subprocess
import time

from . import extract as X

VERIF = os.path.dirname(os.path.dirname(os.path.abspath(__file__)))
BUILD = os.path.join(VERIF, 'build')
PRELUDE = os.path.join(VERIF, 'prelude')
MEM_LIMIT = int(os.environ.get('VERIF_CBMC_MEM_GB', '14')) * (1 << 30)

BASE_CHECKS = ['--bounds-check', '--pointer-check', '--signed-overflow-check',
               '--conversion-check', '--div-by-zero-check', '--no-malloc-may-fail',
               '--no-standard-checks'] if False else \
              ['--bounds-check', '--pointer-check', '--signed-overflow-check',
               '--conversion-check', '--div-by-zero-check', '--no-malloc-may-fail']


class ToolError(Exception):
    pass


def _limits():
    os.setsid()
    resource.setrlimit(resource.RLIMIT_AS, (MEM_LIMIT, MEM_LIMIT))


def run(cmd, timeout, out_path=None, cwd=None):
    """run a tool; returns (rc, stdout_text, seconds). Output never goes to our stdout."""
    t0 = time.time()
    p = subprocess.Popen(cmd, stdout=subprocess.PIPE, stderr=subprocess.PIPE,
                         preexec_fn=_limits, cwd=cwd)
    try:
        out, err = p.communicate(timeout=timeout)
    except subprocess.TimeoutExpired:
        try:
            os.killpg(p.pid, signal.SIGKILL)
        except OSError:
            pass
        p.communicate()
        raise ToolError('timeout after %ds: %s' % (timeout, ' '.join(cmd[:6])))
    dt = time.time() - t0
    out = out.decode('utf-8', 'replace')
    err = err.decode('utf-8', 'replace')
    if out_path:
        with open(out_path, 'w') as f:
            f.write(out)
        if err.strip():
            with open(out_path + '.err', 'w') as f:
                f.write(err[-20000:])
    return p.returncode, out, err, dt


# ----------------------------------------------------------------------------
def assemble(unit, bdir):
    """extract every cut of the unit from the *current* /repo tree and write the
    C translation unit.  Returns (c_path, drop_report, body_ranges)."""
    os.makedirs(bdir, exist_ok=True)
    text = unit.template
    reports = {}
    bodies = {}
    for key, cut in unit.cuts.items():
        ctext, rep = X.extract(cut, unit.types, canaries=(key if (unit.mode == 'unwound' or unit.cover == 'canary') else None))
        tag = '/*@CUT:%s@*/' % key
        if text.count(tag) != 1:
            raise X.ExtractError('template of %s must contain %s exactly once' % (unit.name, tag))
        bodies[key] = ctext
        reports[key] = rep
    ranges = {}
    # substitute one by one, recording line ranges in the final file
    for key in unit.cuts:
        tag = '/*@CUT:%s@*/' % key
        b = '/*<%s>*/' % key + bodies[key] + '/*</%s>*/' % key
        text = text.replace(tag, b)
    for key in unit.cuts:
        s = text.index('/*<%s>*/' % key)
        e = text.index('/*</%s>*/' % key)
        ranges[key] = (X.line_of(text, s), X.line_of(text, e))
    cpath = os.path.join(bdir, unit.name + '.c')
    with open(cpath, 'w') as f:
        f.write(text)
    with open(os.path.join(bdir, 'drop_report.json'), 'w') as f:
        json.dump(reports, f, indent=1)
    return cpath, reports, ranges


def _parse_cbmc_json(out):
    try:
        data = json.loads(out)
    except ValueError:
        # truncated or polluted output: try to find the array
        i = out.find('[')
        data = json.loads(out[i:])
    results = None
    msgs = []
    status = None
    for m in data:
        if not isinstance(m, dict):
            continue
        if 'result' in m:
            results = m['result']
        if 'messageText' in m:
            msgs.append((m.get('messageType', ''), m['messageText']))
        if 'cProverStatus' in m:
            status = m['cProverStatus']
        if 'goals' in m:
            results = m
    return results, msgs, status


def trace_values(trace, names):
    """last value assigned to each global in `names` (scalars and arrays) along a trace"""
    vals = {}
    want = set(names)

    def conv(v):
        if v is None:
            return None
        if 'elements' in v:
            return [conv(e.get('value')) for e in v['elements']]
        if 'members' in v:
            return {mm['name']: conv(mm.get('value')) for mm in v['members']}
        d = v.get('data')
        if d is None:
            return v.get('name')
        if isinstance(d, str):
            dl = d.lower()
            if dl in ('true', 'false'):
                return dl == 'true'
            try:
                return int(d.rstrip('ulUL'))
            except ValueError:
                try:
                    return float(d.rstrip('fF'))
                except ValueError:
                    return d
        return d

    for st in trace:
        if st.get('stepType') != 'assignment':
            continue
        lhs = st.get('lhs', '')
        base = re.split(r'[\[.]', lhs, 1)[0]
        if base not in want:
            continue
        v = conv(st.get('value'))
        m = re.match(r'^(\w+)\[(\d+)[lLuU]*\]$', lhs)
        if m:
            arr = vals.setdefault(base, {})
            if isinstance(arr, list):
                i = int(m.group(2))
                while len(arr) <= i:
                    arr.append(None)
                arr[i] = v
            else:
                arr[int(m.group(2))] = v
        elif lhs == base:
            vals[base] = v
    # dict-indexed arrays -> lists
    for k, v in list(vals.items()):
        if isinstance(v, dict) and v and all(isinstance(i, int) for i in v):
            n = max(v) + 1
            vals[k] = [v.get(i) for i in range(n)]
    return vals


class VariantResult(object):
    def __init__(self, unit, vname, defines):
        self.unit = unit
        self.vname = vname
        self.defines = defines
        self.obligations = 0
        self.discharged = 0
        self.failed = []          # [{name, description, line, trace_vals}]
        self.seconds = 0.0
        self.error = None         # tool / extraction problem (exit 2)
        self.cover = None         # {lines_with_goals, lines_covered, uncovered: []}
        self.samples = []
        self.cmds = []
        self.loop_steps = 0
        self.backend = 'cbmc 6.11 SAT (minisat2)'


def _resolve_unwindset(uws, gb, cpath, alld):
    """map (line regex, bound expr) pairs to cbmc loop ids via `cbmc --show-loops`"""
    rc, out, err, dt = run(['cbmc', '--show-loops', '--json-ui', gb], 120)
    loops = []
    for m in re.finditer(r'"name":\s*"([^"]+)",\s*"sourceLocation":\s*\{(.*?)\}', out, re.S):
        fm = re.search(r'"file":\s*"([^"]+)"', m.group(2))
        lm = re.search(r'"line":\s*"(\d+)"', m.group(2))
        if fm and lm and os.path.basename(fm.group(1)) == os.path.basename(cpath):
            loops.append((m.group(1), int(lm.group(1))))
    with open(cpath) as f:
        lines = f.read().split('\n')
    env = {kk: int(vv) for kk, vv in alld.items() if str(vv).lstrip('-').isdigit()}
    items = []
    for name, ln in loops:
        text = lines[ln - 1] if 0 < ln <= len(lines) else ''
        for pat, expr in uws:
            if re.search(pat, text):
                items.append('%s:%d' % (name, int(eval(str(expr), {'max': max, 'min': min}, env))))
                break
    return ['--unwindset', ','.join(items)] if items else []


def verify_variant(unit, cpath, ranges, vname, defines, bdir, tier):
    r = VariantResult(unit, vname, defines)
    try:
        _verify_variant(r, unit, cpath, ranges, vname, defines, bdir, tier)
    except ToolError as e:
        r.error = str(e)
    except Exception as e:  # parsing problems etc. are tool errors, never violations
        r.error = 'internal: %r' % (e,)
    return r


def _verify_variant(r, unit, cpath, ranges, vname, defines, bdir, tier):
    dflags = ['-DCXC_CBMC=1', '-I' + PRELUDE]
    alld = dict(unit.defines)
    alld.update(defines)
    for k, v in sorted(alld.items()):
        dflags.append('-D%s=%s' % (k, v))
    gb = os.path.join(bdir, vname + '.gb')
    ib = os.path.join(bdir, vname + '.i.gb')
    cmd = ['goto-cc'] + dflags + ['--function', unit.entry, cpath, '-o', gb]
    r.cmds.append(' '.join(cmd))
    rc, out, err, dt = run(cmd, 120)
    if rc != 0:
        raise ToolError('goto-cc failed on %s: %s' % (unit.name, (out + err)[-1500:]))
    if unit.enforce is None:
        # bounded stand-in: the contract is enforced by the harness itself
        # (assume requires / assert ensures); measured: dfcc instrumentation + unwinding
        # does not finish on the kernel units (DESIGN.md section 1)
        ib = gb
    else:
        cmd = ['goto-instrument', '--dfcc', unit.entry, '--enforce-contract', unit.enforce]
        reps = list(unit.replace)
        if reps:
            # only callees that are actually called exist in the goto binary
            rc0, out0, err0, _ = run(['goto-instrument', '--list-undefined-functions', gb], 120)
            undefined = set(l.strip() for l in out0.split('\n'))
            reps = [g for g in reps if g in undefined]
            r.replaced = reps
        for g in reps:
            cmd += ['--replace-call-with-contract', g]
        if unit.loop_contracts:
            cmd += ['--apply-loop-contracts']
        cmd += [gb, ib]
        r.cmds.append(' '.join(cmd))
        rc, out, err, dt = run(cmd, 300)
        if rc != 0 or not os.path.exists(ib):
            raise ToolError('goto-instrument failed on %s: %s' % (unit.name, (out + err)[-1500:]))
    # unit.drop_checks (optional): base checks a unit switches off, with the reason in its assumptions
    flags = [f for f in BASE_CHECKS if f not in getattr(unit, 'drop_checks', ())] + list(unit.flags)
    if unit.obj_bits:
        flags += ['--object-bits', str(unit.obj_bits)]
    unw = []
    if unit.unwind is not None:
        k = unit.unwind
        if isinstance(k, str):
            k = int(eval(k, {}, {kk: int(vv) for kk, vv in alld.items() if str(vv).lstrip('-').isdigit()}))
        unw = ['--unwind', str(k)]
        # unit.unwindset (optional): [(regex on the C source line of a loop header, bound expr)]
        # -> per-loop limits; loops that match nothing keep the global --unwind.  Unwinding
        # assertions stay on, so a limit that is too small is reported, never silently accepted.
        uws = getattr(unit, 'unwindset', None)
        if uws:
            unw += _resolve_unwindset(uws, ib, cpath, alld)
        flags += unw + ['--unwinding-assertions']
    if unit.solver:
        flags += unit.solver
        r.backend = 'cbmc 6.11 ' + ' '.join(unit.solver)
    cmd = ['cbmc'] + flags + ['--json-ui', '--trace', ib]
    r.cmds.append(' '.join(cmd))
    # thorough tier: larger bounds need more time (and the machine may be shared)
    tmo = unit.timeout * (int(os.environ.get('VERIF_THOROUGH_TIMEOUT_FACTOR', '8')) if tier == 'thorough' else 1)
    rc, out, err, dt = run(cmd, tmo, os.path.join(bdir, vname + '.cbmc.json'))
    r.seconds = dt
    if rc not in (0, 10):
        raise ToolError('cbmc rc=%d on %s/%s: %s' % (rc, unit.name, vname, (err or out)[-800:]))
    results, msgs, status = _parse_cbmc_json(out)
    if results is None:
        raise ToolError('cbmc produced no result list on %s/%s' % (unit.name, vname))
    for ty, m in msgs:
        if 'ignoring' in m:
            raise ToolError('cbmc ignored a construct on %s/%s: %s' % (unit.name, vname, m[:200]))
    for p in results:
        r.obligations += 1
        st = p.get('status')
        name = p.get('property', '?')
        if 'loop_invariant_step' in name or 'loop invariant' in p.get('description', '') and 'step' in name:
            r.loop_steps += 1
        if st == 'SUCCESS':
            r.discharged += 1
            if len(r.samples) < 3 and ('postcondition' in name or 'loop_invariant_step' in name
                                       or 'assigns' in name or 'ensures' in p.get('description', '')):
                r.samples.append({'obligation': name, 'description': p.get('description', '')[:160],
                                  'status': st})
        else:
            f = {'name': name, 'description': p.get('description', ''), 'status': st,
                 'line': (p.get('sourceLocation') or {}).get('line'),
                 'function': (p.get('sourceLocation') or {}).get('function')}
            if unit.witness and p.get('trace'):
                f['witness'] = trace_values(p['trace'], unit.witness)
            r.failed.append(f)
    if r.obligations == 0:
        raise ToolError('zero obligations generated for %s/%s' % (unit.name, vname))
    if unit.loop_contracts:
        nl = sum(len([l for l in c.loops if not getattr(l, 'optional', False)]) for c in unit.cuts.values())
        if nl and r.loop_steps < nl:
            raise ToolError('%s/%s: %d loop contracts declared but only %d loop_invariant_step '
                            'obligations generated (a loop contract was dropped)'
                            % (unit.name, vname, nl, r.loop_steps))
    # vacuity: every line of the extracted bodies for which cbmc has a coverage goal
    # must be reachable under the contract's precondition
    if 'CXC_NOCOVER' in alld:
        # a variant whose precondition deliberately makes part of the body unreachable
        # (reachability is established by the sibling variant of the same unit)
        r.cover = {'skipped': 'variant restricts the precondition; see sibling variant'}
    elif unit.cover and not r.failed and (unit.mode == 'unwound' or unit.cover == 'canary'):
        cgb = os.path.join(bdir, vname + '.canary.gb')
        cmd = ['goto-cc'] + dflags + ['-DCXC_CANARY=1', '--function', unit.entry, cpath, '-o', cgb]
        rc, out, err, dt = run(cmd, 120)
        if rc != 0:
            raise ToolError('goto-cc (canary build) failed on %s: %s' % (unit.name, (out + err)[-800:]))
        if unit.enforce is not None:
            # inductive unit with canaries (cover-location did not finish): same contract instrumentation
            cib = os.path.join(bdir, vname + '.canary.i.gb')
            cmd = ['goto-instrument', '--dfcc', unit.entry, '--enforce-contract', unit.enforce]
            for g in getattr(r, 'replaced', []):
                cmd += ['--replace-call-with-contract', g]
            if unit.loop_contracts:
                cmd += ['--apply-loop-contracts']
            cmd += [cgb, cib]
            rc, out, err, dt = run(cmd, 300)
            if rc != 0 or not os.path.exists(cib):
                raise ToolError('goto-instrument (canary build) failed on %s: %s' % (unit.name, (out + err)[-800:]))
            cgb = cib
        cmd = ['cbmc', '--no-malloc-may-fail', '--no-standard-checks'] + list(unit.flags) + unw + \
              (['--object-bits', str(unit.obj_bits)] if unit.obj_bits else []) + ['--json-ui', cgb]
        r.cmds.append(' '.join(cmd))
        rc, out, err, dt = run(cmd, tmo, os.path.join(bdir, vname + '.canary.json'))
        cres, _, _ = _parse_cbmc_json(out)
        if cres is None:
            raise ToolError('canary run gave no result on %s/%s' % (unit.name, vname))
        can = [p for p in cres if p.get('description', '').startswith('canary ')]
        dead = [p['description'] for p in can if p.get('status') != 'FAILURE']
        exempt = getattr(unit, 'cover_exempt', None)
        if exempt:
            dead = [d for d in dead if not re.search(exempt, d)]
        r.cover = {'canaries': len(can), 'reached': len(can) - len(dead), 'unreached': dead}
        if not can:
            raise ToolError('vacuity: no canaries in %s/%s' % (unit.name, vname))
        # decided per UNIT in cxc.run: a canary must be reachable in at least one variant
    elif unit.cover and not r.failed:
        cmd = ['cbmc', '--no-malloc-may-fail'] + list(unit.flags) + unw + \
              (['--object-bits', str(unit.obj_bits)] if unit.obj_bits else []) + \
              ['--cover', 'location', '--json-ui', ib]
        r.cmds.append(' '.join(cmd))
        rc, out, err, dt = run(cmd, tmo, os.path.join(bdir, vname + '.cover.json'))
        goals, _, _ = _parse_cbmc_json(out)
        if not goals or 'goals' not in goals:
            raise ToolError('cover run gave no goals on %s/%s' % (unit.name, vname))
        has = {}
        base = os.path.basename(cpath)
        for g in goals['goals']:
            desc = g.get('description', '')
            sat = g.get('status') == 'satisfied'
            for fm in re.finditer(r'%s:[\w$]*:([\d,\-]+)' % re.escape(base), desc):
                for part in fm.group(1).split(','):
                    if '-' in part:
                        a, b = part.split('-')
                        ls = range(int(a), int(b) + 1)
                    else:
                        ls = [int(part)]
                    for ln in ls:
                        has[ln] = has.get(ln, False) or sat
        inbody = [ln for ln in has if any(a <= ln <= b for a, b in ranges.values())]
        unc = sorted(ln for ln in inbody if not has[ln])
        exempt = getattr(unit, 'cover_exempt', None)
        if unc and exempt:
            with open(cpath) as f:
                lines = f.read().split('\n')
            unc = [ln for ln in unc if not re.search(exempt, lines[ln - 1])]
        r.cover = {'body_lines_with_goals': len(inbody),
                   'body_lines_reached': len(inbody) - len(unc), 'unreached': unc}
        if not inbody:
            raise ToolError('vacuity: no coverage goal inside the extracted body of %s/%s' % (unit.name, vname))
        if unc:
            with open(cpath) as f:
                lines = f.read().split('\n')
            # decided per UNIT in cxc.run: a line must be reachable in at least one variant
            r.cover['unreached_text'] = {ln: lines[ln - 1].strip()[:70] for ln in unc}


def clean(unit):
    shutil.rmtree(os.path.join(BUILD, unit.name), ignore_errors=True)
