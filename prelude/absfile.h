/* absfile.h -- abstract binary input file and std::vector model for the units on
 * amgcl/io/binary.hpp (family C19).  TRUSTED MODEL (assumption A-std): the observable
 * behaviour of std::ifstream(binary) open / read / seekg / operator bool and of
 * std::vector resize / front / back / operator[] as far as binary.hpp uses them.
 * No amgcl code is re-written here.
 *
 * std::ifstream (checked natively against libstdc++ while writing this model):
 *   - open of a missing file sets failbit;  `precondition(f, ..)` = !fail()
 *   - read(s, n): if the stream is not good nothing is extracted and failbit stays;
 *     otherwise min(n, len-pos) bytes are copied, pos advances; fewer than n bytes
 *     available -> eofbit|failbit (the bytes that were available ARE stored in s);
 *     read(s, 0) succeeds at any position, also at / past the end
 *   - seekg(off): no effect on a failed stream; an offset that is negative as streamoff
 *     (size_t >= 2^63) sets failbit; any other offset succeeds, also past the end
 * The file is a symbolic byte array of symbolic length <= FMAX.                     */
#ifndef CXC_ABSFILE_H
#define CXC_ABSFILE_H
#include <stddef.h>
#include <stdint.h>
#include <string.h>

#ifndef FMAX
#define FMAX 16
#endif

typedef struct absfile {
  unsigned char data[FMAX];
  size_t len;    /* file length, <= FMAX                       */
  size_t pos;    /* get position (may exceed len after seekg)  */
  _Bool fail;    /* failbit | badbit                           */
  _Bool exists;  /* 0: opening the file fails                  */
} absfile;

/* std::ifstream f(fname, std::ios::binary) */
static inline absfile *absfile_open(absfile *file)
{
  file->pos = 0;
  file->fail = !file->exists;
  return file;
}
/* static_cast<bool>(f) / precondition(f, ..) */
static inline _Bool absfile_ok(const absfile *f) { return !f->fail; }
/* f.read(s, cnt) */
static inline absfile *absfile_read(absfile *f, char *s, size_t cnt)
{
  if (f->fail) return f;
  size_t avail = f->pos < f->len ? f->len - f->pos : 0;
  size_t m = cnt < avail ? cnt : avail;
  for (size_t k = 0; k < FMAX; ++k)
    if (k < m) s[k] = (char)f->data[f->pos + k];
  f->pos += m;
  if (m < cnt) f->fail = 1;
  return f;
}
/* f.seekg(off) */
static inline void absfile_seekg(absfile *f, size_t off)
{
  if (f->fail) return;
  if (off > (size_t)PTRDIFF_MAX) { f->fail = 1; return; }
  f->pos = off;
}

/* ------------------------------------------------------------------ std::vector<T>
 * storage of constant capacity VCAP elements (verification bound) + logical length.
 * resize(n):  n > max_size()            -> std::length_error           (g_thrown = 2)
 *             VCAP < n <= max_size()    -> std::bad_alloc (g_thrown = 3) or success: the
 *                                          vector then has logical length n; only its
 *                                          first VCAP elements exist in the model and
 *                                          touching any other one is flagged as a bound
 *                                          artefact (g_cap_exceeded)
 *             new elements are value-initialised (0)                                 */
#ifndef VCAP
#define VCAP FMAX
#endif
extern int g_thrown;
extern int g_cap_exceeded;
_Bool nondet_bool(void);
#define VEC_DECL(T, name) typedef struct { T *p; size_t len; } name
#define VEC_LEN(v) ((v).len)
#define VEC_ESZ(v) (sizeof(*(v).p))
#define VEC_DATA(v) ((v).p)
#define VEC_MAX_SIZE(v) ((size_t)PTRDIFF_MAX / VEC_ESZ(v))
/* value-initialise the elements [from, to) that exist in the model */
static inline void vec_fill0(void *p, size_t esz, size_t from, size_t to)
{
  for (size_t k = 0; k < VCAP; ++k)
    if (k >= from && k < to)
      for (size_t b = 0; b < esz; ++b) ((char *)p)[k * esz + b] = 0;
}
#define VEC_RESIZE(v, nn)                                                          \
  do {                                                                             \
    size_t n_ = (size_t)(nn);                                                      \
    if (n_ > VEC_MAX_SIZE(v)) { g_thrown = 2; return CXC_THROW_RET; }              \
    if (n_ > VCAP && nondet_bool()) { g_thrown = 3; return CXC_THROW_RET; }        \
    vec_fill0((v).p, VEC_ESZ(v), (v).len, n_);                                     \
    (v).len = n_;                                                                  \
  } while (0)
/* A-cut: a path ends where a safety obligation is VIOLATED (the condition is asserted first and
 * only then assumed).  The verdict of the unit is unchanged -- a violated obligation is always
 * reported -- but the undefined continuation of an out-of-bounds access (measured: ~100
 * secondary pointer / unwinding failures on one defect) is not explored.                   */
#define CXC_CUT(c) __CPROVER_assume(c)
/* element access: obligation "index within the logical length" (safety.idx) plus the
 * bound artefact flag when the element is outside the modelled storage             */
static inline ptrdiff_t vec_idx(ptrdiff_t e, size_t len)
{
#if defined(CXC_CBMC) && !defined(CXC_CANARY)
  __CPROVER_assert(e >= 0 && (size_t)e < len, "safety.idx. vector element access within size()");
  CXC_CUT(e >= 0 && (size_t)e < len);
#endif
  if (e >= VCAP) { g_cap_exceeded = 1; return 0; }
  return e;
}
/* &v[e] where only the address is formed: one past the last element is allowed */
static inline ptrdiff_t vec_idx_addr(ptrdiff_t e, size_t len)
{
#if defined(CXC_CBMC) && !defined(CXC_CANARY)
  __CPROVER_assert(e >= 0 && (size_t)e <= len, "safety.idx. address formed within [begin(), end()] of the vector");
  CXC_CUT(e >= 0 && (size_t)e <= len);
#endif
  if (e > VCAP) { g_cap_exceeded = 1; return 0; }
  return e;
}
#define VEC_AT(v, e) ((v).p[vec_idx((ptrdiff_t)(e), (v).len)])
#define VEC_ADDR(v, e) ((v).p + vec_idx_addr((ptrdiff_t)(e), (v).len))
#define VEC_FRONT(v) VEC_AT(v, 0)
#define VEC_BACK(v) VEC_AT(v, (ptrdiff_t)(v).len - 1)

#endif
