/* orch_amg.h -- typestate + call-trace contracts for amg::cycle / amg::apply (amgcl/amg.hpp).
 *
 * C view of the hierarchy: std::list<level> -> array `level g_lv[g_nlev]`; the shared_ptr
 * members f,u,t,A,P,R are embedded objects (rule R-smartptr: *lvl->t -> lvl->t), solve/relax
 * stay pointers because the code tests them for null.  Every level-owned object carries an
 * integer tag  16*(level+1) + member  (caller-owned rhs / x have tags 1 / 2).
 *
 * Trace: one record G for ONE watched level g_watch (a ghost input, arbitrary).  An event is
 * attributed to the level that owns the matrix / smoother / solver it is called with.  The
 * record is a small automaton: phase, counters, and a sticky flag `ok` that is cleared by any
 * event that arrives out of order or with arguments other than the prescribed ones.           */
#ifndef ORCH_AMG_H
#define ORCH_AMG_H
#define MODEL_UF 1
#include "amgcl_c.h"
typedef V scalar_type;

typedef struct vec { _Bool defined; unsigned long version; int id; } vec;
typedef struct mat { int id; } mat;
typedef struct relax_t { int id; } relax_t;
typedef struct solver_t { int id; } solver_t;
typedef struct level { vec f, u, t; mat A, P, R; solver_t *solve; relax_t *relax; int lev; } level;
typedef level *level_iterator;
/* std::list iterators over the array view */
#define std_next(it) ((it) + 1)
#define std_prev(it) ((it) - 1)
/* all fields of amg::params that the solve phase can see (so that a body that starts to consult another parameter still
 * translates and is then judged by the contract) */
typedef struct amg_params { unsigned coarse_enough; _Bool direct_coarse; unsigned max_levels; unsigned npre, npost, ncycle, pre_cycles; _Bool allow_rebuild; } amg_params;
enum { M_F = 1, M_U, M_T, M_A, M_P, M_R };
#define TAG(k, m) ((int)(16 * ((k) + 1) + (m)))
#define LEVEL_OF(id) (((id) >> 4) - 1)

extern int g_thrown;
/* ghost inputs (never assigned) */
#ifndef LMAX
#define LMAX 4
#endif
level g_lv[LMAX];       /* the levels array (typed global object: cheap field access) */
#ifdef NLEV
#define g_nlev ((size_t)NLEV)  /* number of levels: concrete per variant */
#else
size_t g_nlev;
#endif
int g_watch;            /* watched level index      */

/* phases of one cycle at a non-coarsest level */
enum { PH_START = 0, PH_RES, PH_RESTR, PH_CLR, PH_REC, PH_POST };
typedef struct trace {
  _Bool ok;                         /* sticky: order and arguments of every event as prescribed */
  int ph;                           /* phase                                                    */
  unsigned long pre, post;          /* pre-sweeps since the last residual / post-sweeps since the last prolongation */
  unsigned long pre_at_res;         /* pre-sweeps that preceded the last residual               */
  unsigned long post_at_res;        /* post-sweeps of the previous cycle seen by the last residual */
  unsigned long n_res, n_restr, n_clr, n_rec, n_prol, n_solve;
} trace;
trace G;

/* the (rhs, x) pair a visit of level k works on */
#define RHS_TAG(k) ((k) == 0 ? 1 : TAG(k, M_F))
#define X_TAG(k) ((k) == 0 ? 2 : TAG(k, M_U))
#define UF_AXIOMS (math_is_zero(MATH_zero(V)) && !math_is_zero(MATH_identity(V)))
#define OLDG(f) __CPROVER_old(G.f)
#define SAMEG (G.ok == OLDG(ok) && G.ph == OLDG(ph) && G.pre == OLDG(pre) && G.post == OLDG(post) && G.pre_at_res == OLDG(pre_at_res) \
  && G.post_at_res == OLDG(post_at_res) && G.n_res == OLDG(n_res) && G.n_restr == OLDG(n_restr) && G.n_clr == OLDG(n_clr) \
  && G.n_rec == OLDG(n_rec) && G.n_prol == OLDG(n_prol) && G.n_solve == OLDG(n_solve))
/* "G equals old G except for the listed fields" helpers */
#define SAME_CNT (G.n_res == OLDG(n_res) && G.n_restr == OLDG(n_restr) && G.n_clr == OLDG(n_clr) && G.n_rec == OLDG(n_rec) && G.n_prol == OLDG(n_prol) && G.n_solve == OLDG(n_solve))
#define SAME_SINCE (G.pre == OLDG(pre) && G.post == OLDG(post) && G.pre_at_res == OLDG(pre_at_res) && G.post_at_res == OLDG(post_at_res))
#define VEC_WRITTEN(y) ((y)->defined && (y)->version == __CPROVER_old((y)->version) + 1 && (y)->id == __CPROVER_old((y)->id))

/* relax->apply_pre(A, rhs, x, tmp): x <- x + M^-1 (rhs - A x); tmp is scratch (written, never read first).
 * Legal at the watched level in phase START (beginning of a cycle or coarsest level) or POST (next cycle begins) */
void bk_relax_pre(const relax_t *rl, const mat *A, const vec *rhs, vec *x, vec *tmp)
__CPROVER_requires(rl != 0 && rhs->defined && x->defined)
__CPROVER_assigns(*x, *tmp, G)
__CPROVER_ensures(VEC_WRITTEN(x) && tmp->defined && tmp->id == __CPROVER_old(tmp->id))
__CPROVER_ensures(LEVEL_OF(A->id) == g_watch
   ? (G.ok == (OLDG(ok) && (OLDG(ph) == PH_START || OLDG(ph) == PH_POST) && A->id == TAG(g_watch, M_A) && tmp->id == TAG(g_watch, M_T)
               && rhs->id == RHS_TAG(g_watch) && x->id == X_TAG(g_watch))
      && G.ph == PH_START && G.pre == OLDG(pre) + 1 && G.post == OLDG(post) && G.pre_at_res == OLDG(pre_at_res) && G.post_at_res == OLDG(post_at_res) && SAME_CNT)
   : SAMEG);

/* apply_post: legal in phase POST (after the prolongation) or, on a coarsest level without solver, START */
void bk_relax_post(const relax_t *rl, const mat *A, const vec *rhs, vec *x, vec *tmp)
__CPROVER_requires(rl != 0 && rhs->defined && x->defined)
__CPROVER_assigns(*x, *tmp, G)
__CPROVER_ensures(VEC_WRITTEN(x) && tmp->defined && tmp->id == __CPROVER_old(tmp->id))
__CPROVER_ensures(LEVEL_OF(A->id) == g_watch
   ? (G.ok == (OLDG(ok) && (OLDG(ph) == PH_POST || (OLDG(ph) == PH_START && g_watch + 1 == (int)g_nlev))
               && A->id == TAG(g_watch, M_A) && tmp->id == TAG(g_watch, M_T) && rhs->id == RHS_TAG(g_watch) && x->id == X_TAG(g_watch))
      && G.ph == PH_POST && G.post == OLDG(post) + 1 && G.pre == OLDG(pre) && G.pre_at_res == OLDG(pre_at_res) && G.post_at_res == OLDG(post_at_res) && SAME_CNT)
   : SAMEG);

/* r = f - A x : closes the pre-smoothing of a cycle */
void bk_residual(const vec *f, const mat *A, const vec *x, vec *r)
__CPROVER_requires(f->defined && x->defined)
__CPROVER_assigns(*r, G)
__CPROVER_ensures(VEC_WRITTEN(r))
__CPROVER_ensures(LEVEL_OF(A->id) == g_watch
   ? (G.ok == (OLDG(ok) && (OLDG(ph) == PH_START || OLDG(ph) == PH_POST) && A->id == TAG(g_watch, M_A) && r->id == TAG(g_watch, M_T)
               && f->id == RHS_TAG(g_watch) && x->id == X_TAG(g_watch))
      && G.ph == PH_RES && G.n_res == OLDG(n_res) + 1 && G.pre_at_res == OLDG(pre) && G.pre == 0 && G.post_at_res == OLDG(post) && G.post == 0
      && G.n_restr == OLDG(n_restr) && G.n_clr == OLDG(n_clr) && G.n_rec == OLDG(n_rec) && G.n_prol == OLDG(n_prol) && G.n_solve == OLDG(n_solve))
   : SAMEG);

/* y = alpha A x + beta y : restriction f_{l+1} = 1 R_l t_l + 0 f_{l+1};  prolongation x = 1 P_l u_{l+1} + 1 x */
void bk_spmv(V alpha, const mat *A, const vec *x, V beta, vec *y)
__CPROVER_requires(x->defined && (math_is_zero(beta) || y->defined))
__CPROVER_assigns(*y, G)
__CPROVER_ensures(VEC_WRITTEN(y))
__CPROVER_ensures(LEVEL_OF(A->id) == g_watch
   ? ((A->id == TAG(g_watch, M_R))
       ? (G.ok == (OLDG(ok) && OLDG(ph) == PH_RES && alpha == MATH_identity(V) && beta == MATH_zero(V)
                   && x->id == TAG(g_watch, M_T) && y->id == TAG(g_watch + 1, M_F))
          && G.ph == PH_RESTR && G.n_restr == OLDG(n_restr) + 1 && SAME_SINCE
          && G.n_res == OLDG(n_res) && G.n_clr == OLDG(n_clr) && G.n_rec == OLDG(n_rec) && G.n_prol == OLDG(n_prol) && G.n_solve == OLDG(n_solve))
       : (G.ok == (OLDG(ok) && OLDG(ph) == PH_REC && A->id == TAG(g_watch, M_P) && alpha == MATH_identity(V) && beta == MATH_identity(V)
                   && x->id == TAG(g_watch + 1, M_U) && y->id == X_TAG(g_watch))
          && G.ph == PH_POST && G.n_prol == OLDG(n_prol) + 1 && G.post == 0 && G.pre == OLDG(pre) && G.pre_at_res == OLDG(pre_at_res) && G.post_at_res == OLDG(post_at_res)
          && G.n_res == OLDG(n_res) && G.n_clr == OLDG(n_clr) && G.n_rec == OLDG(n_rec) && G.n_restr == OLDG(n_restr) && G.n_solve == OLDG(n_solve)))
   : SAMEG);

/* clear(u_{l+1}) is attributed to level l, whose visit issues it */
int g_clr_id; unsigned long g_clr_ver;   /* last clear(): vector tag and the version it produced */
void bk_clear(vec *x)
__CPROVER_assigns(*x, G, g_clr_id, g_clr_ver)
__CPROVER_ensures(VEC_WRITTEN(x) && g_clr_id == x->id && g_clr_ver == x->version)
__CPROVER_ensures(LEVEL_OF(x->id) == g_watch + 1 && x->id != 1 && x->id != 2
   ? (G.ok == (OLDG(ok) && OLDG(ph) == PH_RESTR && x->id == TAG(g_watch + 1, M_U))
      && G.ph == PH_CLR && G.n_clr == OLDG(n_clr) + 1 && SAME_SINCE
      && G.n_res == OLDG(n_res) && G.n_restr == OLDG(n_restr) && G.n_rec == OLDG(n_rec) && G.n_prol == OLDG(n_prol) && G.n_solve == OLDG(n_solve))
   : SAMEG);

void bk_copy(const vec *x, vec *y)
__CPROVER_requires(x->defined)
__CPROVER_assigns(*y)
__CPROVER_ensures(VEC_WRITTEN(y));

/* coarse direct solver: x = A^-1 rhs (x is output only); legal only as the single event of a coarsest level */
void bk_solve(level *lvl, const vec *rhs, vec *x)
__CPROVER_requires(lvl->solve != 0 && rhs->defined)
__CPROVER_assigns(*x, G)
__CPROVER_ensures(VEC_WRITTEN(x))
__CPROVER_ensures(lvl->lev == g_watch
   ? (G.ok == (OLDG(ok) && OLDG(ph) == PH_START && g_watch + 1 == (int)g_nlev && rhs->id == RHS_TAG(g_watch) && x->id == X_TAG(g_watch))
      && G.ph == PH_START && G.n_solve == OLDG(n_solve) + 1 && SAME_SINCE
      && G.n_res == OLDG(n_res) && G.n_restr == OLDG(n_restr) && G.n_clr == OLDG(n_clr) && G.n_rec == OLDG(n_rec) && G.n_prol == OLDG(n_prol))
   : SAMEG);

#define residual(f, A, x, r) bk_residual(&(f), &(A), &(x), &(r))
#define spmv(al, A, x, be, y) bk_spmv(al, &(A), &(x), be, &(y))
#define clear(x) bk_clear(&(x))
#define copy(x, y) bk_copy(&(x), &(y))
#define RELAX_PRE(l, A, rhs, x, t) bk_relax_pre((l)->relax, &(A), &(rhs), &(x), &(t))
#define RELAX_POST(l, A, rhs, x, t) bk_relax_post((l)->relax, &(A), &(rhs), &(x), &(t))
#define SOLVE(l, rhs, x) bk_solve(l, &(rhs), &(x))
#endif
