/* orch_solvers.h -- typestate view of the backend for the Krylov solvers with several residual
 * candidates, left/right preconditioning and Krylov bases (BiCGStab, GMRES family, IDR(s),
 * BiCGStab(L)).  Same abstraction as orch.h (struct vec {defined, readonly, version, id};
 * bodiless bk functions whose CONTRACTS are used at the call sites), with two differences
 * that make the larger solver bodies tractable (measured: BiCGStab 187k symex steps / >10 min
 * with one assigns target per ghost variable, see DESIGN 4.2):
 *   - all ghost state lives in ONE struct `gs`, grouped by the primitive that records it, so
 *     that a callee assigns one sub-struct and a caller / loop assigns `gs` as a whole;
 *   - a primitive assigns its output vector as a whole (*y) and promises id / readonly are kept.
 * Additional contracts: preconditioner::spmv (ENFORCED on the real body by unit
 * precond_side_spmv), recorded spmv / axpbypcz / copy.
 * Nothing here re-implements an amgcl algorithm.                                            */
#ifndef ORCH_SOLVERS_H
#define ORCH_SOLVERS_H
#include "orch.h"

/* a throwing precondition() leaves operator() without a value */
#undef CXC_THROW_RET
#define CXC_THROW_RET ((result){0, 0})

/* preconditioner::side::type */
typedef int side_type;
enum { side_left = 0, side_right = 1 };

/* ------------------------------------------------------------------ ghost state, grouped */
struct gs_norm  { V val; int id; unsigned long ver, calls; int id0, id1; size_t ix; };  /* last norm(): value, vector, version; first two operands */
struct gs_res   { int idf, idA, idx, idr; unsigned long xver, rver, calls; size_t ir; };        /* last residual(f,A,x,r) */
struct gs_pa    { int in, out; unsigned long inver, outver, calls; size_t iin, iout; };        /* last P.apply(in,out) */
struct gs_ax    { V a, b; int idx, idy; unsigned long xver, yver, calls; size_t ix, iy;       /* last axpby(a,x,b,y) */
                  /* handle API only: the last axpby whose OUTPUT is a single vector (not a basis element), e.g. the update of x */
                  V va, vb; int vidx, vidy; size_t vix; unsigned long vcalls; };
struct gs_clear { int id; unsigned long calls; };
struct gs_spmv  { V alpha, beta; int idA, idx, idy; unsigned long xver, yver, calls; };
struct gs_apz   { int idx, idy, idz; unsigned long zver, calls, at_ax; };                 /* last axpbypcz(a,x,b,y,c,z) */
struct gs_pspmv { int side, idP, idA, idF, idX, idT; unsigned long Fver, Xver, Tver, calls; };
struct gs_copy  { int idx, idy; unsigned long xver, yver, calls; };
/* Krylov bases (arrays of vectors): basis b is abstracted to "elements [0, upto[b]) were written in this call";
 * writes[b] counts all writes to the basis (it serves as the version of every element) */
#define NB 4
struct gs_bas   { unsigned long upto[NB], writes[NB]; };
/* scalar work arrays (H, s, cs, sn, ...): element window [lo, hi) written in this call; every array is folded
 * into one cell that is made nondeterministic before each read (values are opaque, only safety is tracked) */
#define NSC 8
struct gs_sc    { unsigned long lo[NSC], hi[NSC]; V cell; unsigned long hcols, hrows; };
struct gs_lc    { unsigned long n; int cid, b, idy; V beta; unsigned long calls;       /* last lin_comb */
                  unsigned long coff, boff; size_t iy; };                              /* offset form (bh_lin_comb2): first coefficient, first basis vector, element index of y */
struct gs_all {
  struct gs_norm norm; struct gs_res res; struct gs_pa pa; struct gs_ax ax; struct gs_clear clear;
  struct gs_spmv spmv; struct gs_apz apz; struct gs_pspmv pspmv; struct gs_copy copy;
  struct gs_bas bas; struct gs_sc sc; struct gs_lc lc; vec dummy;
} gs;
/* everything but the Krylov bases: no call recorded, no scalar work array element written */
#define GS_ZERO_NOBAS (gs.norm.calls == 0 && gs.res.calls == 0 && gs.pa.calls == 0 && gs.ax.calls == 0 && gs.clear.calls == 0 \
                 && gs.spmv.calls == 0 && gs.apz.calls == 0 && gs.pspmv.calls == 0 && gs.copy.calls == 0 && gs.lc.calls == 0 \
                 && gs.sc.hcols == 0 && gs.sc.hrows == 0 && SC_EMPTY(0) && SC_EMPTY(1) && SC_EMPTY(2) && SC_EMPTY(3) \
                 && SC_EMPTY(4) && SC_EMPTY(5) && SC_EMPTY(6) && SC_EMPTY(7))
/* C15: no element of basis k was written in this call */
#define BAS_EMPTY(k) (gs.bas.upto[k] == 0)
#define GS_ZERO (GS_ZERO_NOBAS && BAS_EMPTY(0) && BAS_EMPTY(1) && BAS_EMPTY(2) && BAS_EMPTY(3))
/* C15: a scalar work array enters the call with no element written */
#define SC_EMPTY(a) (gs.sc.lo[a] == 0 && gs.sc.hi[a] == 0)

#define OLDV(e) __CPROVER_old(e)
/* output vector y: written as a whole, identity kept, one version step, defined afterwards */
#define OUT_REQ(y) (!(y)->readonly)
#define OUT_ENS(y) ((y)->defined && (y)->version == OLDV((y)->version) + 1 && (y)->id == OLDV((y)->id) && (y)->readonly == OLDV((y)->readonly))

/* ------------------------------------------------------------ backend contracts */
/* r = f - A x */
void bs_residual(const vec *f, const mat *A, const vec *x, vec *r)
__CPROVER_requires(f->defined && x->defined && OUT_REQ(r) && r != f && r != x)
__CPROVER_assigns(*r, gs.res)
__CPROVER_ensures(OUT_ENS(r))
__CPROVER_ensures(gs.res.idf == f->id && gs.res.idA == A->id && gs.res.idx == x->id && gs.res.idr == r->id)
__CPROVER_ensures(gs.res.xver == x->version && gs.res.rver == r->version && gs.res.calls == OLDV(gs.res.calls) + 1);

/* y = alpha A x + beta y : y is read only if beta != 0 */
void bs_spmv(V alpha, const mat *A, const vec *x, V beta, vec *y)
__CPROVER_requires(x->defined && (math_is_zero(beta) || y->defined) && OUT_REQ(y) && x != y)
__CPROVER_assigns(*y, gs.spmv)
__CPROVER_ensures(OUT_ENS(y))
__CPROVER_ensures(gs.spmv.alpha == alpha && gs.spmv.beta == beta && gs.spmv.idA == A->id && gs.spmv.idx == x->id && gs.spmv.idy == y->id)
__CPROVER_ensures(gs.spmv.xver == x->version && gs.spmv.yver == y->version && gs.spmv.calls == OLDV(gs.spmv.calls) + 1);

/* y = a x + b y */
void bs_axpby(V a, const vec *x, V b, vec *y)
__CPROVER_requires(x->defined && (math_is_zero(b) || y->defined) && OUT_REQ(y))
__CPROVER_assigns(*y, gs.ax)
__CPROVER_ensures(OUT_ENS(y))
__CPROVER_ensures(gs.ax.a == a && gs.ax.b == b && gs.ax.idx == x->id && gs.ax.idy == y->id)
__CPROVER_ensures(gs.ax.xver == OLDV(x->version) && gs.ax.yver == y->version && gs.ax.calls == OLDV(gs.ax.calls) + 1);

/* z = a x + b y + c z */
void bs_axpbypcz(V a, const vec *x, V b, const vec *y, V c, vec *z)
__CPROVER_requires(x->defined && y->defined && (math_is_zero(c) || z->defined) && OUT_REQ(z))
__CPROVER_assigns(*z, gs.apz)
__CPROVER_ensures(OUT_ENS(z))
__CPROVER_ensures(gs.apz.idx == x->id && gs.apz.idy == y->id && gs.apz.idz == z->id && gs.apz.zver == z->version && gs.apz.calls == OLDV(gs.apz.calls) + 1)
/* snapshot: how many axpby() had happened when this vector was written */
__CPROVER_ensures(gs.apz.at_ax == gs.ax.calls);

/* z = a x .* y + b z */
void bs_vmul(V a, const vec *x, const vec *y, V b, vec *z)
__CPROVER_requires(x->defined && y->defined && (math_is_zero(b) || z->defined) && OUT_REQ(z))
__CPROVER_assigns(*z)
__CPROVER_ensures(OUT_ENS(z));

void bs_copy(const vec *x, vec *y)
__CPROVER_requires(x->defined && OUT_REQ(y) && x != y)
__CPROVER_assigns(*y, gs.copy)
__CPROVER_ensures(OUT_ENS(y))
__CPROVER_ensures(gs.copy.idx == x->id && gs.copy.idy == y->id && gs.copy.xver == x->version && gs.copy.yver == y->version && gs.copy.calls == OLDV(gs.copy.calls) + 1);

void bs_clear(vec *x)
__CPROVER_requires(OUT_REQ(x))
__CPROVER_assigns(*x, gs.clear)
__CPROVER_ensures(OUT_ENS(x))
__CPROVER_ensures(gs.clear.id == x->id && gs.clear.calls == OLDV(gs.clear.calls) + 1);

V bs_inner_product(const vec *x, const vec *y)
__CPROVER_requires(x->defined && y->defined)
__CPROVER_assigns();

/* solver-private norm(x); the values the first two calls return are the ghost inputs
 * g_norm_in0 / g_norm_in1 (orch.h) so that a precondition can speak about them */
V bs_norm(const vec *x)
__CPROVER_requires(x->defined)
__CPROVER_assigns(gs.norm)
__CPROVER_ensures(__CPROVER_return_value == gs.norm.val && gs.norm.id == x->id && gs.norm.ver == x->version)
__CPROVER_ensures(gs.norm.calls == (OLDV(gs.norm.calls) >= 2 ? 2 : OLDV(gs.norm.calls) + 1))   /* saturates: only the first two calls are told apart */
__CPROVER_ensures(OLDV(gs.norm.calls) == 0 ? (__CPROVER_return_value == g_norm_in0 && gs.norm.id0 == x->id) : (gs.norm.id0 == OLDV(gs.norm.id0)))
__CPROVER_ensures(OLDV(gs.norm.calls) == 1 ? (__CPROVER_return_value == g_norm_in1 && gs.norm.id1 == x->id) : (gs.norm.id1 == OLDV(gs.norm.id1)));

/* preconditioner: x = P f  (A-callee) */
void bs_papply(const precond *P, const vec *f, vec *x)
__CPROVER_requires(f->defined && OUT_REQ(x) && f != x)
__CPROVER_assigns(*x, gs.pa)
__CPROVER_ensures(OUT_ENS(x))
__CPROVER_ensures(gs.pa.in == f->id && gs.pa.out == x->id && gs.pa.inver == f->version && gs.pa.outver == x->version && gs.pa.calls == OLDV(gs.pa.calls) + 1);

/* ------------------------------------------------------- preconditioner::spmv contract
 * left :  T = A F;  X = P T        right:  T = P F;  X = A T
 * (one application of the preconditioner, one matrix-vector product spmv(one, A, ., zero, .),
 * chained through T; F is only read; T must be distinct from F and X).
 * Unit precond_side_spmv enforces exactly this text on the body of
 * amgcl/solver/precond_side.hpp::spmv.                                                    */
#define PSPMV_CONTRACT(pside, P, A, F, X, T)                                                          \
__CPROVER_requires(UF_AXIOMS)                                                                         \
__CPROVER_requires((F)->defined && OUT_REQ(X) && OUT_REQ(T) && (T) != (F) && (T) != (X) && (X) != (F)) \
__CPROVER_assigns(*(X), *(T), gs.pa, gs.spmv)                                                         \
__CPROVER_ensures(OUT_ENS(X) && OUT_ENS(T))                                                           \
__CPROVER_ensures(gs.pa.calls == OLDV(gs.pa.calls) + 1 && gs.spmv.calls == OLDV(gs.spmv.calls) + 1)  \
__CPROVER_ensures((pside) == side_left                                                                \
    ? (gs.spmv.idx == (F)->id && gs.spmv.idy == (T)->id && gs.pa.in == (T)->id && gs.pa.out == (X)->id && gs.pa.outver == (X)->version) \
    : (gs.pa.in == (F)->id && gs.pa.out == (T)->id && gs.pa.outver == (T)->version && gs.spmv.idx == (T)->id && gs.spmv.idy == (X)->id)) \
__CPROVER_ensures(gs.spmv.idA == (A)->id && gs.spmv.alpha == MATH_identity(V) && gs.spmv.beta == MATH_zero(V))

/* the call-site contract = the enforced contract + pure ghost bookkeeping (which call was the last one) */
void bs_pspmv(side_type pside, const precond *P, const mat *A, const vec *F, vec *X, vec *T)
PSPMV_CONTRACT(pside, P, A, F, X, T)
__CPROVER_assigns(gs.pspmv)
__CPROVER_ensures(gs.pspmv.calls == OLDV(gs.pspmv.calls) + 1 && gs.pspmv.side == pside && gs.pspmv.idP == P->id && gs.pspmv.idA == A->id)
__CPROVER_ensures(gs.pspmv.idF == F->id && gs.pspmv.idX == X->id && gs.pspmv.idT == T->id)
__CPROVER_ensures(gs.pspmv.Xver == X->version && gs.pspmv.Tver == T->version && gs.pspmv.Fver == F->version);

/* =====================================================================================
 * Handle-based variants for solvers that keep arrays of vectors (Krylov bases).
 * A handle names either a single vector (b < 0, p -> its struct vec) or element i of basis b
 * (b >= 0; p -> gs.dummy so that every dereference in a contract is valid).
 * Index safety of basis subscripts is an obligation at handle creation (VREF).
 * ===================================================================================== */
typedef struct hv { vec *p; int b; size_t i; } hv;
size_t gs_blen[NB];          /* number of vectors the constructor allocates for basis b (input, never assigned) */
size_t gs_sclen[NSC];        /* logical length of scalar array a (input) */
size_t gs_hdim[2];           /* rows, columns of the Hessenberg matrix H (input) */
enum { SC_s = 0, SC_cs, SC_sn, SC_f, SC_c, SC_Y0, SC_YL, SC_x7 };

static inline size_t bas_ix(int b, size_t i)
{
  __CPROVER_assert(b >= 0 && b < NB && i < gs_blen[b], "safety.idx. basis vector subscript within the number of vectors the constructor allocates");
  return i;
}
#define HV(pv) ((hv){(pv), -1, 0})
#define VREF(b, e) ((hv){&gs.dummy, (b), bas_ix((b), (size_t)(e))})
#define H_ISB(h) ((h).b >= 0)
#define H_DEF(h) (H_ISB(h) ? (h).i < gs.bas.upto[(h).b] : (h).p->defined)
#define H_ID(h) (H_ISB(h) ? -1 - (h).b : (h).p->id)             /* basis b has id -1-b, element index kept separately */
#define H_IX(h) (H_ISB(h) ? (h).i : (size_t)0)
#define H_VER(h) (H_ISB(h) ? gs.bas.writes[(h).b] : (h).p->version)
#define H_VER_OLD(h) (H_ISB(h) ? OLDV(gs.bas.writes[(h).b]) : OLDV((h).p->version))
#define H_WOK(h) (H_ISB(h) ? (h).b < NB : !(h).p->readonly)
#define H_SAME(g, h) (H_ISB(g) ? (H_ISB(h) && (g).b == (h).b && (g).i == (h).i) : (!H_ISB(h) && (g).p == (h).p))
#define BAS_ID(b) (-1 - (b))
/* effect of writing y: a single vector becomes defined (OUT_ENS); a basis element extends the defined prefix
 * when it is the next one; every other basis is unchanged */
#define BAS_ENS1(y, k) (gs.bas.upto[k] == OLDV(gs.bas.upto[k]) + ((H_ISB(y) && (y).b == (k) && (y).i == OLDV(gs.bas.upto[k])) ? 1 : 0) \
                     && gs.bas.writes[k] == OLDV(gs.bas.writes[k]) + ((H_ISB(y) && (y).b == (k)) ? 1 : 0))
#define H_OUT_ENS(y) (BAS_ENS1(y, 0) && BAS_ENS1(y, 1) && BAS_ENS1(y, 2) && BAS_ENS1(y, 3) && (H_ISB(y) || OUT_ENS((y).p)))

void bh_residual(hv f, const mat *A, hv x, hv r)
__CPROVER_requires(H_DEF(f) && H_DEF(x) && H_WOK(r) && !H_SAME(r, f) && !H_SAME(r, x))
__CPROVER_assigns(*r.p, gs.bas, gs.res)
__CPROVER_ensures(H_OUT_ENS(r))
__CPROVER_ensures(gs.res.idf == H_ID(f) && gs.res.idA == A->id && gs.res.idx == H_ID(x) && gs.res.idr == H_ID(r) && gs.res.ir == H_IX(r))
__CPROVER_ensures(gs.res.xver == H_VER_OLD(x) && gs.res.rver == H_VER(r) && gs.res.calls == OLDV(gs.res.calls) + 1);

void bh_spmv(V alpha, const mat *A, hv x, V beta, hv y)
__CPROVER_requires(H_DEF(x) && (math_is_zero(beta) || H_DEF(y)) && H_WOK(y) && !H_SAME(x, y))
__CPROVER_assigns(*y.p, gs.bas, gs.spmv)
__CPROVER_ensures(H_OUT_ENS(y))
__CPROVER_ensures(gs.spmv.alpha == alpha && gs.spmv.beta == beta && gs.spmv.idA == A->id && gs.spmv.idx == H_ID(x) && gs.spmv.idy == H_ID(y))
__CPROVER_ensures(gs.spmv.yver == H_VER(y) && gs.spmv.calls == OLDV(gs.spmv.calls) + 1);

void bh_axpby(V a, hv x, V b, hv y)
__CPROVER_requires(H_DEF(x) && (math_is_zero(b) || H_DEF(y)) && H_WOK(y))
__CPROVER_assigns(*y.p, gs.bas, gs.ax)
__CPROVER_ensures(H_OUT_ENS(y))
__CPROVER_ensures(gs.ax.a == a && gs.ax.b == b && gs.ax.idx == H_ID(x) && gs.ax.idy == H_ID(y) && gs.ax.ix == H_IX(x) && gs.ax.iy == H_IX(y))
__CPROVER_ensures(gs.ax.yver == H_VER(y) && gs.ax.calls == OLDV(gs.ax.calls) + 1)
__CPROVER_ensures(H_ISB(y) ? (gs.ax.va == OLDV(gs.ax.va) && gs.ax.vb == OLDV(gs.ax.vb) && gs.ax.vidx == OLDV(gs.ax.vidx) && gs.ax.vidy == OLDV(gs.ax.vidy)
                              && gs.ax.vix == OLDV(gs.ax.vix) && gs.ax.vcalls == OLDV(gs.ax.vcalls))
                           : (gs.ax.va == a && gs.ax.vb == b && gs.ax.vidx == H_ID(x) && gs.ax.vidy == H_ID(y) && gs.ax.vix == H_IX(x)
                              && gs.ax.vcalls == OLDV(gs.ax.vcalls) + 1));

void bh_axpbypcz(V a, hv x, V b, hv y, V c, hv z)
__CPROVER_requires(H_DEF(x) && H_DEF(y) && (math_is_zero(c) || H_DEF(z)) && H_WOK(z))
__CPROVER_assigns(*z.p, gs.bas, gs.apz)
__CPROVER_ensures(H_OUT_ENS(z))
__CPROVER_ensures(gs.apz.idx == H_ID(x) && gs.apz.idy == H_ID(y) && gs.apz.idz == H_ID(z) && gs.apz.zver == H_VER(z) && gs.apz.calls == OLDV(gs.apz.calls) + 1)
__CPROVER_ensures(gs.apz.at_ax == gs.ax.calls);

void bh_copy(hv x, hv y)
__CPROVER_requires(H_DEF(x) && H_WOK(y) && !H_SAME(x, y))
__CPROVER_assigns(*y.p, gs.bas, gs.copy)
__CPROVER_ensures(H_OUT_ENS(y))
__CPROVER_ensures(gs.copy.idx == H_ID(x) && gs.copy.idy == H_ID(y) && gs.copy.yver == H_VER(y) && gs.copy.calls == OLDV(gs.copy.calls) + 1);

void bh_clear(hv x)
__CPROVER_requires(H_WOK(x))
__CPROVER_assigns(*x.p, gs.bas, gs.clear)
__CPROVER_ensures(H_OUT_ENS(x))
__CPROVER_ensures(gs.clear.id == H_ID(x) && gs.clear.calls == OLDV(gs.clear.calls) + 1);

V bh_inner_product(hv x, hv y)
__CPROVER_requires(H_DEF(x) && H_DEF(y))
__CPROVER_assigns();

V bh_norm(hv x)
__CPROVER_requires(H_DEF(x))
__CPROVER_assigns(gs.norm)
__CPROVER_ensures(__CPROVER_return_value == gs.norm.val && gs.norm.id == H_ID(x) && gs.norm.ix == H_IX(x) && gs.norm.ver == H_VER(x))
__CPROVER_ensures(gs.norm.calls == (OLDV(gs.norm.calls) >= 2 ? 2 : OLDV(gs.norm.calls) + 1))   /* saturates: only the first two calls are told apart */
__CPROVER_ensures(OLDV(gs.norm.calls) == 0 ? (__CPROVER_return_value == g_norm_in0 && gs.norm.id0 == H_ID(x)) : (gs.norm.id0 == OLDV(gs.norm.id0)))
__CPROVER_ensures(OLDV(gs.norm.calls) == 1 ? (__CPROVER_return_value == g_norm_in1 && gs.norm.id1 == H_ID(x)) : (gs.norm.id1 == OLDV(gs.norm.id1)));

void bh_papply(const precond *P, hv f, hv x)
__CPROVER_requires(H_DEF(f) && H_WOK(x) && !H_SAME(f, x))
__CPROVER_assigns(*x.p, gs.bas, gs.pa)
__CPROVER_ensures(H_OUT_ENS(x))
__CPROVER_ensures(gs.pa.in == H_ID(f) && gs.pa.iin == H_IX(f) && gs.pa.out == H_ID(x) && gs.pa.iout == H_IX(x))
__CPROVER_ensures(gs.pa.inver == H_VER_OLD(f) && gs.pa.outver == H_VER(x) && gs.pa.calls == OLDV(gs.pa.calls) + 1);

/* y = sum_{i<n} c[i] * B_b[i] + beta y : reads the first n vectors of basis b and the first n coefficients */
#define SC_PREFIX(a, n) (gs.sc.lo[a] == 0 && (n) <= gs.sc.hi[a] && (n) <= gs_sclen[a])
void bh_lin_comb(size_t n, int cid, int b, V beta, hv y)
__CPROVER_requires(b >= 0 && b < NB && cid >= 0 && cid < NSC)
__CPROVER_requires(n <= gs.bas.upto[b] && n <= gs_blen[b] && SC_PREFIX(cid, n))
__CPROVER_requires((math_is_zero(beta) || H_DEF(y)) && H_WOK(y) && !(H_ISB(y) && y.b == b))
__CPROVER_assigns(*y.p, gs.bas, gs.lc)
__CPROVER_ensures(H_OUT_ENS(y))
__CPROVER_ensures(gs.lc.n == n && gs.lc.cid == cid && gs.lc.b == b && gs.lc.beta == beta && gs.lc.idy == H_ID(y) && gs.lc.calls == OLDV(gs.lc.calls) + 1);

/* offset form  lin_comb(n, &c[coff], &B_b[boff], beta, y):  y = sum_{i<n} c[coff+i] * B_b[boff+i] + beta y.
 * backend::lin_comb reads c[0], v[0] unconditionally: n >= 1 is part of its precondition.  y may be an element of the same basis outside the range
 * read.  The state of the coefficient array is the caller's obligation (no window requirement here). */
void bh_lin_comb2(size_t n, int cid, size_t coff, int b, size_t boff, V beta, hv y)
__CPROVER_requires(b >= 0 && b < NB && cid >= 0 && cid < NSC && n >= 1)
__CPROVER_requires(boff <= gs_blen[b] && n <= gs_blen[b] - boff && boff + n <= gs.bas.upto[b] && coff <= gs_sclen[cid] && n <= gs_sclen[cid] - coff)
__CPROVER_requires((math_is_zero(beta) || H_DEF(y)) && H_WOK(y) && !(H_ISB(y) && y.b == b && y.i >= boff && y.i - boff < n))
__CPROVER_assigns(*y.p, gs.bas, gs.lc)
__CPROVER_ensures(H_OUT_ENS(y))
__CPROVER_ensures(gs.lc.n == n && gs.lc.cid == cid && gs.lc.b == b && gs.lc.beta == beta && gs.lc.idy == H_ID(y) && gs.lc.iy == H_IX(y) && gs.lc.coff == coff && gs.lc.boff == boff
                  && gs.lc.calls == OLDV(gs.lc.calls) + 1);
#define LIN_COMB2(n, cid, coff, b, boff, beta, y) bh_lin_comb2(n, cid, coff, b, boff, beta, y)

/* preconditioner::spmv on handles: the contract of PSPMV_CONTRACT lifted to handles; ENFORCED on the real body
 * by unit precond_side_spmv_h */
#define PSPMV_H_CONTRACT(pside, P, A, F, X, T)                                                        \
__CPROVER_requires(UF_AXIOMS)                                                                         \
/* the temporary T is a single vector (never a basis element) in every solver */                      \
__CPROVER_requires(H_DEF(F) && H_WOK(X) && H_WOK(T) && !H_ISB(T) && !H_SAME(T, F) && !H_SAME(T, X) && !H_SAME(X, F)) \
__CPROVER_assigns(*(X).p, *(T).p, gs.bas, gs.pa, gs.spmv)                                             \
__CPROVER_ensures(BAS_ENS2(X, T, 0) && BAS_ENS2(X, T, 1) && BAS_ENS2(X, T, 2) && BAS_ENS2(X, T, 3))   \
__CPROVER_ensures((H_ISB(X) || OUT_ENS((X).p)) && (H_ISB(T) || OUT_ENS((T).p)))                       \
__CPROVER_ensures(gs.pa.calls == OLDV(gs.pa.calls) + 1 && gs.spmv.calls == OLDV(gs.spmv.calls) + 1)  \
__CPROVER_ensures((pside) == side_left                                                                \
    ? (gs.spmv.idx == H_ID(F) && gs.spmv.idy == H_ID(T) && gs.pa.in == H_ID(T) && gs.pa.out == H_ID(X) && gs.pa.iout == H_IX(X)) \
    : (gs.pa.in == H_ID(F) && gs.pa.iin == H_IX(F) && gs.pa.out == H_ID(T) && gs.spmv.idx == H_ID(T) && gs.spmv.idy == H_ID(X))) \
__CPROVER_ensures(gs.spmv.idA == (A)->id && gs.spmv.alpha == MATH_identity(V) && gs.spmv.beta == MATH_zero(V))
/* two outputs: T is written first, then X (left) / T then X (right): the prefix of a basis grows by the number of
 * "next" elements written, in that order */
#define BAS_STEP(y, k, u) ((H_ISB(y) && (y).b == (k) && (y).i == (u)) ? 1 : 0)
#define BAS_ENS2(X, T, k) (gs.bas.upto[k] == OLDV(gs.bas.upto[k]) + BAS_STEP(T, k, OLDV(gs.bas.upto[k])) \
                              + BAS_STEP(X, k, OLDV(gs.bas.upto[k]) + BAS_STEP(T, k, OLDV(gs.bas.upto[k]))) \
                        && gs.bas.writes[k] == OLDV(gs.bas.writes[k]) + ((H_ISB(T) && (T).b == (k)) ? 1 : 0) + ((H_ISB(X) && (X).b == (k)) ? 1 : 0))

void bh_pspmv(side_type pside, const precond *P, const mat *A, hv F, hv X, hv T)
PSPMV_H_CONTRACT(pside, P, A, F, X, T)
__CPROVER_assigns(gs.pspmv)
__CPROVER_ensures(gs.pspmv.calls == OLDV(gs.pspmv.calls) + 1 && gs.pspmv.side == pside && gs.pspmv.idP == P->id && gs.pspmv.idA == A->id)
__CPROVER_ensures(gs.pspmv.idF == H_ID(F) && gs.pspmv.idX == H_ID(X) && gs.pspmv.idT == H_ID(T));

/* ------------------------------------------------------------------ scalar work arrays
 * a[sc_wr(A, i)] = e   /   ... a[sc_rd(A, i)] ...    (a points to gs.sc.cell)
 * obligations: subscript within the constructor's allocation; element written in this call before it is read */
V nondet_V(void);
static inline size_t sc_wr(int a, size_t i)
{
  __CPROVER_assert(a >= 0 && a < NSC && i < gs_sclen[a], "safety.idx. scalar work array subscript within the constructor's allocation (write)");
  if (gs.sc.lo[a] <= i && i <= gs.sc.hi[a]) { if (i == gs.sc.hi[a]) gs.sc.hi[a] = i + 1; }
  else { gs.sc.lo[a] = i; gs.sc.hi[a] = i + 1; }
  return 0;
}
static inline size_t sc_rd(int a, size_t i)
{
  __CPROVER_assert(a >= 0 && a < NSC && i < gs_sclen[a], "safety.idx. scalar work array subscript within the constructor's allocation (read)");
  __CPROVER_assert(gs.sc.lo[a] <= i && i < gs.sc.hi[a], "C15 scalar work array element is written in this call before it is read");
  gs.sc.cell = nondet_V();
  return 0;
}
/* std::fill(a.begin(), a.end(), 0) */
static inline void sc_fill(int a) { gs.sc.lo[a] = 0; gs.sc.hi[a] = gs_sclen[a]; }
/* Hessenberg matrix H(i, j), (M+1) x M: subscripts are checked against the allocation.  (A column-progress ghost for
 * written-before-read of H was tried and made one obligation take > 200 s of SAT time: not tracked, listed as not decided.) */
static inline size_t h_wr(size_t i, size_t j)
{
  __CPROVER_assert(i < gs_hdim[0] && j < gs_hdim[1], "safety.idx. H(i,j) within the (M+1) x M allocation (write)");
  return 0;
}
static inline size_t h_rd(size_t i, size_t j)
{
  __CPROVER_assert(i < gs_hdim[0] && j < gs_hdim[1], "safety.idx. H(i,j) within the (M+1) x M allocation (read)");
  gs.sc.cell = nondet_V();
  return 0;
}
/* index check only (write-only shadow copies such as LGMRES H0) */
static inline size_t h_ix(size_t i, size_t j)
{
  __CPROVER_assert(i < gs_hdim[0] && j < gs_hdim[1], "safety.idx. H0(i,j) within the (M+1) x M allocation");
  return 0;
}
/* Givens rotations (amgcl/solver/detail/givens_rotations.hpp): scalar code, writes its reference arguments only */
void bs_gen_rot(V dx, V dy, V *c, V *s_) __CPROVER_assigns(*c, *s_);
void bs_app_rot(V *dx, V *dy, V c, V s_) __CPROVER_assigns(*dx, *dy);
#define generate_plane_rotation(dx, dy, c, s_) bs_gen_rot(dx, dy, &(c), &(s_))
#define apply_plane_rotation(dx, dy, c, s_) bs_app_rot(&(dx), &(dy), c, s_)
#define FILL0(a) sc_fill(SC_##a)

/* call-site macros (replace those of orch.h); -DORCH_HANDLES: every vector expression is a handle */
#undef residual
#undef spmv
#undef axpby
#undef axpbypcz
#undef vmul
#undef copy
#undef clear
#undef inner_product
#undef norm
#undef P_APPLY
#ifdef ORCH_HANDLES
#define residual(f, A, x, r) bh_residual(f, &(A), x, r)
#define spmv(al, A, x, be, y) bh_spmv(al, &(A), x, be, y)
#define axpby(a, x, b, y) bh_axpby(a, x, b, y)
#define axpbypcz(a, x, b, y, c, z) bh_axpbypcz(a, x, b, y, c, z)
#define copy(x, y) bh_copy(x, y)
#define clear(x) bh_clear(x)
#define inner_product(x, y) bh_inner_product(x, y)
#define norm(x) bh_norm(x)
#define P_APPLY(P, f, x) bh_papply(&(P), f, x)
#define PSPMV(side, P, A, f, x, t) bh_pspmv(side, &(P), &(A), f, x, t)
#define LIN_COMB(n, cid, b, beta, y) bh_lin_comb(n, cid, b, beta, y)
#else
#define residual(f, A, x, r) bs_residual(&(f), &(A), &(x), &(r))
#define spmv(al, A, x, be, y) bs_spmv(al, &(A), &(x), be, &(y))
#define axpby(a, x, b, y) bs_axpby(a, &(x), b, &(y))
#define axpbypcz(a, x, b, y, c, z) bs_axpbypcz(a, &(x), b, &(y), c, &(z))
#define vmul(a, x, y, b, z) bs_vmul(a, &(x), &(y), b, &(z))
#define copy(x, y) bs_copy(&(x), &(y))
#define clear(x) bs_clear(&(x))
#define inner_product(x, y) bs_inner_product(&(x), &(y))
#define norm(x) bs_norm(&(x))
#define P_APPLY(P, f, x) bs_papply(&(P), &(f), &(x))
#define PSPMV(side, P, A, f, x, t) bs_pspmv(side, &(P), &(A), &(f), &(x), &(t))
#endif

/* requires / invariant helper: a workspace vector as it enters a call (C15) */
#define WS_ENTRY(v, k) (!(v)->defined && !(v)->readonly && (v)->id == (k))
/* loop-invariant helper: identity and writability survive the havoc of *v at a loop head */
#define WS_KEEP(v, k) (!(v)->readonly && (v)->id == (k))
#endif
