/* amgcl_c.h -- C view of the amgcl data layouts used by the extracted function bodies.
 * DATA ONLY plus the value models; no amgcl algorithm is re-written here.
 * Every function body that is verified is cut from /repo on every run.          */
#ifndef AMGCL_C_H
#define AMGCL_C_H
#include <stddef.h>
#include <stdint.h>

/* ---------------------------------------------------------------- value models */
#if defined(MODEL_UF)
/* values are opaque 64-bit tokens; arithmetic is uninterpreted (functional
 * consistency only).  A proof holds for every interpretation of + - * / etc.    */
#ifndef CXC_UF_T
#define CXC_UF_T unsigned long   /* token width knob (bounded units may use a narrower token: EUF small-model property) */
#endif
typedef CXC_UF_T V;
V __CPROVER_uninterpreted_add(V, V);
V __CPROVER_uninterpreted_sub(V, V);
V __CPROVER_uninterpreted_mul(V, V);
V __CPROVER_uninterpreted_div(V, V);
V __CPROVER_uninterpreted_neg(V);
V __CPROVER_uninterpreted_lit(double);
V __CPROVER_uninterpreted_zero(int);
V __CPROVER_uninterpreted_identity(int);
V __CPROVER_uninterpreted_inverse(V);
V __CPROVER_uninterpreted_adjoint(V);
V __CPROVER_uninterpreted_norm(V);
V __CPROVER_uninterpreted_inner(V, V);
V __CPROVER_uninterpreted_max(V, V);
V __CPROVER_uninterpreted_min(V, V);
V __CPROVER_uninterpreted_sqrt(V);
V __CPROVER_uninterpreted_abs(V);
_Bool __CPROVER_uninterpreted_is_zero(V);
_Bool __CPROVER_uninterpreted_less(V, V);
_Bool __CPROVER_uninterpreted_le(V, V);
#define UF_ADD(a, b) __CPROVER_uninterpreted_add((V)(a), (V)(b))
#define UF_SUB(a, b) __CPROVER_uninterpreted_sub((V)(a), (V)(b))
#define UF_MUL(a, b) __CPROVER_uninterpreted_mul((V)(a), (V)(b))
#define UF_DIV(a, b) __CPROVER_uninterpreted_div((V)(a), (V)(b))
#define UF_NEG(a) __CPROVER_uninterpreted_neg((V)(a))
#define UF_CONST(c) __CPROVER_uninterpreted_lit((double)(c))
#define UF_LESS(a, b) __CPROVER_uninterpreted_less((V)(a), (V)(b))
#define UF_LE(a, b) __CPROVER_uninterpreted_le((V)(a), (V)(b))
#define MATH_zero(T) __CPROVER_uninterpreted_zero(0)
#define MATH_identity(T) __CPROVER_uninterpreted_identity(0)
#define math_is_zero(a) __CPROVER_uninterpreted_is_zero((V)(a))
#define math_inverse(a) __CPROVER_uninterpreted_inverse((V)(a))
#define math_adjoint(a) __CPROVER_uninterpreted_adjoint((V)(a))
#define math_norm(a) __CPROVER_uninterpreted_norm((V)(a))
#define math_inner_product(a, b) __CPROVER_uninterpreted_inner((V)(a), (V)(b))
#define UF_MAX(a, b) __CPROVER_uninterpreted_max((V)(a), (V)(b))
#define UF_MIN(a, b) __CPROVER_uninterpreted_min((V)(a), (V)(b))
#elif defined(MODEL_INT32)
/* commutative ring instantiation: exact, order-independent; inputs are kept small
 * by the harness so that no signed overflow can occur                            */
typedef int V;
#define UF_ADD(a, b) ((a) + (b))
#define UF_SUB(a, b) ((a) - (b))
#define UF_MUL(a, b) ((a) * (b))
#define UF_NEG(a) (-(a))
#define UF_CONST(c) (c)
#define UF_LESS(a, b) ((a) < (b))
#define UF_LE(a, b) ((a) <= (b))
#define MATH_zero(T) 0
#define MATH_identity(T) 1
#define math_is_zero(a) ((a) == 0)
#define math_adjoint(a) (a)
#define math_norm(a) ((a) < 0 ? -(a) : (a))
#define UF_MAX(a, b) ((a) > (b) ? (a) : (b))
#define UF_MIN(a, b) ((a) < (b) ? (a) : (b))
#elif defined(MODEL_DOUBLE)
/* concrete IEEE doubles; only for kernels that copy / compare values             */
typedef double V;
#define MATH_zero(T) 0.0
#define MATH_identity(T) 1.0
#define math_adjoint(a) (a)
#endif

/* ------------------------------------------------------- backend::crs<V,C,P>   */
#ifndef CXC_COL_T
#define CXC_COL_T ptrdiff_t
#endif
#ifndef CXC_PTR_T
#define CXC_PTR_T ptrdiff_t
#endif
typedef CXC_COL_T col_type;
typedef CXC_PTR_T ptr_type;
typedef col_type C;
typedef ptr_type P;
typedef col_type Col;
typedef ptr_type Ptr;
#if defined(MODEL_UF) || defined(MODEL_INT32) || defined(MODEL_DOUBLE)
typedef V Val;
typedef V val_type;
typedef V value_type;
/* fields of backend::crs in declaration order (amgcl/backend/builtin.hpp)        */
typedef struct crs {
  size_t nrows, ncols, nnz;
  ptr_type *ptr;
  col_type *col;
  val_type *val;
  _Bool own_data;
} crs;
#endif

/* "throw": precondition(c, msg) leaves the function with g_thrown set            */
extern int g_thrown;
#define PRECONDITION(c, msg)                                                      \
  do {                                                                            \
    if (!(c)) {                                                                   \
      g_thrown = 1;                                                               \
      return CXC_THROW_RET;                                                       \
    }                                                                             \
  } while (0)
#define CXC_THROW_RET

/* reachability canaries (vacuity guard): a separate -DCXC_CANARY build in which every
 * canary must FAIL, i.e. be reachable under the contract's precondition            */
#ifdef CXC_CANARY
#define CANARY(name) __CPROVER_assert(0, "canary " name)
#else
#define CANARY(name) ((void)0)
#endif

/* logical bounds obligation (see cxc/extract.py IdxRule) */
static inline ptrdiff_t cxc_idx(ptrdiff_t e, size_t len, const char *what)
{
#if defined(CXC_CBMC) && !defined(CXC_CANARY)
  __CPROVER_assert(e >= 0 && (size_t)e < len, "safety.idx. subscript within the logical length of the array");
#endif
  (void)what;
  return e;
}
#define IDX(e, len, what) cxc_idx((ptrdiff_t)(e), (size_t)(len), what)

#define std_min(a, b) ((a) < (b) ? (a) : (b))
#define std_max(a, b) ((a) > (b) ? (a) : (b))

#endif
