/* orch.h -- typestate view of the backend for the orchestration layer (solvers, cycle,
 * relaxation apply, composite preconditioners).  DESIGN.md section 4.2.
 *
 * Vectors / matrices / preconditioners are opaque records; every backend primitive is a
 * bodiless C function whose CONTRACT is used at the call site
 * (goto-instrument --replace-call-with-contract).  A vector is `defined` when its content
 * was produced in the current call (or is an input); workspace members of a solver object
 * enter a call NOT defined -- they hold whatever any earlier call, including a diverged or
 * throwing one, left there -- so a proof that no primitive precondition fails shows that no
 * value of an earlier call can flow into this call's result.
 *
 * Scalars are opaque tokens with uninterpreted arithmetic (MODEL_UF).                      */
#ifndef ORCH_H
#define ORCH_H
#define MODEL_UF 1
#include "amgcl_c.h"

typedef V scalar_type;
typedef V coef_type;
typedef V value_type_s;

typedef struct vec {
  _Bool defined;          /* content belongs to the current call                         */
  _Bool readonly;         /* caller-owned input (rhs): must never be written             */
  unsigned long version;  /* bumped by every write                                       */
  int id;                 /* identity (integer ghost id; pointers in ghosts are unsound) */
} vec;
typedef struct mat { int id; } mat;       /* matrices are never written by the solve phase */
typedef struct precond { int id; } precond;

typedef struct result { size_t iters; V resid; } result;

/* ----------------------------------------------------------------- ghost state */
extern int g_thrown;
/* last norm() evaluated: value, vector id, vector version */
V g_last_norm_val; int g_last_norm_id; unsigned long g_last_norm_ver;
unsigned long g_norm_calls;            /* number of norm() calls so far                      */
V g_norm_in0, g_norm_in1;         /* ghost INPUTS (never assigned): the values the first two
                                     norm() calls return -- lets a precondition speak about them */
int g_norm_id0, g_norm_id1;
/* last residual(f,A,x,r): ids and the version of x it was computed from */
int g_res_f, g_res_A, g_res_x, g_res_r; unsigned long g_res_xver, g_res_rver;
unsigned long g_res_calls;
/* last precond apply: input/output ids and version of the output */
int g_papply_in, g_papply_out; unsigned long g_papply_outver; unsigned long g_papply_calls;
/* last axpby(a,x,b,y) */
V g_ax_a, g_ax_b; int g_ax_x, g_ax_y; unsigned long g_ax_calls, g_ax_xver;
/* clear() */
int g_clear_id; unsigned long g_clear_calls;
/* generic call trace (kind, a, b, c) for call-sequence postconditions */
#define TRACE_MAX 24
unsigned g_tr_n; int g_tr_kind[TRACE_MAX], g_tr_a[TRACE_MAX], g_tr_b[TRACE_MAX], g_tr_c[TRACE_MAX];
enum { T_RESIDUAL = 1, T_SPMV, T_AXPBY, T_AXPBYPCZ, T_VMUL, T_COPY, T_CLEAR, T_PAPPLY, T_NORM, T_INNER,
       T_RELAX_PRE, T_RELAX_POST, T_SOLVE, T_CYCLE, T_RELAX_APPLY, T_LINCOMB };

#define MAXITER_BOUND (1UL << 62)
/* zero is zero, one is not (the only algebra the typestate argument needs)             */
#define UF_AXIOMS (math_is_zero(MATH_zero(V)) && !math_is_zero(MATH_identity(V)))

/* ------------------------------------------------------------ backend contracts */
/* r = f - A x */
void bk_residual(const vec *f, const mat *A, const vec *x, vec *r)
__CPROVER_requires(f->defined && x->defined && !r->readonly)
__CPROVER_assigns(r->defined, r->version, g_res_f, g_res_A, g_res_x, g_res_r, g_res_xver, g_res_rver, g_res_calls)
__CPROVER_ensures(r->defined && r->version == __CPROVER_old(r->version) + 1)
__CPROVER_ensures(g_res_f == f->id && g_res_A == A->id && g_res_x == x->id && g_res_r == r->id)
__CPROVER_ensures(g_res_xver == x->version && g_res_rver == r->version)
__CPROVER_ensures(g_res_calls == __CPROVER_old(g_res_calls) + 1);

/* y = alpha A x + beta y : y is read only if beta != 0 */
void bk_spmv(V alpha, const mat *A, const vec *x, V beta, vec *y)
__CPROVER_requires(x->defined && (math_is_zero(beta) || y->defined) && !y->readonly)
__CPROVER_assigns(y->defined, y->version)
__CPROVER_ensures(y->defined && y->version == __CPROVER_old(y->version) + 1);

/* y = a x + b y */
void bk_axpby(V a, const vec *x, V b, vec *y)
__CPROVER_requires(x->defined && (math_is_zero(b) || y->defined) && !y->readonly)
__CPROVER_assigns(y->defined, y->version, g_ax_a, g_ax_b, g_ax_x, g_ax_y, g_ax_calls, g_ax_xver)
__CPROVER_ensures(y->defined && y->version == __CPROVER_old(y->version) + 1)
__CPROVER_ensures(g_ax_a == a && g_ax_b == b && g_ax_x == x->id && g_ax_y == y->id && g_ax_xver == x->version)
__CPROVER_ensures(g_ax_calls == __CPROVER_old(g_ax_calls) + 1);

/* z = a x + b y + c z */
void bk_axpbypcz(V a, const vec *x, V b, const vec *y, V c, vec *z)
__CPROVER_requires(x->defined && y->defined && (math_is_zero(c) || z->defined) && !z->readonly)
__CPROVER_assigns(z->defined, z->version)
__CPROVER_ensures(z->defined && z->version == __CPROVER_old(z->version) + 1);

/* z = a x .* y + b z */
void bk_vmul(V a, const vec *x, const vec *y, V b, vec *z)
__CPROVER_requires(x->defined && y->defined && (math_is_zero(b) || z->defined) && !z->readonly)
__CPROVER_assigns(z->defined, z->version)
__CPROVER_ensures(z->defined && z->version == __CPROVER_old(z->version) + 1);

void bk_copy(const vec *x, vec *y)
__CPROVER_requires(x->defined && !y->readonly)
__CPROVER_assigns(y->defined, y->version)
__CPROVER_ensures(y->defined && y->version == __CPROVER_old(y->version) + 1);

void bk_clear(vec *x)
__CPROVER_requires(!x->readonly)
__CPROVER_assigns(x->defined, x->version, g_clear_id, g_clear_calls)
__CPROVER_ensures(x->defined && x->version == __CPROVER_old(x->version) + 1)
__CPROVER_ensures(g_clear_id == x->id && g_clear_calls == __CPROVER_old(g_clear_calls) + 1);

V bk_inner_product(const vec *x, const vec *y)
__CPROVER_requires(x->defined && y->defined)
__CPROVER_assigns();

/* solver-private norm(x) = sqrt(|<x,x>|) */
V bk_norm(const vec *x)
__CPROVER_requires(x->defined)
__CPROVER_assigns(g_last_norm_val, g_last_norm_id, g_last_norm_ver, g_norm_calls, g_norm_id0, g_norm_id1)
__CPROVER_ensures(__CPROVER_return_value == g_last_norm_val && g_last_norm_id == x->id && g_last_norm_ver == x->version)
__CPROVER_ensures(g_norm_calls == __CPROVER_old(g_norm_calls) + 1)
__CPROVER_ensures(__CPROVER_old(g_norm_calls) == 0 ? (__CPROVER_return_value == g_norm_in0 && g_norm_id0 == x->id) : (g_norm_id0 == __CPROVER_old(g_norm_id0)))
__CPROVER_ensures(__CPROVER_old(g_norm_calls) == 1 ? (__CPROVER_return_value == g_norm_in1 && g_norm_id1 == x->id) : (g_norm_id1 == __CPROVER_old(g_norm_id1)));

/* preconditioner: x = P f  (A-callee: the object passed as Precond honours this contract) */
void bk_papply(const precond *P, const vec *f, vec *x)
__CPROVER_requires(f->defined && !x->readonly)
__CPROVER_assigns(x->defined, x->version, g_papply_in, g_papply_out, g_papply_outver, g_papply_calls)
__CPROVER_ensures(x->defined && x->version == __CPROVER_old(x->version) + 1)
__CPROVER_ensures(g_papply_in == f->id && g_papply_out == x->id && g_papply_outver == x->version)
__CPROVER_ensures(g_papply_calls == __CPROVER_old(g_papply_calls) + 1);

/* call-site macros: the extracted bodies pass objects, the C functions take addresses */
#define residual(f, A, x, r) bk_residual(&(f), &(A), &(x), &(r))
#define spmv(al, A, x, be, y) bk_spmv(al, &(A), &(x), be, &(y))
#define axpby(a, x, b, y) bk_axpby(a, &(x), b, &(y))
#define axpbypcz(a, x, b, y, c, z) bk_axpbypcz(a, &(x), b, &(y), c, &(z))
#define vmul(a, x, y, b, z) bk_vmul(a, &(x), &(y), b, &(z))
#define copy(x, y) bk_copy(&(x), &(y))
#define clear(x) bk_clear(&(x))
#define inner_product(x, y) bk_inner_product(&(x), &(y))
#define norm(x) bk_norm(&(x))
#define P_APPLY(P, f, x) bk_papply(&(P), &(f), &(x))

#undef std_max
#undef std_min
#define std_max(a, b) UF_MAX(a, b)
#define std_min(a, b) UF_MIN(a, b)
#define std_abs(a) __CPROVER_uninterpreted_abs((V)(a))
#define sqrt(a) __CPROVER_uninterpreted_sqrt((V)(a))
#define fabs(a) __CPROVER_uninterpreted_abs((V)(a))
/* amgcl::detail::eps<T>(n) */
V __CPROVER_uninterpreted_eps(unsigned long);
#define EPS(n) __CPROVER_uninterpreted_eps((unsigned long)(n))

/* every ghost variable of the typestate contracts (for assigns clauses) */
#define ORCH_GHOSTS g_last_norm_val, g_last_norm_id, g_last_norm_ver, g_norm_calls, g_norm_id0, g_norm_id1, \
  g_res_f, g_res_A, g_res_x, g_res_r, g_res_xver, g_res_rver, g_res_calls, \
  g_papply_in, g_papply_out, g_papply_outver, g_papply_calls, g_clear_id, g_clear_calls, \
  g_ax_a, g_ax_b, g_ax_x, g_ax_y, g_ax_calls, g_ax_xver
#define ORCH_GHOSTS_ZERO (g_norm_calls == 0 && g_res_calls == 0 && g_clear_calls == 0 && g_papply_calls == 0 && g_ax_calls == 0)

/* marks an expression whose arithmetic was rewritten to UF form by the extractor */
#define UFE(e) (e)
#define MAKE_RESULT(a, b) ((result){a, b})

/* all typestate callee contracts (for --replace-call-with-contract) */
#define ORCH_CALLEES "bk_residual bk_spmv bk_axpby bk_axpbypcz bk_vmul bk_copy bk_clear bk_inner_product bk_norm bk_papply"
#endif
