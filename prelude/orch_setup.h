/* orch_setup.h -- provenance view of the setup phase (coarse operators, rebuild).
 * A build matrix is an opaque record whose `id` is a TERM over uninterpreted constructors
 * (PROD, TR, SCALE): the contract of backend::product says "the result is the product of its
 * arguments" (id == PROD(a, b)); C08 units decide that product/transpose/scale/sort_rows equal
 * their dense definitions.  A caller proved against these contracts computes the stated
 * expression tree, e.g. galerkin == PROD(R, PROD(A, P)).                                     */
#ifndef ORCH_SETUP_H
#define ORCH_SETUP_H
#define MODEL_UF 1
#include "amgcl_c.h"

typedef struct bmat { int id; _Bool sorted; } bmat;
extern int g_thrown;

int __CPROVER_uninterpreted_m_prod(int, int);
int __CPROVER_uninterpreted_m_tr(int);
int __CPROVER_uninterpreted_m_scale(int, V);
size_t __CPROVER_uninterpreted_m_rows(int);
size_t __CPROVER_uninterpreted_m_cols(int);
#define PROD(a, b) __CPROVER_uninterpreted_m_prod(a, b)
#define TR(a) __CPROVER_uninterpreted_m_tr(a)
#define SCALE(a, s) __CPROVER_uninterpreted_m_scale(a, (V)(s))
#define ROWS(a) __CPROVER_uninterpreted_m_rows(a)
#define COLS(a) __CPROVER_uninterpreted_m_cols(a)

/* backend::product(A, B): fresh matrix, value = A*B */
bmat *bk_product(const bmat *A, const bmat *B)
__CPROVER_assigns()
__CPROVER_ensures(__CPROVER_is_fresh(__CPROVER_return_value, sizeof(bmat)) && __CPROVER_return_value->id == PROD(A->id, B->id));

/* backend::transpose(A): fresh matrix, value = A^T */
bmat *bk_transpose(const bmat *A)
__CPROVER_assigns()
__CPROVER_ensures(__CPROVER_is_fresh(__CPROVER_return_value, sizeof(bmat)) && __CPROVER_return_value->id == TR(A->id));

/* backend::scale(A, s): in place, value = s*A */
void bk_scale(bmat *A, V s)
__CPROVER_assigns(A->id)
__CPROVER_ensures(A->id == SCALE(__CPROVER_old(A->id), s));

/* backend::sort_rows(A): same operator, rows sorted */
void bk_sort_rows(bmat *A)
__CPROVER_assigns(A->sorted)
__CPROVER_ensures(A->sorted);

#define product(a, b) bk_product(&(a), &(b))
#define transpose(a) bk_transpose(&(a))
#define scale(a, s) bk_scale(&(a), s)
#define sort_rows(a) bk_sort_rows(&(a))
#define rows(a) ROWS((a).id)
#define cols(a) COLS((a).id)
#endif
