/* orch_trace.h -- straight-line orchestration bodies (relaxation apply_pre/apply_post/apply,
 * composite preconditioners): every backend primitive appends one event to a bounded ghost trace;
 * the function contract states the exact event sequence with arguments (= the defining formula
 * as a call sequence) plus the typestate (no vector read before it is written in this call).   */
#ifndef ORCH_TRACE_H
#define ORCH_TRACE_H
#define MODEL_UF 1
#include "amgcl_c.h"
typedef V scalar_type;
extern int g_thrown;

typedef struct vec { _Bool defined; unsigned long version; int id; } vec;
typedef struct mat { int id; } mat;
typedef struct obj { int id; } obj;      /* opaque helper objects: ILU solver, inner solver, preconditioner ... */

enum { T_NONE = 0, T_RESIDUAL, T_SPMV, T_AXPBY, T_AXPBYPCZ, T_VMUL, T_COPY, T_CLEAR, T_APPLY, T_SOLVE, T_SWEEP, T_GATHER, T_SCATTER };
typedef struct ev { int kind; int o; int v1, v2, v3; V s1, s2, s3; unsigned long ver; } ev;
#ifndef NEV
#define NEV 10
#endif
ev g_ev[NEV];
unsigned g_nev;
#define UF_AXIOMS (math_is_zero(MATH_zero(V)) && !math_is_zero(MATH_identity(V)))
#define WRITTEN(y) ((y)->defined && (y)->version == __CPROVER_old((y)->version) + 1 && (y)->id == __CPROVER_old((y)->id))
/* the new event is E, the number of events grows by one (earlier events are never rewritten: the
 * callee's assigns clause names the single slot g_ev[g_nev]) */
#define APPENDS(K, O, A1, A2, A3, S1, S2, S3, VER) (g_nev == __CPROVER_old(g_nev) + 1 \
  && g_ev[__CPROVER_old(g_nev)].kind == (K) && g_ev[__CPROVER_old(g_nev)].o == (O) \
  && g_ev[__CPROVER_old(g_nev)].v1 == (A1) && g_ev[__CPROVER_old(g_nev)].v2 == (A2) && g_ev[__CPROVER_old(g_nev)].v3 == (A3) \
  && g_ev[__CPROVER_old(g_nev)].s1 == (S1) && g_ev[__CPROVER_old(g_nev)].s2 == (S2) && g_ev[__CPROVER_old(g_nev)].s3 == (S3) \
  && g_ev[__CPROVER_old(g_nev)].ver == (VER))
#define SLOT g_ev[g_nev], g_nev
#define ROOM (g_nev < NEV)

/* r = f - A x */
void tr_residual(const vec *f, const mat *A, const vec *x, vec *r)
__CPROVER_requires(ROOM && f->defined && x->defined)
__CPROVER_assigns(*r, SLOT)
__CPROVER_ensures(WRITTEN(r) && APPENDS(T_RESIDUAL, A->id, f->id, x->id, r->id, 0, 0, 0, x->version));
/* y = alpha A x + beta y */
void tr_spmv(V alpha, const mat *A, const vec *x, V beta, vec *y)
__CPROVER_requires(ROOM && x->defined && (math_is_zero(beta) || y->defined))
__CPROVER_assigns(*y, SLOT)
__CPROVER_ensures(WRITTEN(y) && APPENDS(T_SPMV, A->id, x->id, y->id, 0, alpha, beta, 0, x->version));
/* y = a x + b y */
void tr_axpby(V a, const vec *x, V b, vec *y)
__CPROVER_requires(ROOM && x->defined && (math_is_zero(b) || y->defined))
__CPROVER_assigns(*y, SLOT)
__CPROVER_ensures(WRITTEN(y) && APPENDS(T_AXPBY, 0, x->id, y->id, 0, a, b, 0, x->version));
/* z = a x + b y + c z */
void tr_axpbypcz(V a, const vec *x, V b, const vec *y, V c, vec *z)
__CPROVER_requires(ROOM && x->defined && y->defined && (math_is_zero(c) || z->defined))
__CPROVER_assigns(*z, SLOT)
__CPROVER_ensures(WRITTEN(z) && APPENDS(T_AXPBYPCZ, 0, x->id, y->id, z->id, a, b, c, x->version));
/* z = a x .* y + b z   (x: diagonal-like operand) */
void tr_vmul(V a, const vec *x, const vec *y, V b, vec *z)
__CPROVER_requires(ROOM && x->defined && y->defined && (math_is_zero(b) || z->defined))
__CPROVER_assigns(*z, SLOT)
__CPROVER_ensures(WRITTEN(z) && APPENDS(T_VMUL, 0, x->id, y->id, z->id, a, b, 0, y->version));
void tr_copy(const vec *x, vec *y)
__CPROVER_requires(ROOM && x->defined)
__CPROVER_assigns(*y, SLOT)
__CPROVER_ensures(WRITTEN(y) && APPENDS(T_COPY, 0, x->id, y->id, 0, 0, 0, 0, x->version));
void tr_clear(vec *x)
__CPROVER_requires(ROOM)
__CPROVER_assigns(*x, SLOT)
__CPROVER_ensures(WRITTEN(x) && APPENDS(T_CLEAR, 0, x->id, 0, 0, 0, 0, 0, 0));
/* in-place solve with an opaque factorisation object: x <- S^-1 x  (ilu->solve(x)) */
void tr_solve_inplace(const obj *S, vec *x)
__CPROVER_requires(ROOM && S != 0 && x->defined)
__CPROVER_assigns(*x, SLOT)
__CPROVER_ensures(WRITTEN(x) && APPENDS(T_SOLVE, S->id, x->id, 0, 0, 0, 0, 0, __CPROVER_old(x->version)));
/* x = P f  for an opaque preconditioner / inner solver object */
void tr_apply(const obj *P, const vec *f, vec *x)
__CPROVER_requires(ROOM && P != 0 && f->defined)
__CPROVER_assigns(*x, SLOT)
__CPROVER_ensures(WRITTEN(x) && APPENDS(T_APPLY, P->id, f->id, x->id, 0, 0, 0, 0, f->version));
/* Gauss-Seidel sweep (serial_sweep(A, rhs, x, forward) or forward/backward->sweep(rhs, x)): o = A id (serial) or sweep object id,
 * s1 = direction (1 forward, 0 backward) as a plain integer in v3 */
void tr_sweep(int o, const vec *rhs, vec *x, int forward, int parallel)
__CPROVER_requires(ROOM && rhs->defined && x->defined)
__CPROVER_assigns(*x, SLOT)
__CPROVER_ensures(WRITTEN(x) && APPENDS(T_SWEEP, o, rhs->id, x->id, 2 * parallel + forward, 0, 0, 0, rhs->version));

#define EV(k, K, O, A1, A2, A3) (g_ev[k].kind == (K) && g_ev[k].o == (O) && g_ev[k].v1 == (A1) && g_ev[k].v2 == (A2) && g_ev[k].v3 == (A3))
#define EVS(k, S1, S2, S3) (g_ev[k].s1 == (S1) && g_ev[k].s2 == (S2) && g_ev[k].s3 == (S3))

#define residual(f, A, x, r) tr_residual(&(f), &(A), &(x), &(r))
#define spmv(al, A, x, be, y) tr_spmv(al, &(A), &(x), be, &(y))
#define axpby(a, x, b, y) tr_axpby(a, &(x), b, &(y))
#define axpbypcz(a, x, b, y, c, z) tr_axpbypcz(a, &(x), b, &(y), c, &(z))
#define vmul(a, x, y, b, z) tr_vmul(a, &(x), &(y), b, &(z))
#define copy(x, y) tr_copy(&(x), &(y))
#define clear(x) tr_clear(&(x))
#define TRACE_CALLEES ['tr_residual', 'tr_spmv', 'tr_axpby', 'tr_axpbypcz', 'tr_vmul', 'tr_copy', 'tr_clear', 'tr_solve_inplace', 'tr_apply', 'tr_sweep']
#endif
